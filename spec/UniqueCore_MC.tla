---------------------------- MODULE UniqueCore_MC ----------------------------
(* Bounded model: every producer kind x consumer kind, all interleavings.   *)
(* OrdTable (memory orders per code site) is generated from the running     *)
(* code by the driver: UniqueCore_gen.tla.                                  *)
EXTENDS UniqueCore, UniqueCore_gen, Json

VARIABLE hist      \* schedule so far, for behaviour extraction (hidden from the state by VIEW in the plain run)

O(site) == IF site \in DOMAIN OrdTable THEN OrdTable[site] ELSE [o |-> "sc", f |-> "sc", fences |-> <<>>]

MCInit == Init /\ hist = <<>>

MCStep ==
  /\ Step
  /\ mm' = MM!MStep(mm, ev'.p, ev'.a, Loc(ev'.o), ev'.ok, O(ev'.site).o, O(ev'.site).f, O(ev'.site).fences, ev'.post)

MCNext ==
  \/ MCStep /\ hist' = Append(hist, ev')
  \/ RootDrain /\ UNCHANGED mm /\ hist' = Append(hist, ev')
  \/ Quiescent /\ UNCHANGED vars /\ UNCHANGED hist

MCSpec == MCInit /\ [][MCNext]_<<vars, hist>>

NoRace == MM!NoRace(mm)

\* every run comes to rest: the only states without a real successor are quiescent ones
NoStuck == (~ENABLED (MCStep \/ RootDrain)) => Quiescent

View == vars     \* hist is an observation variable

\* behaviour extraction: print the schedule of every maximal behaviour (used with the _paths config, no VIEW)
PrintPaths ==
  (Quiescent /\ ~ENABLED RootDrain) =>
     PrintT(<<"BEHAVIOUR", ToJson([scen |-> scen, final |-> ExpectedFinal,
                                   evs |-> [i \in 1..Len(hist) |->
                                             [p |-> hist[i].p, a |-> hist[i].a, o |-> hist[i].o, old |-> hist[i].old,
                                              new |-> hist[i].new, ok |-> hist[i].ok, spur |-> hist[i].spur, obs |-> hist[i].obs,
                                              done |-> hist[i].done]]])>>)
=============================================================================
