SPECIFICATION Spec
CONSTANTS
  MaxLen = 12
  MaxW = 12
INVARIANT PickTotal
