SPECIFICATION MCSpec
CONSTANTS
  MaxT = 3
  RoundSets = {"11", "21", "22", "111", "211"}
INVARIANTS TypeOK Exclusion LockedWhileInside NoErr AllEntered NoRace NoStuck
VIEW View
CHECK_DEADLOCK TRUE
