------------------------------- MODULE Strand -------------------------------
(***************************************************************************)
(* yaclib::Strand over an underlying executor with n worker threads         *)
(* (property C07; Called-xor-Dropped and stop clauses of C05; C03 / C04     *)
(* clauses), one action per slice.                                          *)
(*                                                                         *)
(* Code map (src/exe/strand.cpp)                                            *)
(*   Submit: load(relaxed); loop { job.next = ...; weak CAS(acq_rel) };     *)
(*           if it replaced Mark: IncRef + underlying Submit(strand)        *)
(*   Call:   exchange(nullptr, acquire); reverse; run every job;            *)
(*           load(relaxed) == nullptr && CAS(nullptr -> Mark, release)      *)
(*           ? DecRef : underlying Submit(strand)                           *)
(*   Drop:   exchange(Mark, acq_rel); Drop every job; DecRef                *)
(*                                                                         *)
(* The underlying executor is the harness' VerifPool: its queue and parking *)
(* use no yaclib_std operation, so "worker w takes the strand from the      *)
(* queue" happens inside slices (observation "take").  Stop: submissions    *)
(* are refused from then on (the strand is Dropped inline by the            *)
(* submitter); HardStop additionally Drops what is queued.                  *)
(*                                                                         *)
(* Threads are processes (submitters S1.., workers W1.., stopper K); jobs   *)
(* and the strand are passive objects.  Job bodies contain one visible      *)
(* operation (on a scratch counter of the harness) so that overlapping      *)
(* bodies would be observable.                                              *)
(***************************************************************************)
EXTENDS Naturals, Sequences, FiniteSets, TLC

CONSTANTS MaxSubs, MaxWorkers, SubSets, WorkerCounts, Stops, WeakBudgets
\* SubSets: set of strings like "21" (submitter 1 submits 2 jobs, submitter 2 one)

SName(i) == "S" \o ToString(i)
WName(i) == "W" \o ToString(i)
Subs == {SName(i) : i \in 1..MaxSubs}
Wrks == {WName(i) : i \in 1..MaxWorkers}
Proc == Subs \cup Wrks \cup {"K"}
SIdx(p) == CHOOSE i \in 1..MaxSubs : SName(i) = p
WIdx(p) == CHOOSE i \in 1..MaxWorkers : WName(i) = p

Digit(c) == CASE c = "0" -> 0 [] c = "1" -> 1 [] c = "2" -> 2 [] c = "3" -> 3
\* job counts per submitter from the parameter string
Counts(s) == CASE s = "1" -> <<1>> [] s = "2" -> <<2>> [] s = "11" -> <<1, 1>> [] s = "21" -> <<2, 1>> [] s = "12" -> <<1, 2>>
               [] s = "22" -> <<2, 2>> [] s = "111" -> <<1, 1, 1>> [] s = "3" -> <<3>>
JobIds == {10 * s + k : s \in 1..MaxSubs, k \in 1..3}

PLocs == {"plain", "strand"} \cup {"next" \o ToString(j) : j \in JobIds}
ALocs == {"jobs", "ref", "scratch", "kgate"}
MM == INSTANCE MemModel WITH MProc <- Proc, MALoc <- ALocs, MPLoc <- PLocs

VARIABLES scen,       \* [subs (counts), workers, stop, weak]
          jobs,       \* the strand's word: [st : "M" (Mark) | "N" (nullptr) | "S", s : stack of job ids, head first]
          ref,        \* the strand's reference count
          salive,
          pqn,        \* entries of the strand in the underlying pool's queue
          stopped,    \* the underlying pool refuses work
          pc,
          sk,         \* submitter: index of the job it is submitting
          exp,        \* submitter: `expected' of the push loop
          batch,      \* worker / dropper: jobs still to run (first = current)
          weak,
          pushed, called, dropped,   \* job ids in the order pushes took effect / bodies ran / Drops happened
          err, ev, mm

vars == <<scen, jobs, ref, salive, pqn, stopped, pc, sk, exp, batch, weak, pushed, called, dropped, err, ev, mm>>

MW == [st |-> "M", s |-> <<>>]
NW == [st |-> "N", s |-> <<>>]
WStr(w) == IF w.st = "M" THEN "@mark" ELSE IF w.st = "N" THEN "0" ELSE "@j" \o ToString(Head(w.s))
JobOf(p) == 10 * SIdx(p) + sk[p]
NSubs == Len(scen.subs)
UsedSubs == {SName(i) : i \in 1..NSubs}
UsedWrks == {WName(i) : i \in 1..scen.workers}
AllJobs == UNION {{10 * s + k : k \in 1..scen.subs[s]} : s \in 1..NSubs}

Ob(k, v) == [k |-> k, v |-> v]
W(l) == [k |-> "W", l |-> l]
R(l) == [k |-> "R", l |-> l]
Ev(p, a, o, loc, old, new, ok, spur, obs, done, site, post) ==
  [p |-> p, a |-> a, o |-> o, loc |-> loc, old |-> old, new |-> new, ok |-> ok, spur |-> spur, obs |-> obs, done |-> done,
   site |-> site, post |-> post]
NoEv == Ev("-", "-", "-", "ref", "-", "-", TRUE, FALSE, <<>>, FALSE, "-", <<>>)

RECURSIVE Rev(_)
Rev(s) == IF s = <<>> THEN <<>> ELSE Rev(Tail(s)) \o <<Head(s)>>

I0(s) ==
  [ scen |-> s, jobs |-> MW, ref |-> 1, salive |-> TRUE, pqn |-> 0, stopped |-> FALSE,
    pc |-> [p \in Proc |-> IF p \in {SName(i) : i \in 1..Len(s.subs)} THEN "load"
                           ELSE IF p = "K" /\ s.stop # "none" THEN "gate"
                           ELSE IF p \in {WName(i) : i \in 1..s.workers} THEN "idle" ELSE "off"],
    sk |-> [p \in Subs |-> 1], exp |-> [p \in Subs |-> MW], batch |-> [p \in Proc |-> <<>>], weak |-> s.weak,
    pushed |-> <<>>, called |-> <<>>, dropped |-> <<>>, err |-> {}, ev |-> NoEv, mm |-> MM!MInit ]

InitScen(s) ==
  LET i == I0(s) IN
  /\ scen = i.scen /\ jobs = i.jobs /\ ref = i.ref /\ salive = i.salive /\ pqn = i.pqn /\ stopped = i.stopped /\ pc = i.pc
  /\ sk = i.sk /\ exp = i.exp /\ batch = i.batch /\ weak = i.weak /\ pushed = i.pushed /\ called = i.called
  /\ dropped = i.dropped /\ err = i.err /\ ev = i.ev /\ mm = i.mm
ResetScen(s) ==
  LET i == I0(s) IN
  /\ scen' = i.scen /\ jobs' = i.jobs /\ ref' = i.ref /\ salive' = i.salive /\ pqn' = i.pqn /\ stopped' = i.stopped /\ pc' = i.pc
  /\ sk' = i.sk /\ exp' = i.exp /\ batch' = i.batch /\ weak' = i.weak /\ pushed' = i.pushed /\ called' = i.called
  /\ dropped' = i.dropped /\ err' = i.err /\ ev' = i.ev /\ mm' = i.mm

Init == \E ss \in SubSets, w \in WorkerCounts, st \in Stops, wk \in WeakBudgets :
          InitScen([subs |-> Counts(ss), workers |-> w, stop |-> st, weak |-> wk])

UseS == IF salive THEN {} ELSE {<<"use-after-free", "strand">>}

(***************************************************************************)
(* Handing the strand to the underlying pool (plain code in a slice tail):  *)
(* accepted -> queued; refused -> Strand::Drop runs inline in process p.     *)
(***************************************************************************)
\* process p continues with `then' after the strand was accepted; if refused it first runs Drop
\* returns [pc, obs, pqn]
Hand(then) == IF stopped THEN [pc |-> "dropx", obs |-> <<Ob("pool_reject", "")>>, pqn |-> pqn]
              ELSE [pc |-> then, obs |-> <<Ob("pool_submit", "")>>, pqn |-> pqn + 1]

\* where a submitter goes after finishing the submission of its current job
SubNext(p) == IF sk[p] < scen.subs[SIdx(p)] THEN "load" ELSE "done"
\* where process p goes after a Drop it ran inline finished
AfterDrop(p) == IF p \in Subs THEN SubNext(p) ELSE IF p = "K" THEN "done" ELSE "loop"

(***************************************************************************)
(* Submitters                                                               *)
(***************************************************************************)
SLoad(p) ==
  /\ pc[p] = "load"
  /\ exp' = [exp EXCEPT ![p] = jobs]
  /\ pc' = [pc EXCEPT ![p] = "casw"]
  /\ err' = err \cup UseS
  /\ ev' = Ev(p, "load", "jobs", "jobs", WStr(jobs), WStr(jobs), TRUE, FALSE, <<>>, FALSE, "Submit.load", <<W("next" \o ToString(JobOf(p)))>>)
  /\ UNCHANGED <<scen, jobs, ref, salive, pqn, stopped, sk, batch, weak, pushed, called, dropped>>

SCasw(p) ==
  /\ pc[p] = "casw"
  /\ LET j == JobOf(p) IN
     \/ /\ jobs = exp[p]                       \* pushed
        /\ jobs' = [st |-> "S", s |-> <<j>> \o jobs.s]
        /\ pushed' = Append(pushed, j)
        /\ IF jobs.st = "M"
             THEN /\ pc' = [pc EXCEPT ![p] = "incref"] /\ UNCHANGED sk
             ELSE /\ pc' = [pc EXCEPT ![p] = SubNext(p)]
                  /\ sk' = [sk EXCEPT ![p] = IF SubNext(p) = "load" THEN @ + 1 ELSE @]
        /\ err' = err \cup UseS
        /\ ev' = Ev(p, "casw", "jobs", "jobs", WStr(jobs), "@j" \o ToString(j), TRUE, FALSE, <<>>,
                    jobs.st # "M" /\ SubNext(p) = "done", "Submit.casw", <<>>)
        /\ UNCHANGED <<exp, weak>>
     \/ /\ jobs # exp[p]                       \* lost the race: expected := current, try again
        /\ exp' = [exp EXCEPT ![p] = jobs]
        /\ err' = err \cup UseS
        /\ ev' = Ev(p, "casw", "jobs", "jobs", WStr(jobs), WStr(jobs), FALSE, FALSE, <<>>, FALSE, "Submit.casw", <<W("next" \o ToString(j))>>)
        /\ UNCHANGED <<jobs, pushed, pc, sk, weak>>
     \/ /\ weak > 0                            \* injected spurious failure (the wrapper loads the current value)
        /\ weak' = weak - 1
        /\ exp' = [exp EXCEPT ![p] = jobs]
        /\ err' = err \cup UseS
        /\ ev' = Ev(p, "load", "jobs", "jobs", WStr(jobs), WStr(jobs), TRUE, TRUE, <<>>, FALSE, "Submit.casw.spurious", <<W("next" \o ToString(j))>>)
        /\ UNCHANGED <<jobs, pushed, pc, sk>>
  /\ UNCHANGED <<scen, ref, salive, pqn, stopped, batch, called, dropped>>

\* the push replaced Mark: this submitter schedules the strand
SIncRef(p) ==
  /\ pc[p] = "incref"
  /\ ref' = ref + 1
  /\ LET h == Hand(SubNext(p)) IN
     /\ pqn' = h.pqn
     /\ pc' = [pc EXCEPT ![p] = h.pc]
     /\ sk' = [sk EXCEPT ![p] = IF h.pc = "load" THEN @ + 1 ELSE @]
     /\ err' = err \cup UseS
     /\ ev' = Ev(p, "fadd", "ref", "ref", ToString(ref), ToString(ref + 1), TRUE, FALSE, h.obs, h.pc = "done", "Submit.IncRef.fadd", <<>>)
  /\ UNCHANGED <<scen, jobs, salive, stopped, exp, batch, weak, pushed, called, dropped>>

(***************************************************************************)
(* Strand::Drop, run inline by whoever was refused (or by HardStop)         *)
(***************************************************************************)
DropObs(s) == [k \in 1..Len(s) |-> Ob("drop", ToString(s[k]))]

DropX(p) ==
  /\ pc[p] = "dropx"
  /\ jobs' = MW
  /\ dropped' = dropped \o jobs.s
  /\ pc' = [pc EXCEPT ![p] = "dropdec"]
  /\ err' = err \cup UseS \cup (IF jobs.st = "S" THEN {} ELSE {<<"Drop on an empty strand", p>>})
  /\ ev' = Ev(p, "xchg", "jobs", "jobs", WStr(jobs), "@mark", TRUE, FALSE, DropObs(jobs.s), FALSE, "Drop.xchg",
              [k \in 1..Len(jobs.s) |-> R("next" \o ToString(jobs.s[k]))])
  /\ UNCHANGED <<scen, ref, salive, pqn, stopped, sk, exp, batch, weak, pushed, called>>

\* what a worker does when Call / Drop returned to the pool's loop (tail of the slice): take again or go idle
LoopNext(q) == IF q > 0 THEN [pc |-> "xchg", obs |-> <<Ob("take", "")>>, pqn |-> q - 1] ELSE [pc |-> "idle", obs |-> <<>>, pqn |-> q]

DropDec(p) ==
  /\ pc[p] = "dropdec"
  /\ ref' = ref - 1
  /\ LET last == ref = 1
         nx == AfterDrop(p)
         ln == LoopNext(pqn)
     IN  /\ salive' = IF last THEN FALSE ELSE salive
         /\ err' = err \cup UseS
         /\ IF nx = "loop"
              THEN /\ pc' = [pc EXCEPT ![p] = ln.pc] /\ pqn' = ln.pqn /\ UNCHANGED sk
                   /\ ev' = Ev(p, "fsub", "ref", "ref", ToString(ref), ToString(ref - 1), TRUE, FALSE, ln.obs, FALSE,
                               IF last THEN "DecRef.fsub+last" ELSE "DecRef.fsub", IF last THEN <<W("strand")>> ELSE <<>>)
              ELSE /\ pc' = [pc EXCEPT ![p] = nx] /\ UNCHANGED pqn
                   /\ sk' = IF p \in Subs /\ nx = "load" THEN [sk EXCEPT ![p] = @ + 1] ELSE sk
                   /\ ev' = Ev(p, "fsub", "ref", "ref", ToString(ref), ToString(ref - 1), TRUE, FALSE,
                               IF p = "K" THEN <<Ob("stopped", "")>> ELSE <<>>, nx = "done",
                               IF last THEN "DecRef.fsub+last" ELSE "DecRef.fsub", IF last THEN <<W("strand")>> ELSE <<>>)
  /\ UNCHANGED <<scen, jobs, stopped, exp, batch, weak, pushed, called, dropped>>

(***************************************************************************)
(* Workers of the underlying pool running Strand::Call                      *)
(***************************************************************************)
\* an idle worker (parked, or woken by a Submit) finds the strand in the queue
WTake(w) ==
  /\ pc[w] = "idle" /\ pqn > 0
  /\ pqn' = pqn - 1
  /\ pc' = [pc EXCEPT ![w] = "xchg"]
  /\ ev' = Ev(w, "none", "-", "ref", "-", "-", TRUE, FALSE, <<Ob("take", "")>>, FALSE, "Pool.take", <<>>)
  /\ UNCHANGED <<scen, jobs, ref, salive, stopped, sk, exp, batch, weak, pushed, called, dropped, err>>

WXchg(w) ==
  /\ pc[w] = "xchg"
  /\ jobs' = NW
  /\ LET b == Rev(jobs.s) IN
     /\ batch' = [batch EXCEPT ![w] = b]
     /\ pc' = [pc EXCEPT ![w] = "body"]
     /\ err' = err \cup UseS \cup (IF jobs.st = "S" THEN {} ELSE {<<"Call on an empty strand", w>>})
     /\ ev' = Ev(w, "xchg", "jobs", "jobs", WStr(jobs), "0", TRUE, FALSE,
                 IF b # <<>> THEN <<Ob("enter", ToString(Head(b)))>> ELSE <<>>, FALSE, "Call.xchg",
                 [k \in 1..Len(jobs.s) |-> R("next" \o ToString(jobs.s[k]))] \o [k \in 1..Len(jobs.s) |-> W("next" \o ToString(jobs.s[k]))]
                 \o <<W("plain")>>)
  /\ UNCHANGED <<scen, ref, salive, pqn, stopped, sk, exp, weak, pushed, called, dropped>>

\* the visible operation inside the body of the current job; afterwards the next body begins, or the final check
WBody(w) ==
  /\ pc[w] = "body" /\ batch[w] # <<>>
  /\ LET j == Head(batch[w])
         rest == Tail(batch[w])
     IN  /\ called' = Append(called, j)
         /\ batch' = [batch EXCEPT ![w] = rest]
         /\ pc' = [pc EXCEPT ![w] = IF rest = <<>> THEN "cload" ELSE "body"]
         /\ ev' = Ev(w, "fadd", "scratch", "scratch", ToString(Len(called)), ToString(Len(called) + 1), TRUE, FALSE,
                     <<Ob("leave", ToString(j))>> \o (IF rest = <<>> THEN <<>> ELSE <<Ob("enter", ToString(Head(rest)))>>),
                     FALSE, "Job.body", IF rest = <<>> THEN <<>> ELSE <<W("plain")>>)
  /\ UNCHANGED <<scen, jobs, ref, salive, pqn, stopped, sk, exp, weak, pushed, dropped, err>>

\* resubmission of the strand by the worker that just ran a batch, then back to the pool's loop
Resubmit(w, a, old, new, ok, site) ==
  IF stopped
    THEN /\ pc' = [pc EXCEPT ![w] = "dropx"] /\ UNCHANGED pqn
         /\ ev' = Ev(w, a, "jobs", "jobs", old, new, ok, FALSE, <<Ob("pool_reject", "")>>, FALSE, site, <<>>)
    ELSE \* queued; the worker itself is back in the loop and finds it at once
         /\ pc' = [pc EXCEPT ![w] = "xchg"] /\ pqn' = pqn
         /\ ev' = Ev(w, a, "jobs", "jobs", old, new, ok, FALSE, <<Ob("pool_submit", ""), Ob("take", "")>>, FALSE, site, <<>>)

WCLoad(w) ==
  /\ pc[w] = "cload"
  /\ err' = err \cup UseS
  /\ IF jobs.st = "N"
       THEN /\ pc' = [pc EXCEPT ![w] = "ccas"] /\ UNCHANGED pqn
            /\ ev' = Ev(w, "load", "jobs", "jobs", "0", "0", TRUE, FALSE, <<>>, FALSE, "Call.load", <<>>)
       ELSE Resubmit(w, "load", WStr(jobs), WStr(jobs), TRUE, "Call.load")
  /\ UNCHANGED <<scen, jobs, ref, salive, stopped, sk, exp, batch, weak, pushed, called, dropped>>

WCCas(w) ==
  /\ pc[w] = "ccas"
  /\ err' = err \cup UseS
  /\ IF jobs.st = "N"
       THEN /\ jobs' = MW
            /\ pc' = [pc EXCEPT ![w] = "cdec"] /\ UNCHANGED pqn
            /\ ev' = Ev(w, "cas", "jobs", "jobs", "0", "@mark", TRUE, FALSE, <<>>, FALSE, "Call.cas", <<>>)
       ELSE /\ UNCHANGED jobs
            /\ Resubmit(w, "cas", WStr(jobs), WStr(jobs), FALSE, "Call.cas")
  /\ UNCHANGED <<scen, ref, salive, stopped, sk, exp, batch, weak, pushed, called, dropped>>

WCDec(w) ==
  /\ pc[w] = "cdec"
  /\ ref' = ref - 1
  /\ LET last == ref = 1
         ln == LoopNext(pqn)
     IN  /\ salive' = IF last THEN FALSE ELSE salive
         /\ err' = err \cup UseS
         /\ pc' = [pc EXCEPT ![w] = ln.pc] /\ pqn' = ln.pqn
         /\ ev' = Ev(w, "fsub", "ref", "ref", ToString(ref), ToString(ref - 1), TRUE, FALSE, ln.obs, FALSE,
                     IF last THEN "DecRef.fsub+last" ELSE "DecRef.fsub", IF last THEN <<W("strand")>> ELSE <<>>)
  /\ UNCHANGED <<scen, jobs, stopped, sk, exp, batch, weak, pushed, called, dropped>>

(***************************************************************************)
(* Stopper                                                                  *)
(***************************************************************************)
KGate ==
  /\ pc.K = "gate"
  /\ stopped' = TRUE
  /\ IF scen.stop = "hard" /\ pqn > 0
       THEN \* HardStop Drops the queued strand inline
            /\ pqn' = pqn - 1
            /\ pc' = [pc EXCEPT !.K = "dropx"]
            /\ ev' = Ev("K", "store", "kgate", "kgate", "0", "1", TRUE, FALSE, <<>>, FALSE, "Harness.gate", <<>>)
       ELSE /\ pc' = [pc EXCEPT !.K = "done"] /\ UNCHANGED pqn
            /\ ev' = Ev("K", "store", "kgate", "kgate", "0", "1", TRUE, FALSE, <<Ob("stopped", "")>>, TRUE, "Harness.gate", <<>>)
  /\ UNCHANGED <<scen, jobs, ref, salive, sk, exp, batch, weak, pushed, called, dropped, err>>

Step == \/ \E p \in Subs : SLoad(p) \/ SCasw(p) \/ SIncRef(p)
        \/ \E p \in Proc : DropX(p) \/ DropDec(p)
        \/ \E w \in Wrks : WTake(w) \/ WXchg(w) \/ WBody(w) \/ WCLoad(w) \/ WCCas(w) \/ WCDec(w)
        \/ KGate

Quiescent == /\ \A p \in UsedSubs : pc[p] = "done"
             /\ \A w \in UsedWrks : pc[w] = "idle"
             /\ pc.K \in {"done", "off"}
             /\ pqn = 0

(***************************************************************************)
(* Properties (C07)                                                         *)
(***************************************************************************)
\* jobs never run concurrently with each other
NoOverlap == Cardinality({w \in Wrks : pc[w] = "body"}) <= 1
\* they run in the order their submissions took effect (hence in program order per submitter)
Pos(s, x) == CHOOSE k \in 1..Len(s) : s[k] = x
InPushOrder == \A a, b \in 1..Len(called) : a < b => Pos(pushed, called[a]) < Pos(pushed, called[b])
\* each job is Called xor Dropped, at most once always, exactly once at quiescence; Dropped only after a refusal
AtMostOnce == \A j \in JobIds : Cardinality({k \in 1..Len(called) : called[k] = j}) + Cardinality({k \in 1..Len(dropped) : dropped[k] = j}) <= 1
ExactlyOnceAtQuiescence == Quiescent => \A j \in AllJobs : \E k \in 1..Len(called \o dropped) : (called \o dropped)[k] = j
DropOnlyWhenRefused == dropped # <<>> => stopped
\* the strand's own bookkeeping is balanced
OwnershipOK == err = {}
BalancedAtQuiescence == Quiescent => (ref = 1 /\ jobs = MW /\ salive)
=============================================================================
