SPECIFICATION Spec
CONSTANTS
  MaxLen = 2
  Srcs = {"ready_val", "ready_exc", "after_val", "after_err", "on_after_val", "run_val", "run_throw", "task_val", "sched_val", "lcontract_val"}
  Atts = {"inline", "e1", "e2", "inh"}
  Args = {"V", "E", "X", "R"}
  Behs = {"val", "void_hop", "void_throw", "throw", "fut_pending", "task_make"}
  Rejects = {0, 1, 9}
  Starts = {"to_future", "to_future_e2", "detach_e2"}
INVARIANTS CalledXorDropped DropOnlyWhenStopped RanWhereTold InvokedInOrder LazyEqualsEager CancelRunsNoValueCallback AllocBound Emit
CHECK_DEADLOCK FALSE
