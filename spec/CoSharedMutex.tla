---------------------------- MODULE CoSharedMutex ----------------------------
(***************************************************************************)
(* yaclib::SharedMutex<FIFO, ReadersFIFO> for coroutines (property C15).    *)
(*                                                                         *)
(* Same structure as CoMutex.tla: processes are the pool's workers,         *)
(* coroutines are passive objects, one action = one yaclib_std operation of *)
(* a worker plus the plain code up to its next operation (silent program    *)
(* points run by `Settle').                                                 *)
(*                                                                         *)
(* Code map (include/yaclib/coro/shared_mutex.hpp)                          *)
(*   state = (writers holding or waiting, readers holding or registered),   *)
(*   updated OUTSIDE the spinlock; readers queue / writers list /           *)
(*   writers_first / writers_prio / readers_size / readers_pass are plain   *)
(*   fields under the spinlock; readers_wait is the atomic debt of active   *)
(*   readers the first waiting writer waits for (it may go "negative":      *)
(*   32-bit wrap-around, relied on by AwaitLock's `!= -r').                  *)
(*   ls_f            TryLockSharedAwait: fetch_add(reader)                  *)
(*   sl_x, sl_l      Spinlock::lock: exchange(1) / spin on load             *)
(*   als             AwaitLockShared under the lock: use a pass or queue    *)
(*   tl_l, tl_c      TryLockAwait: load, strong CAS 0 -> writer             *)
(*   al_f, al_rw     AwaitLock under the lock: fetch_add(writer); the first *)
(*                   writer adds the readers it saw to readers_wait         *)
(*   ts_l, ts_c      TryLockShared: load, weak CAS loop while no writer     *)
(*   us_f, us_rw     UnlockHereShared: fetch_sub(reader); with a writer     *)
(*                   present pay one unit of readers_wait, the last one     *)
(*                   submits writers_first                                  *)
(*   ux_c            UnlockHere fast path: strong CAS writer -> 0           *)
(*   su_f, rr_st     SlowUnlock under the lock: fetch_sub(writer), then     *)
(*                   RunWriter / RunReaders (store readers_wait) /          *)
(*                   PassReaders                                            *)
(*   ul_s            Spinlock::unlock (release store)                       *)
(***************************************************************************)
EXTENDS Integers, Sequences, FiniteSets, TLC

CONSTANTS MaxC, MaxW, Opts, WorkerCounts, P1s, P2s, P3s, P4s

ProgChars(s) ==
  CASE s = "" -> <<>>
    [] s = "r" -> <<"r">>
    [] s = "w" -> <<"w">>
    [] s = "g" -> <<"g">>
    [] s = "G" -> <<"G">>
    [] s = "R" -> <<"R">>
    [] s = "W" -> <<"W">>
    [] s = "rr" -> <<"r", "r">>
    [] s = "rw" -> <<"r", "w">>
    [] s = "rg" -> <<"r", "g">>
    [] s = "rG" -> <<"r", "G">>
    [] s = "rR" -> <<"r", "R">>
    [] s = "rW" -> <<"r", "W">>
    [] s = "wr" -> <<"w", "r">>
    [] s = "ww" -> <<"w", "w">>
    [] s = "wg" -> <<"w", "g">>
    [] s = "wG" -> <<"w", "G">>
    [] s = "wR" -> <<"w", "R">>
    [] s = "wW" -> <<"w", "W">>
    [] s = "gr" -> <<"g", "r">>
    [] s = "gw" -> <<"g", "w">>
    [] s = "gg" -> <<"g", "g">>
    [] s = "gG" -> <<"g", "G">>
    [] s = "gR" -> <<"g", "R">>
    [] s = "gW" -> <<"g", "W">>
    [] s = "Gr" -> <<"G", "r">>
    [] s = "Gw" -> <<"G", "w">>
    [] s = "Gg" -> <<"G", "g">>
    [] s = "GG" -> <<"G", "G">>
    [] s = "GR" -> <<"G", "R">>
    [] s = "GW" -> <<"G", "W">>
    [] s = "Rr" -> <<"R", "r">>
    [] s = "Rw" -> <<"R", "w">>
    [] s = "Rg" -> <<"R", "g">>
    [] s = "RG" -> <<"R", "G">>
    [] s = "RR" -> <<"R", "R">>
    [] s = "RW" -> <<"R", "W">>
    [] s = "Wr" -> <<"W", "r">>
    [] s = "Ww" -> <<"W", "w">>
    [] s = "Wg" -> <<"W", "g">>
    [] s = "WG" -> <<"W", "G">>
    [] s = "WR" -> <<"W", "R">>
    [] s = "WW" -> <<"W", "W">>
    [] s = "rwr" -> <<"r", "w", "r">>
    [] s = "wrw" -> <<"w", "r", "w">>
    [] s = "RwG" -> <<"R", "w", "G">>
    [] s = "gWr" -> <<"g", "W", "r">>
    [] s = "rrw" -> <<"r", "r", "w">>
    [] s = "wwr" -> <<"w", "w", "r">>

CIdx == 1..MaxC
S(i) == ToString(i)
WName(i) == "W" \o S(i)
Wrk == {WName(i) : i \in 1..MaxW}
Proc == Wrk \cup {"root"}

ALocs == {"state", "rwait", "lock", "scratch", "pool"} \cup {"kcb" \o S(c) : c \in CIdx}
PLocs == {"data", "guarded", "wfirst"}
MM == INSTANCE MemModel WITH MProc <- Proc, MALoc <- ALocs, MPLoc <- PLocs

VARIABLES st, ev, mm
vars == <<st, ev, mm>>

Ob(k, v) == [k |-> k, v |-> v]
W(l) == [k |-> "W", l |-> l]
R(l) == [k |-> "R", l |-> l]
Rel(l) == [k |-> "Rel", l |-> l]
Acq(l) == [k |-> "Acq", l |-> l]

Ev(p, a, o, loc, old, new, ok, obs, site, post) ==
  [p |-> p, a |-> a, o |-> o, loc |-> loc, old |-> old, new |-> new, ok |-> ok, spur |-> FALSE, obs |-> obs, done |-> FALSE,
   site |-> site, post |-> post]
NoEv == Ev("-", "-", "-", "state", "-", "-", TRUE, <<>>, "-", <<>>)

Hex(n) == IF n < 10 THEN ToString(n) ELSE <<"a", "b", "c", "d", "e", "f">>[n - 9]
\* how the harness prints the 64-bit state word and the 32-bit readers_wait word
SWord(w, r) == IF w = 0 THEN ToString(r) ELSE "x" \o Hex(w) \o "0000000" \o Hex(r)
RWord(n) == IF n >= 0 THEN ToString(n) ELSE IF n = -1 THEN "MAX" ELSE "xfffffff" \o Hex(16 + n)

I0(s) ==
  [ scen |-> s,       \* [fifo, rfifo, workers, progs]
    sw |-> 0, sr |-> 0, rwait |-> 0, lock |-> "free",
    rq |-> <<>>,      \* queued readers in the order they will be popped
    wq |-> <<>>, wfirst |-> 0, prio |-> 0, rsize |-> 0, rpass |-> 0,
    queue |-> [i \in 1..Len(s.progs) |-> i],
    wk |-> [w \in Wrk |-> [pc |-> IF \E i \in 1..s.workers : w = WName(i) THEN "idle" ELSE "off", c |-> 0,
                           s |-> [w |-> 0, r |-> 0], cont |-> "-", after |-> "-", run |-> <<>>]],
    co |-> [c \in CIdx |-> [r |-> 1, res |-> IF c <= Len(s.progs) THEN "start" ELSE "none"]],
    sh |-> {}, ex |-> {}, data |-> 0, scratch |-> 0,
    parked |-> {},    \* ghost: coroutines suspended in a lock request
    grants |-> [c \in CIdx |-> 0], fin |-> [c \in CIdx |-> FALSE], tryfails |-> [c \in CIdx |-> 0],
    kcb |-> [c \in CIdx |-> "0"],
    err |-> {}, obs |-> <<>>, post |-> <<>> ]

InitScen(s) == st = I0(s) /\ ev = NoEv /\ mm = MM!MInit
ResetScen(s) == st' = I0(s) /\ ev' = NoEv /\ mm' = MM!MInit

Digit(o, n) == IF n = 1 THEN o \in {"10", "11"} ELSE o \in {"01", "11"}
MkScen(o, n, ps) == [fifo |-> Digit(o, 1), rfifo |-> Digit(o, 2), workers |-> n, progs |-> ps]
ProgSeq(a, b, c, d) == SelectSeq(<<ProgChars(a), ProgChars(b), ProgChars(c), ProgChars(d)>>, LAMBDA x : x # <<>>)
Init == \E o \in Opts, n \in WorkerCounts, a \in P1s, b \in P2s, c \in P3s, d \in P4s : InitScen(MkScen(o, n, ProgSeq(a, b, c, d)))

NC(s) == Len(s.scen.progs)
Prog(s, c) == s.scen.progs[c]
Form(s, c) == Prog(s, c)[s.co[c].r]
IsShared(f) == f \in {"r", "g", "R"}

AddObs(s, k, v) == [s EXCEPT !.obs = Append(@, Ob(k, v))]
AddPost(s, acc) == [s EXCEPT !.post = @ \o acc]
Goto(s, w, pc) == [s EXCEPT !.wk[w].pc = pc]
G == <<R("guarded"), W("guarded")>>     \* the plain fields under the spinlock

Submit(s, c) ==
  AddPost(AddObs([s EXCEPT !.queue = Append(@, c), !.parked = @ \ {c},
                           !.err = IF c \in s.parked THEN @ ELSE @ \cup {<<"submitted a coroutine that does not wait", c>>}],
                 "pool_submit", ""), <<Rel("pool")>>)

\* take the spinlock, then continue at the silent point `cont'
Locked(s, w, cont) == [s EXCEPT !.wk[w].pc = "sl_x", !.wk[w].cont = cont]
\* release it, then continue at `after'
Unlock(s, w, after) == [s EXCEPT !.wk[w].pc = "ul_s", !.wk[w].after = after]

(***************************************************************************)
(* Silent program points                                                    *)
(***************************************************************************)
RECURSIVE SubmitAll(_, _)
SubmitAll(s, cs) == IF cs = <<>> THEN s ELSE SubmitAll(Submit(s, Head(cs)), Tail(cs))

Silent(s, w) ==
  LET me == s.wk[w]
      c == me.c
      pc == me.pc
  IN
  CASE pc = "loop" ->
         IF s.queue = <<>> THEN [s EXCEPT !.wk[w].pc = "idle", !.wk[w].c = 0]
         ELSE AddPost(AddObs([s EXCEPT !.queue = Tail(@), !.wk[w].c = Head(s.queue), !.wk[w].pc = "resume"], "take", ""), <<Acq("pool")>>)
    [] pc = "resume" ->
         LET res == s.co[c].res
             s1 == [s EXCEPT !.co[c].res = "running"]
         IN  IF res = "start" THEN Goto(s1, w, "round")
             ELSE IF res = "granted_s" THEN Goto(s1, w, "enter_s")
             ELSE Goto(s1, w, "enter_x")
    [] pc = "round" ->
         LET f == Form(s, c) IN
         Goto(s, w, IF f \in {"r", "g"} THEN "ls_f" ELSE IF f = "R" THEN "ts_l" ELSE "tl_l")
    [] pc = "enter_s" ->
         AddPost(AddObs([s EXCEPT !.sh = @ \cup {c}, !.grants[c] = @ + 1, !.wk[w].pc = "cs_op",
                                  !.err = IF s.ex # {} THEN @ \cup {<<"shared holder together with an exclusive one", c, s.ex>>} ELSE @],
                        "enter", S(c) \o "s:" \o S(s.data)), <<R("data")>>)
    [] pc = "enter_x" ->
         AddPost(AddObs([s EXCEPT !.ex = @ \cup {c}, !.data = c, !.grants[c] = @ + 1, !.wk[w].pc = "cs_op",
                                  !.err = IF s.ex # {} \/ s.sh # {} THEN @ \cup {<<"exclusive holder together with another holder", c, s.ex, s.sh>>} ELSE @],
                        "enter", S(c) \o "x:" \o S(s.data)), <<R("data"), W("data")>>)
    [] pc = "als" ->     \* AwaitLockShared under the spinlock
         IF s.rpass # 0
           THEN AddPost(Unlock([s EXCEPT !.rpass = @ - 1], w, "enter_s"), G)
           ELSE AddPost(Unlock([s EXCEPT !.rq = IF s.scen.rfifo THEN Append(@, c) ELSE <<c>> \o @, !.rsize = @ + 1,
                                         !.parked = @ \cup {c}, !.co[c].res = "granted_s",
                                         !.err = IF s.sw = 0 THEN @ \cup {<<"reader queued while no writer is registered", c>>} ELSE @],
                               w, "loop"), G)
    [] pc = "al" -> Goto(s, w, "al_f")
    [] pc = "su" -> Goto(s, w, "su_f")
    [] pc = "su2" ->     \* SlowUnlock after the fetch_sub, me.s = the state it saw
         LET old == me.s IN
         IF (s.scen.fifo /\ s.prio # 0) \/ (s.rq = <<>> /\ ~s.scen.fifo /\ old.w # 1)
           THEN \* RunWriter
                IF s.wq = <<>> THEN AddPost(Unlock([s EXCEPT !.err = @ \cup {<<"RunWriter without a queued writer", w>>}], w, "next_round"), G)
                ELSE AddPost(Unlock([s EXCEPT !.prio = IF s.scen.fifo THEN @ - 1 ELSE @, !.wq = Tail(@), !.wk[w].run = <<Head(s.wq)>>],
                                    w, "run"), G)
         ELSE IF s.rq # <<>>
           THEN IF old.w # 1 THEN Goto(s, w, "rr_st") ELSE Goto([s EXCEPT !.rpass = @ + (old.r - s.rsize)], w, "rr2")
         ELSE AddPost(Unlock([s EXCEPT !.rpass = @ + (old.r - s.rsize)], w, "next_round"), G)      \* PassReaders
    [] pc = "rr1" ->     \* RunReaders with another writer registered: it becomes writers_first
         IF s.wq = <<>> THEN Goto([s EXCEPT !.err = @ \cup {<<"RunReaders: no queued writer although writers are registered", w>>}], w, "rr2")
         ELSE AddPost(Goto([s EXCEPT !.wfirst = Head(s.wq), !.wq = Tail(@), !.prio = IF s.scen.fifo THEN me.s.w - 2 ELSE @], w, "rr2"),
                      <<W("wfirst")>>)
    [] pc = "rr2" -> AddPost(Unlock([s EXCEPT !.wk[w].run = s.rq, !.rq = <<>>, !.rsize = 0], w, "run"), G)
    [] pc = "run" -> Goto(SubmitAll([s EXCEPT !.wk[w].run = <<>>], me.run), w, "next_round")
    [] pc = "run_first" ->   \* the last active reader submits writers_first
         LET s1 == AddPost(s, <<R("wfirst")>>) IN
         Goto(IF s.wfirst = 0 THEN [s1 EXCEPT !.err = @ \cup {<<"no writers_first to run", w>>}] ELSE Submit(s1, s.wfirst), w, "next_round")
    [] pc = "next_round" ->
         IF s.co[c].r < Len(Prog(s, c)) THEN [s EXCEPT !.co[c].r = @ + 1, !.wk[w].pc = "round"]
         ELSE AddObs(Goto(s, w, "fin_x"), "finish", S(c))

VisiblePc == {"ls_f", "sl_x", "sl_l", "ul_s", "tl_l", "tl_c", "al_f", "al_rw", "ts_l", "ts_c", "cs_op", "us_f", "us_rw", "ux_c",
              "su_f", "rr_st", "fin_x", "idle", "off"}
RECURSIVE Settle(_, _)
Settle(s, w) == IF s.wk[w].pc \in VisiblePc THEN s ELSE Settle(Silent(s, w), w)

(***************************************************************************)
(* Operations                                                               *)
(***************************************************************************)
Fresh(s) == [s EXCEPT !.obs = <<>>, !.post = <<>>]
TryFail(s, w, c) == AddObs([s EXCEPT !.wk[w].pc = "next_round", !.tryfails[c] = @ + 1], "tryfail", S(c))

Op(s0, w) ==
  LET s == Fresh(s0)
      me == s.wk[w]
      c == me.c
      pc == me.pc
      sword == SWord(s.sw, s.sr)
      cur == [w |-> s.sw, r |-> s.sr]
  IN
  CASE pc = "ls_f" ->
         [s |-> IF s.sw = 0 THEN [s EXCEPT !.sr = @ + 1, !.wk[w].pc = "enter_s"] ELSE Locked([s EXCEPT !.sr = @ + 1], w, "als"),
          a |-> "fadd", o |-> "state", loc |-> "state", old |-> sword, new |-> SWord(s.sw, s.sr + 1), ok |-> TRUE, site |-> "TryLockShared.fadd"]
    [] pc = "sl_x" ->
         LET free == s.lock = "free" IN
         [s |-> IF free THEN [s EXCEPT !.lock = w, !.wk[w].pc = me.cont] ELSE Goto(s, w, "sl_l"),
          a |-> "xchg", o |-> "lock", loc |-> "lock", old |-> IF free THEN "0" ELSE "1", new |-> "1", ok |-> TRUE, site |-> "Spinlock.lock.xchg"]
    [] pc = "sl_l" ->
         LET free == s.lock = "free" IN
         [s |-> IF free THEN Goto(s, w, "sl_x") ELSE s,
          a |-> "load", o |-> "lock", loc |-> "lock", old |-> IF free THEN "0" ELSE "1", new |-> IF free THEN "0" ELSE "1", ok |-> TRUE,
          site |-> "Spinlock.lock.load"]
    [] pc = "ul_s" ->
         [s |-> [s EXCEPT !.lock = "free", !.wk[w].pc = me.after,
                          !.err = IF s.lock # w THEN @ \cup {<<"unlock of a spinlock held by", s.lock, w>>} ELSE @],
          a |-> "store", o |-> "lock", loc |-> "lock", old |-> "1", new |-> "0", ok |-> TRUE, site |-> "Spinlock.unlock.store"]
    [] pc = "tl_l" ->
         [s |-> IF s.sw = 0 /\ s.sr = 0 THEN Goto(s, w, "tl_c")
                ELSE IF Form(s, c) = "W" THEN TryFail(s, w, c) ELSE Locked(s, w, "al"),
          a |-> "load", o |-> "state", loc |-> "state", old |-> sword, new |-> sword, ok |-> TRUE, site |-> "TryLock.load"]
    [] pc = "tl_c" ->
         LET ok == s.sw = 0 /\ s.sr = 0 IN
         [s |-> IF ok THEN [s EXCEPT !.sw = 1, !.wk[w].pc = "enter_x"]
                ELSE IF Form(s, c) = "W" THEN TryFail(s, w, c) ELSE Locked(s, w, "al"),
          a |-> "cas", o |-> "state", loc |-> "state", old |-> sword, new |-> IF ok THEN SWord(1, 0) ELSE sword, ok |-> ok, site |-> "TryLock.cas"]
    [] pc = "al_f" ->
         [s |-> IF s.sw = 0
                  THEN IF s.sr = 0 THEN AddPost(Unlock([s EXCEPT !.sw = 1, !.wfirst = c], w, "enter_x"), G \o <<W("wfirst")>>)
                       ELSE AddPost([s EXCEPT !.sw = 1, !.wfirst = c, !.wk[w].s = cur, !.wk[w].pc = "al_rw"], G \o <<W("wfirst")>>)
                  ELSE AddPost(Unlock([s EXCEPT !.sw = @ + 1, !.wq = Append(@, c), !.parked = @ \cup {c}, !.co[c].res = "granted_x",
                                                !.prio = IF s.scen.fifo /\ s.rq = <<>> THEN @ + 1 ELSE @], w, "loop"), G),
          a |-> "fadd", o |-> "state", loc |-> "state", old |-> sword, new |-> SWord(s.sw + 1, s.sr), ok |-> TRUE, site |-> "AwaitLock.fadd"]
    [] pc = "al_rw" ->
         LET r == me.s.r
             now == s.rwait = 0 - r
         IN
         [s |-> IF now THEN Unlock([s EXCEPT !.rwait = @ + r], w, "enter_x")
                ELSE Unlock([s EXCEPT !.rwait = @ + r, !.parked = @ \cup {c}, !.co[c].res = "granted_x"], w, "loop"),
          a |-> "fadd", o |-> "rwait", loc |-> "rwait", old |-> RWord(s.rwait), new |-> RWord(s.rwait + r), ok |-> TRUE,
          site |-> "AwaitLock.readers_wait.fadd"]
    [] pc = "ts_l" ->
         [s |-> IF s.sw # 0 THEN TryFail(s, w, c) ELSE [s EXCEPT !.wk[w].s = cur, !.wk[w].pc = "ts_c"],
          a |-> "load", o |-> "state", loc |-> "state", old |-> sword, new |-> sword, ok |-> TRUE, site |-> "TryLockShared.load"]
    [] pc = "ts_c" ->
         LET ok == me.s = cur IN
         [s |-> IF ok THEN [s EXCEPT !.sr = @ + 1, !.wk[w].pc = "enter_s"]
                ELSE IF s.sw # 0 THEN TryFail(s, w, c) ELSE [s EXCEPT !.wk[w].s = cur],
          a |-> "casw", o |-> "state", loc |-> "state", old |-> sword, new |-> IF ok THEN SWord(s.sw, s.sr + 1) ELSE sword, ok |-> ok,
          site |-> "TryLockShared.cas"]
    [] pc = "cs_op" ->
         LET shared == c \in s.sh IN
         [s |-> AddObs([s EXCEPT !.scratch = @ + 1, !.sh = @ \ {c}, !.ex = @ \ {c}, !.wk[w].pc = IF shared THEN "us_f" ELSE "ux_c"], "leave", S(c)),
          a |-> "fadd", o |-> "scratch", loc |-> "scratch", old |-> S(s.scratch), new |-> S(s.scratch + 1), ok |-> TRUE, site |-> "Section.body"]
    [] pc = "us_f" ->
         [s |-> [s EXCEPT !.sr = @ - 1, !.wk[w].pc = IF s.sw >= 1 THEN "us_rw" ELSE "next_round",
                          !.err = IF s.sr = 0 THEN @ \cup {<<"shared unlock with no reader registered", c>>} ELSE @],
          a |-> "fsub", o |-> "state", loc |-> "state", old |-> sword, new |-> SWord(s.sw, s.sr - 1), ok |-> TRUE, site |-> "UnlockShared.fsub"]
    [] pc = "us_rw" ->
         [s |-> [s EXCEPT !.rwait = @ - 1, !.wk[w].pc = IF s.rwait = 1 THEN "run_first" ELSE "next_round"],
          a |-> "fsub", o |-> "rwait", loc |-> "rwait", old |-> RWord(s.rwait), new |-> RWord(s.rwait - 1), ok |-> TRUE,
          site |-> "UnlockShared.readers_wait.fsub"]
    [] pc = "ux_c" ->
         LET ok == s.sw = 1 /\ s.sr = 0 IN
         [s |-> IF ok THEN [s EXCEPT !.sw = 0, !.wk[w].pc = "next_round"] ELSE Locked(s, w, "su"),
          a |-> "cas", o |-> "state", loc |-> "state", old |-> sword, new |-> IF ok THEN "0" ELSE sword, ok |-> ok, site |-> "Unlock.cas"]
    [] pc = "su_f" ->
         [s |-> [s EXCEPT !.sw = @ - 1, !.wk[w].s = cur, !.wk[w].pc = "su2",
                          !.err = IF s.sw = 0 THEN @ \cup {<<"exclusive unlock with no writer registered", c>>} ELSE @],
          a |-> "fsub", o |-> "state", loc |-> "state", old |-> sword, new |-> SWord(s.sw - 1, s.sr), ok |-> TRUE, site |-> "SlowUnlock.fsub"]
    [] pc = "rr_st" ->
         [s |-> [s EXCEPT !.rwait = s.rsize, !.wk[w].pc = "rr1"],
          a |-> "store", o |-> "rwait", loc |-> "rwait", old |-> RWord(s.rwait), new |-> RWord(s.rsize), ok |-> TRUE,
          site |-> "RunReaders.readers_wait.store"]
    [] pc = "fin_x" ->
         [s |-> [s EXCEPT !.kcb[c] = "MAX", !.fin[c] = TRUE, !.co[c].res = "done", !.wk[w].pc = "loop", !.wk[w].c = 0],
          a |-> "xchg", o |-> "k" \o S(c) \o ".cb", loc |-> "kcb" \o S(c), old |-> s.kcb[c], new |-> "MAX", ok |-> TRUE,
          site |-> "Coro.SetResult.xchg"]

WOp(w) ==
  /\ st.wk[w].pc \in VisiblePc \ {"idle", "off"}
  /\ LET r == Op(st, w)
         s1 == Settle(r.s, w)
     IN  /\ st' = s1
         /\ ev' = Ev(w, r.a, r.o, r.loc, r.old, r.new, r.ok, s1.obs, r.site, s1.post)

WTake(w) ==
  /\ st.wk[w].pc = "idle" /\ st.queue # <<>>
  /\ LET s1 == Settle(Goto(Fresh(st), w, "loop"), w) IN
     /\ st' = s1
     /\ ev' = Ev(w, "none", "-", "pool", "-", "-", TRUE, s1.obs, "Pool.take", s1.post)

Step == \E w \in Wrk : WOp(w) \/ WTake(w)

UsedC == 1..NC(st)
Quiescent == /\ \A w \in Wrk : st.wk[w].pc \in {"idle", "off"}
             /\ st.queue = <<>>
             /\ \A c \in UsedC : st.fin[c]

(***************************************************************************)
(* Properties (C15)                                                         *)
(***************************************************************************)
\* a coroutine holding the exclusive lock overlaps with no other holder; shared holders overlap only with each other
Exclusion == (st.ex # {} => Cardinality(st.ex) = 1 /\ st.sh = {}) /\ st.err = {}
Rounds(c) == Len(Prog(st, c))
GrantedAtMostOnce == \A c \in UsedC : st.grants[c] + st.tryfails[c] <= Rounds(c)
GrantedAtQuiescence == Quiescent => \A c \in UsedC : st.grants[c] + st.tryfails[c] = Rounds(c)
\* the counters of the two domains agree when everything is over: nobody is forgotten, no credit or debt is left
CleanAtQuiescence ==
  Quiescent => /\ st.sw = 0 /\ st.sr = 0 /\ st.rwait = 0 /\ st.rpass = 0 /\ st.rsize = 0 /\ st.prio = 0
               /\ st.rq = <<>> /\ st.wq = <<>> /\ st.parked = {} /\ st.lock = "free" /\ st.sh = {} /\ st.ex = {}
\* the state word counts at least the holders
CountsCoverHolders == st.sr >= Cardinality(st.sh) /\ st.sw >= Cardinality(st.ex) /\ st.rsize = Len(st.rq)
=============================================================================
