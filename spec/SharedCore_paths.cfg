SPECIFICATION MCSpec
CONSTANTS
  Obs = {"O1"}
  ObsOps = {"then_inline", "then_exec", "subscribe", "share", "copy_drop", "ready", "get", "get_const"}
  ProdKinds = {"val", "err"}
  WeakBudget = 1
INVARIANTS PrintPaths
CHECK_DEADLOCK FALSE
