SPECIFICATION Spec
CONSTANTS
  MaxLen = 3
  Srcs = {"task_val", "sched_val", "lcontract_val"}
  Atts = {"inline", "e1", "inh"}
  Args = {"V", "E", "R"}
  Behs = {"val"}
  Rejects = {0, 9}
  Starts = {"to_future", "to_future_e2", "detach_e2", "drop"}
INVARIANTS CalledXorDropped DropOnlyWhenStopped RanWhereTold InvokedInOrder LazyEqualsEager CancelRunsNoValueCallback AllocBound Emit
CHECK_DEADLOCK FALSE
