SPECIFICATION Spec
CONSTANTS
  Kind = "fx32"
  NL = 1
  B = 65536
  MaxDepth = 3
  FullOps = FALSE
INVARIANTS TypeOK FetchVsAssign Emit
CHECK_DEADLOCK FALSE
