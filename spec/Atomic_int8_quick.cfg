SPECIFICATION Spec
CONSTANTS
  Kind = "int"
  NL = 1
  B = 256
  MaxDepth = 2
  FullOps = FALSE
INVARIANTS TypeOK CasContract FetchVsAssign Emit
CHECK_DEADLOCK FALSE
