SPECIFICATION TSpec
CONSTANTS
  MaxC = 4
  MaxW = 3
  Opts = {"10"}
  WorkerCounts = {2}
  P1s = {"a"}
  P2s = {"a"}
  P3s = {""}
  P4s = {""}
INVARIANTS
  MutualExclusion GrantedAtMostOnce GrantedAtQuiescence NobodyForgotten ProtocolOK WaitersAccounted NoRace
  AbsNoOverlap AbsVisible AbsGrantedAtMostOnce AbsEnd
POSTCONDITION Accepted
CHECK_DEADLOCK FALSE
