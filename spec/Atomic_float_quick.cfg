SPECIFICATION Spec
CONSTANTS
  Kind = "float"
  NL = 1
  B = 65536
  MaxDepth = 2
  FullOps = FALSE
INVARIANTS TypeOK CasContract FetchVsAssign Emit
CHECK_DEADLOCK FALSE
