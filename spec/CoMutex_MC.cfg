SPECIFICATION MCSpec
CONSTANTS
  KeepHist = FALSE
  MaxC = 3
  MaxW = 2
  Opts = {"00", "01", "10", "11"}
  WorkerCounts = {1, 2}
  P1s = {"ab", "sc"}
  P2s = {"ac", "tg", "hs"}
  P3s = {""}
  P4s = {""}
INVARIANTS
  MutualExclusion GrantedAtMostOnce GrantedAtQuiescence NobodyForgotten ProtocolOK WaitersAccounted NoRace NoStuck
VIEW View
CHECK_DEADLOCK TRUE
