------------------------------ MODULE MemModel ------------------------------
(***************************************************************************)
(* Happens-before bookkeeping shared by all concurrent specifications       *)
(* (C04 and the "visible" clauses of other properties).                     *)
(*                                                                         *)
(* Sequentially consistent exploration mode: the client specification       *)
(* decides which value an atomic operation reads (the latest one); this     *)
(* module only tracks which plain accesses are ordered by happens-before    *)
(* as defined by C++20: release sequences headed by a release store and     *)
(* continued by read-modify-writes, acquire loads, fences per               *)
(* [atomics.fences], fork/join and lock/unlock edges.  A pair of            *)
(* conflicting plain accesses not ordered by happens-before is recorded in  *)
(* the `race' field: it is a data race in SOME sequentially consistent      *)
(* execution, which is all a C++ data race needs.                           *)
(*                                                                         *)
(* The state is one record `m' owned by the client; every operator returns  *)
(* the updated record.                                                      *)
(***************************************************************************)
EXTENDS Naturals, Sequences, FiniteSets

CONSTANTS MProc,   \* processes (threads)
          MALoc,   \* atomic locations (also mutexes: lock = acquire RMW, unlock = release store)
          MPLoc    \* plain (non-atomic) locations

ZeroVC == [q \in MProc |-> 0]
VJoin(a, b) == [q \in MProc |-> IF a[q] >= b[q] THEN a[q] ELSE b[q]]

MInit ==
  [ vc   |-> [p \in MProc |-> [q \in MProc |-> IF p = q THEN 1 ELSE 0]],
    rel  |-> [x \in MALoc |-> ZeroVC],     \* clock carried by the current release sequence of x
    acqp |-> [p \in MProc |-> ZeroVC],     \* clocks seen by relaxed loads, armed by a later acquire fence
    relf |-> [p \in MProc |-> ZeroVC],     \* clock at the last release fence
    w    |-> [l \in MPLoc |-> [p |-> "none", c |-> 0]],   \* last write epoch
    r    |-> [l \in MPLoc |-> ZeroVC],                     \* read epochs since the last write
    race |-> {} ]

IsAcq(o) == o \in {"acq", "acq_rel", "sc", "con"}
IsRel(o) == o \in {"rel", "acq_rel", "sc"}

Tick(m, p) == [m EXCEPT !.vc[p][p] = @ + 1]
Pub(m, p, o) == IF IsRel(o) THEN m.vc[p] ELSE m.relf[p]     \* what a store / RMW publishes

ALoad(m, p, x, o) ==
  Tick(IF IsAcq(o) THEN [m EXCEPT !.vc[p]   = VJoin(@, m.rel[x])]
                   ELSE [m EXCEPT !.acqp[p] = VJoin(@, m.rel[x])], p)

AStore(m, p, x, o) == Tick([m EXCEPT !.rel[x] = Pub(m, p, o)], p)   \* a plain store ends the old sequence

ARmw(m, p, x, o) ==                                                   \* an RMW continues it
  LET old == m.rel[x]
      m1  == IF IsAcq(o) THEN [m EXCEPT !.vc[p] = VJoin(@, old)] ELSE [m EXCEPT !.acqp[p] = VJoin(@, old)]
  IN  Tick([m1 EXCEPT !.rel[x] = VJoin(old, Pub(m1, p, o))], p)

AFence(m, p, o) ==
  LET m1 == IF IsAcq(o) THEN [m EXCEPT !.vc[p] = VJoin(@, m.acqp[p])] ELSE m
  IN  Tick(IF IsRel(o) THEN [m1 EXCEPT !.relf[p] = m1.vc[p]] ELSE m1, p)

WriteOrdered(m, p, l) == m.w[l].p = "none" \/ m.w[l].c <= m.vc[p][m.w[l].p]

PRead(m, p, l) ==
  [m EXCEPT !.r[l][p] = m.vc[p][p],
            !.race = IF WriteOrdered(m, p, l) THEN @ ELSE @ \cup {<<"R", p, l>>}]

PWrite(m, p, l) ==
  LET ok == WriteOrdered(m, p, l) /\ \A q \in MProc : m.r[l][q] <= m.vc[p][q]
  IN  [m EXCEPT !.w[l] = [p |-> p, c |-> m.vc[p][p]], !.r[l] = ZeroVC,
                !.race = IF ok THEN @ ELSE @ \cup {<<"W", p, l>>}]

\* thread creation / join and executor hand-off edges
Fork(m, p, child)  == Tick([m EXCEPT !.vc[child] = VJoin(@, m.vc[p])], p)
JoinT(m, p, child) == Tick([m EXCEPT !.vc[p] = VJoin(@, m.vc[child])], p)

(***************************************************************************)
(* One slice of a process as the conformance harness records it:            *)
(*   a      operation kind as logged ("load", "store", "xchg", "cas", ...)   *)
(*   x      atomic location (ignored for "none")                            *)
(*   ok     CAS success                                                     *)
(*   o, f   success / failure memory order as passed by the code            *)
(*   fences orders of the atomic_thread_fence calls that follow the         *)
(*          operation in this slice                                         *)
(*   post   plain accesses that follow, <<[k |-> "R"|"W", l |-> loc], ...>>, *)
(*          and "Rel"/"Acq" entries on an atomic location for the           *)
(*          synchronisation an executor queue provides between submit and   *)
(*          take when the queue itself performs no recorded operation       *)
(* Lock-like operations use fixed orders (their std contract).              *)
(***************************************************************************)
RECURSIVE ApplyFences(_, _, _)
ApplyFences(m, p, fs) == IF fs = <<>> THEN m ELSE ApplyFences(AFence(m, p, Head(fs)), p, Tail(fs))

RECURSIVE ApplyPlain(_, _, _)
ApplyPlain(m, p, acc) ==
  IF acc = <<>> THEN m
  ELSE LET h == Head(acc)
       IN  ApplyPlain(CASE h.k = "R"   -> PRead(m, p, h.l)
                        [] h.k = "W"   -> PWrite(m, p, h.l)
                        [] h.k = "Rel" -> ARmw(m, p, h.l, "rel")   \* hand-off through an executor queue: submit ...
                        [] h.k = "Acq" -> ARmw(m, p, h.l, "acq"),  \* ... and take (the queue's own synchronisation)
                      p, Tail(acc))

AtomicPart(m, p, a, x, ok, o, f) ==
  CASE a \in {"load"}                                -> ALoad(m, p, x, o)
    [] a \in {"store"}                               -> AStore(m, p, x, o)
    [] a \in {"xchg", "fadd", "fsub", "fand", "for", "fxor"} -> ARmw(m, p, x, o)
    [] a \in {"cas", "casw"}                         -> IF ok THEN ARmw(m, p, x, o) ELSE ALoad(m, p, x, f)
    [] a \in {"lock", "trylock", "cvwake", "cvwake_for", "lock_shared"} -> IF ok THEN ARmw(m, p, x, "acq") ELSE m
    [] a \in {"unlock", "cvwait", "cvwait_for", "unlock_shared"}        -> ARmw(m, p, x, "rel")
    [] OTHER                                         -> m

MStep(m, p, a, x, ok, o, f, fences, post) ==
  ApplyPlain(ApplyFences(AtomicPart(m, p, a, x, ok, o, f), p, fences), p, post)

NoRace(m) == m.race = {}
=============================================================================
