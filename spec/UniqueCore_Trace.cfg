SPECIFICATION TSpec
CONSTANTS
  ProdKinds = {"val"}
  ConsKinds = {"get"}
INVARIANTS
  TypeOK InvokedAtMostOnce DeliveredIntact DeliveredAtQuiescence OwnershipOK ReleasedAtQuiescence WaitMeansReady NoRace
  AbsAtMostOnce AbsIntact AbsNothingIfDropped AbsWaitMeansReady AbsEnd
POSTCONDITION Accepted
CHECK_DEADLOCK FALSE
