SPECIFICATION TSpec
CONSTANTS
  ProdKinds = {"val"}
  ConsKinds = {"get"}
INVARIANTS
  TypeOK InvokedAtMostOnce DeliveredIntact DeliveredAtQuiescence OwnershipOK ReleasedAtQuiescence WaitMeansReady NoRace
  AbsAtMostOnce AbsIntact AbsNothingIfDropped AbsWaitMeansReady AbsEnd AbsNoUseAfterReturn
POSTCONDITION Accepted
CHECK_DEADLOCK FALSE
