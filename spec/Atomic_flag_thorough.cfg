SPECIFICATION Spec
CONSTANTS
  Kind = "flag"
  NL = 1
  B = 2
  MaxDepth = 7
  FullOps = TRUE
INVARIANTS TypeOK CasContract FetchVsAssign Emit
CHECK_DEADLOCK FALSE
