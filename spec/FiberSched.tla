----------------------------- MODULE FiberSched -----------------------------
(***************************************************************************)
(* The decision rules of the fiber fault-injection scheduler as a           *)
(* DETERMINISTIC function of (list contents, random draw, configuration)    *)
(* (property C17):                                                          *)
(*                                                                         *)
(*  * PollRandomElementFromList (src/fault/fiber/scheduler.cpp) draws       *)
(*    r < 2*W; r >= W means "count from the back"; the position is          *)
(*    p = r mod W ... and BiList::GetElement(p, reversed)                   *)
(*    (bidirectional_intrusive_list.cpp) wraps p modulo the list size:      *)
(*      forward : index p               if p < size, else p mod size        *)
(*      reversed: index size - 1 - p    if p < size, else                   *)
(*                (size - p mod size) mod size                              *)
(*  * the scheduler resumes exactly the fiber it picked from the run queue, *)
(*  * virtual time never goes backwards and advances by the tick length     *)
(*    per resumption (plus jumps to the next sleeper when nothing is        *)
(*    runnable).                                                            *)
(*                                                                         *)
(* Recorded runs are validated against these rules: given the logged draw   *)
(* every pick must be the one the function computes -- a decision taken     *)
(* from an address, the wall clock or a container's iteration order is a    *)
(* rejected trace.  TLC also checks on the function itself that it is       *)
(* total and picks a member of the list.                                    *)
(***************************************************************************)
EXTENDS Naturals, Sequences, TLC

\* 0-based index from the front that GetElement(pos, reversed) returns for a list of n elements
Index(n, pos, reversed) ==
  IF pos < n THEN (IF reversed THEN n - 1 - pos ELSE pos)
  ELSE IF reversed THEN (n - (pos % n)) % n ELSE pos % n

\* the element picked from list `ids' for draw r with pick width W
PickFn(ids, r, W) ==
  LET reversed == r >= W
      pos == IF reversed THEN r - W ELSE r
  IN  ids[Index(Len(ids), pos, reversed) + 1]

\* sanity of the function, checked by TLC over all small arguments
CONSTANTS MaxLen, MaxW
PickTotal == \A n \in 1..MaxLen, W \in 1..MaxW, r \in 0..(2 * MaxW - 1) :
               r < 2 * W => Index(n, IF r >= W THEN r - W ELSE r, r >= W) \in 0..(n - 1)

VARIABLE dummy
Init == dummy = 0
Next == UNCHANGED dummy
Spec == Init /\ [][Next]_dummy
=============================================================================
