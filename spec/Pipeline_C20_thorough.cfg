SPECIFICATION Spec
CONSTANTS
  MaxLen = 3
  Srcs = {"ready_val", "after_val", "run_val", "sched_val", "task_val", "lcontract_val"}
  Atts = {"inline", "e1", "inh"}
  Args = {"V", "R", "X"}
  Behs = {"val", "throw", "res_val", "fut_ready", "fut_pending", "shared_ready", "task_make", "task_sched_then"}
  Rejects = {9}
  Starts = {"to_future", "detach"}
INVARIANTS CalledXorDropped DropOnlyWhenStopped RanWhereTold InvokedInOrder LazyEqualsEager CancelRunsNoValueCallback AllocBound Emit
CHECK_DEADLOCK FALSE
