SPECIFICATION Spec
CONSTANTS
  Kind = "ptr"
  NL = 1
  B = 65536
  MaxDepth = 3
  FullOps = FALSE
INVARIANTS TypeOK CasContract FetchVsAssign Emit
CHECK_DEADLOCK FALSE
