SPECIFICATION TSpec
CONSTANTS
  MaxSubs = 3
  MaxWorkers = 2
  SubSets = {"11"}
  WorkerCounts = {1}
  Stops = {"stop"}
INVARIANTS
  AtMostOnce ExactlyOnceAtQuiescence DropOnlyWhenStopped SoftStopOnlyWhenIdle WaitMeansDone SingleWorkerFIFO MutexOK NoRace
  AbsAtMostOnce AbsWaitMeansDone AbsEnd AbsNoUseAfterReturn AbsSoftStopKeepsFollowUps
POSTCONDITION Accepted
CHECK_DEADLOCK FALSE
