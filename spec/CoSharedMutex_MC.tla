----------------------------- MODULE CoSharedMutex_MC -----------------------------
(* Bounded model of CoSharedMutex.tla; memory orders from CoSharedMutex_gen (extracted from the running code). *)
EXTENDS CoSharedMutex, CoSharedMutex_gen

O(site) == IF site \in DOMAIN OrdTable THEN OrdTable[site] ELSE [o |-> "sc", f |-> "sc", fences |-> <<>>]

MCInit == Init

MCStep ==
  /\ Step
  \* an iteration of a spin loop changes nothing (and must not advance the vector clock, or the model is infinite)
  /\ mm' = IF st' = st THEN mm
           ELSE MM!MStep(mm, ev'.p, ev'.a, ev'.loc, ev'.ok, O(ev'.site).o, O(ev'.site).f, O(ev'.site).fences, ev'.post)

MCNext == MCStep \/ (Quiescent /\ UNCHANGED vars)
\* the protocol alone (larger bounds): no happens-before bookkeeping
PStep == Step /\ UNCHANGED mm
PSpec == MCInit /\ [][PStep \/ (Quiescent /\ UNCHANGED vars)]_vars
PNoStuck == (~ENABLED PStep) => Quiescent
\* under weak fairness of every worker every request is eventually granted and every coroutine finishes
\* (an iteration of the spinlock's wait loop is a stuttering step: it does not count as progress of the spinning worker)
FairP == PSpec /\ \A w \in Wrk : WF_vars(PStep /\ ev'.p = w)
PView == st
MCSpec == MCInit /\ [][MCNext]_vars
\* weak fairness of every worker: every request is eventually granted and every coroutine finishes
FairSpec == MCSpec /\ \A w \in Wrk : WF_vars(MCStep /\ ev'.p = w)
EventuallyQuiescent == <>Quiescent

NoRace == MM!NoRace(mm)
NoStuck == (~ENABLED MCStep) => Quiescent
View == <<st, mm>>
=============================================================================
