---------------------------- MODULE Await_MC ----------------------------
(* Bounded model of Await.tla; memory orders from Await_gen (extracted from the running code). *)
EXTENDS Await, Await_gen, Json

VARIABLE hist
CONSTANT KeepHist   \* TRUE only for behaviour extraction (the _paths configuration)

O(site) == IF site \in DOMAIN OrdTable THEN OrdTable[site] ELSE [o |-> "sc", f |-> "sc", fences |-> <<>>]

MCInit == Init /\ hist = <<>>

MCStep ==
  /\ Step
  /\ mm' = MM!MStep(mm, ev'.p, ev'.a, ev'.loc, ev'.ok, O(ev'.site).o, O(ev'.site).f, O(ev'.site).fences, ev'.post)

MCNext ==
  \/ MCStep /\ hist' = (IF KeepHist THEN Append(hist, ev') ELSE hist)

  \/ Quiescent /\ UNCHANGED vars /\ UNCHANGED hist

MCSpec == MCInit /\ [][MCNext]_<<vars, hist>>

\* every waiter is eventually released / the coroutine eventually completes, under weak fairness of every thread
FairSpec == MCSpec /\ \A p \in Proc : WF_<<vars, hist>>(MCStep /\ hist' = (IF KeepHist THEN Append(hist, ev') ELSE hist) /\ ev'.p = p)
EventuallyQuiescent == <>Quiescent

NoRace == MM!NoRace(mm)
NoStuck == (~ENABLED MCStep) => Quiescent
View == <<scen, cb, cnt, kcb, pc, ki, wcount, coro, resumes, err, mm>>

\* behaviour extraction: the schedule of every maximal behaviour (used with the _paths config, no VIEW)
RECURSIVE OutsStr(_)
OutsStr(i) == IF i > N THEN "" ELSE scen.outs[i] \o OutsStr(i + 1)
\* the root drops the coroutine's future at the end: a frame that was never resumed is destroyed there
RootTail == IF coro = "dropped" THEN <<[p |-> "root", obs |-> <<Ob("local_dtor", "")>>]>> ELSE <<>>
PrintPaths ==
  Quiescent =>
     PrintT(<<"BEHAVIOUR", ToJson([scen |-> [form |-> scen.form, n |-> ToString(N), outs |-> OutsStr(1), exec |-> scen.exec],
                                   final |-> ExpectedFinal,
                                   evs |-> [i \in 1..Len(hist) |->
                                             [p |-> hist[i].p, a |-> hist[i].a, o |-> hist[i].o, old |-> hist[i].old,
                                              new |-> hist[i].new, ok |-> hist[i].ok, spur |-> hist[i].spur, obs |-> hist[i].obs,
                                              done |-> hist[i].done]] \o RootTail])>>)
=============================================================================
