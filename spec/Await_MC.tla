---------------------------- MODULE Await_MC ----------------------------
(* Bounded model of Await.tla; memory orders from Await_gen (extracted from the running code). *)
EXTENDS Await, Await_gen, Json

VARIABLE hist

O(site) == IF site \in DOMAIN OrdTable THEN OrdTable[site] ELSE [o |-> "sc", f |-> "sc", fences |-> <<>>]

MCInit == Init /\ hist = <<>>

MCStep ==
  /\ Step
  /\ mm' = MM!MStep(mm, ev'.p, ev'.a, ev'.loc, ev'.ok, O(ev'.site).o, O(ev'.site).f, O(ev'.site).fences, ev'.post)

MCNext ==
  \/ MCStep /\ hist' = hist

  \/ Quiescent /\ UNCHANGED vars /\ UNCHANGED hist

MCSpec == MCInit /\ [][MCNext]_<<vars, hist>>

NoRace == MM!NoRace(mm)
NoStuck == (~ENABLED MCStep) => Quiescent
View == <<scen, cb, cnt, kcb, pc, ki, wcount, coro, resumes, err, mm>>
=============================================================================
