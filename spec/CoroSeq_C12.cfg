SPECIFICATION Spec
CONSTANTS
  Kinds = {"future", "task"}
  Starts = {"tf", "tf1", "det", "det1", "drop"}
  Rejs = {"99", "09", "90"}
  Seconds = {"none"}
  Simple = {"on1", "cur", "yield", "throw"}
  FutOps = {"co"}
  FutKinds = {"u"}
  Timings = {"r", "p"}
  Outcomes = {"v", "e"}
  TaskOps = {"cot", "awt"}
  Tmpls = {"cval", "con2", "cthrow", "mkv", "mke", "sch2", "schs", "sch2x"}
  MaxLen = 2
INVARIANTS Balanced ResumeOnce WhereAsked FutureIntact StickyOwn NothingBeforeStart DroppedRunsNothing LazyTwin AllDone Emit
CHECK_DEADLOCK FALSE
