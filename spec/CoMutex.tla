------------------------------ MODULE CoMutex ------------------------------
(***************************************************************************)
(* yaclib::Mutex<Batching, FIFO> for coroutines (property C14).             *)
(*                                                                         *)
(* Processes are the WORKERS of the pool; coroutines are passive objects    *)
(* that a worker resumes (a coroutine that suspends in AwaitLock is resumed *)
(* later by whichever worker takes it from the pool queue, or directly by   *)
(* the unlocking worker in a batched hand-off).  One action = one slice =   *)
(* one yaclib_std operation of a worker plus the plain code up to its next  *)
(* operation.  The plain code between two operations can be long here: a    *)
(* coroutine suspends, the worker returns to the pool loop, takes the next  *)
(* job, resumes another coroutine ...; it is described by SILENT program    *)
(* points that `Settle' runs through after every operation.                 *)
(*                                                                         *)
(* Code map (include/yaclib/coro/mutex.hpp)                                  *)
(*   tl_l, tl_c   TryLockAwait: relaxed load, strong CAS NotLocked ->        *)
(*                LockedNoWaiters (acquire)                                 *)
(*   al_l, al_c   AwaitLock: relaxed load, weak CAS loop: take the lock      *)
(*                (acquire) or push self on the sender list (release)       *)
(*   tu0,tu_l,tu_c TryUnlockAwait: receiver check, relaxed load, strong CAS  *)
(*                LockedNoWaiters -> NotLocked (release)                    *)
(*   gh, gh_x     GetHead: first receiver, or exchange(LockedNoWaiters,      *)
(*                acquire) taking over the sender list (reversed when FIFO) *)
(*   ho           the hand-off: UnlockHereAwait (Submit next), AwaitUnlock   *)
(*                (batching: resubmit self, transfer to next), AwaitUnlockOn *)
(*                (self already submitted; transfer or Submit next)          *)
(*   guard forms  Guard / TryGuard / GuardSticky / a deferred guard's        *)
(*                TryLock map onto the same                                  *)
(*                operations (guard.hpp, guard_sticky.hpp)                   *)
(*   fin_x        final_suspend -> SetResult of the coroutine's own future   *)
(* The pool (harness VerifPool) performs no yaclib_std operation: submit    *)
(* and take are plain code inside slices (observations pool_submit / take); *)
(* the synchronisation a real executor queue provides is the "Rel"/"Acq"    *)
(* pair on the location "pool".                                             *)
(***************************************************************************)
EXTENDS Naturals, Sequences, FiniteSets, TLC

CONSTANTS MaxC, MaxW,           \* coroutines 1..MaxC and workers W1..WMaxW exist
          Opts, WorkerCounts,   \* explored by Init: option strings "<Batching><FIFO>", numbers of workers
          P1s, P2s, P3s, P4s    \* explored by Init: programs of coroutines 1..4 (strings of round letters, "" = absent)

ProgChars(s) ==
  CASE s = "" -> <<>>
    [] s = "a" -> <<"a">>
    [] s = "b" -> <<"b">>
    [] s = "c" -> <<"c">>
    [] s = "g" -> <<"g">>
    [] s = "h" -> <<"h">>
    [] s = "s" -> <<"s">>
    [] s = "t" -> <<"t">>
    [] s = "y" -> <<"y">>
    [] s = "z" -> <<"z">>
    [] s = "aa" -> <<"a", "a">>
    [] s = "ab" -> <<"a", "b">>
    [] s = "ac" -> <<"a", "c">>
    [] s = "ag" -> <<"a", "g">>
    [] s = "ah" -> <<"a", "h">>
    [] s = "as" -> <<"a", "s">>
    [] s = "at" -> <<"a", "t">>
    [] s = "ay" -> <<"a", "y">>
    [] s = "az" -> <<"a", "z">>
    [] s = "ba" -> <<"b", "a">>
    [] s = "bb" -> <<"b", "b">>
    [] s = "bc" -> <<"b", "c">>
    [] s = "bg" -> <<"b", "g">>
    [] s = "bh" -> <<"b", "h">>
    [] s = "bs" -> <<"b", "s">>
    [] s = "bt" -> <<"b", "t">>
    [] s = "by" -> <<"b", "y">>
    [] s = "bz" -> <<"b", "z">>
    [] s = "ca" -> <<"c", "a">>
    [] s = "cb" -> <<"c", "b">>
    [] s = "cc" -> <<"c", "c">>
    [] s = "cg" -> <<"c", "g">>
    [] s = "ch" -> <<"c", "h">>
    [] s = "cs" -> <<"c", "s">>
    [] s = "ct" -> <<"c", "t">>
    [] s = "cy" -> <<"c", "y">>
    [] s = "cz" -> <<"c", "z">>
    [] s = "ga" -> <<"g", "a">>
    [] s = "gb" -> <<"g", "b">>
    [] s = "gc" -> <<"g", "c">>
    [] s = "gg" -> <<"g", "g">>
    [] s = "gh" -> <<"g", "h">>
    [] s = "gs" -> <<"g", "s">>
    [] s = "gt" -> <<"g", "t">>
    [] s = "gy" -> <<"g", "y">>
    [] s = "gz" -> <<"g", "z">>
    [] s = "ha" -> <<"h", "a">>
    [] s = "hb" -> <<"h", "b">>
    [] s = "hc" -> <<"h", "c">>
    [] s = "hg" -> <<"h", "g">>
    [] s = "hh" -> <<"h", "h">>
    [] s = "hs" -> <<"h", "s">>
    [] s = "ht" -> <<"h", "t">>
    [] s = "hy" -> <<"h", "y">>
    [] s = "hz" -> <<"h", "z">>
    [] s = "sa" -> <<"s", "a">>
    [] s = "sb" -> <<"s", "b">>
    [] s = "sc" -> <<"s", "c">>
    [] s = "sg" -> <<"s", "g">>
    [] s = "sh" -> <<"s", "h">>
    [] s = "ss" -> <<"s", "s">>
    [] s = "st" -> <<"s", "t">>
    [] s = "sy" -> <<"s", "y">>
    [] s = "sz" -> <<"s", "z">>
    [] s = "ta" -> <<"t", "a">>
    [] s = "tb" -> <<"t", "b">>
    [] s = "tc" -> <<"t", "c">>
    [] s = "tg" -> <<"t", "g">>
    [] s = "th" -> <<"t", "h">>
    [] s = "ts" -> <<"t", "s">>
    [] s = "tt" -> <<"t", "t">>
    [] s = "ty" -> <<"t", "y">>
    [] s = "tz" -> <<"t", "z">>
    [] s = "ya" -> <<"y", "a">>
    [] s = "yb" -> <<"y", "b">>
    [] s = "yc" -> <<"y", "c">>
    [] s = "yg" -> <<"y", "g">>
    [] s = "yh" -> <<"y", "h">>
    [] s = "ys" -> <<"y", "s">>
    [] s = "yt" -> <<"y", "t">>
    [] s = "yy" -> <<"y", "y">>
    [] s = "yz" -> <<"y", "z">>
    [] s = "za" -> <<"z", "a">>
    [] s = "zb" -> <<"z", "b">>
    [] s = "zc" -> <<"z", "c">>
    [] s = "zg" -> <<"z", "g">>
    [] s = "zh" -> <<"z", "h">>
    [] s = "zs" -> <<"z", "s">>
    [] s = "zt" -> <<"z", "t">>
    [] s = "zy" -> <<"z", "y">>
    [] s = "zz" -> <<"z", "z">>
    [] s = "abc" -> <<"a", "b", "c">>
    [] s = "sca" -> <<"s", "c", "a">>
    [] s = "tac" -> <<"t", "a", "c">>
    [] s = "hbs" -> <<"h", "b", "s">>
    [] s = "gcy" -> <<"g", "c", "y">>
    [] s = "zaz" -> <<"z", "a", "z">>

CIdx == 1..MaxC
S(i) == ToString(i)
WName(i) == "W" \o S(i)
Wrk == {WName(i) : i \in 1..MaxW}
Proc == Wrk \cup {"root"}

ALocs == {"sender", "scratch", "pool"} \cup {"kcb" \o S(c) : c \in CIdx}
PLocs == {"data", "recv"} \cup {"next" \o S(c) : c \in CIdx}
MM == INSTANCE MemModel WITH MProc <- Proc, MALoc <- ALocs, MPLoc <- PLocs

VARIABLES st,   \* the whole state as one record (see I0), so that silent steps compose
          ev, mm
vars == <<st, ev, mm>>

Ob(k, v) == [k |-> k, v |-> v]
W(l) == [k |-> "W", l |-> l]
R(l) == [k |-> "R", l |-> l]
Rel(l) == [k |-> "Rel", l |-> l]
Acq(l) == [k |-> "Acq", l |-> l]

Ev(p, a, o, loc, old, new, ok, obs, site, post) ==
  [p |-> p, a |-> a, o |-> o, loc |-> loc, old |-> old, new |-> new, ok |-> ok, spur |-> FALSE, obs |-> obs, done |-> FALSE,
   site |-> site, post |-> post]
NoEv == Ev("-", "-", "-", "sender", "-", "-", TRUE, <<>>, "-", <<>>)

NL == [k |-> "NL", s |-> <<>>]
L0 == [k |-> "L0", s |-> <<>>]
Word(x) == IF x.k = "NL" THEN "MAX" ELSE IF x.k = "L0" THEN "0" ELSE "@k" \o S(Head(x.s))
\* what a CAS compares: the word only (the head pointer), not the rest of the list
SameWord(a, b) == a.k = b.k /\ (a.k = "W" => Head(a.s) = Head(b.s))

RECURSIVE Rev(_)
Rev(s) == IF s = <<>> THEN <<>> ELSE Append(Rev(Tail(s)), Head(s))
Without(s, c) == SelectSeq(s, LAMBDA x : x # c)

I0(s) ==
  [ scen |-> s,       \* [batching, fifo, workers, progs: sequence of sequences of letters]
    sender |-> NL, recv |-> <<>>,
    queue |-> [i \in 1..Len(s.progs) |-> i],     \* On(pool) of every coroutine was submitted by the root
    wk |-> [w \in Wrk |-> [pc |-> IF \E i \in 1..s.workers : w = WName(i) THEN "idle" ELSE "off", c |-> 0, x |-> NL,
                           um |-> "-", nx |-> 0, rest |-> <<>>, had |-> FALSE]],
    co |-> [c \in CIdx |-> [r |-> 1, res |-> IF c <= Len(s.progs) THEN "start" ELSE "none", sticky |-> FALSE]],
    inCS |-> {}, data |-> 0, scratch |-> 0,
    waitq |-> <<>>,                              \* ghost: parked coroutines in arrival (push) order
    grants |-> [c \in CIdx |-> 0], fin |-> [c \in CIdx |-> FALSE], tryfails |-> [c \in CIdx |-> 0],
    kcb |-> [c \in CIdx |-> "0"],
    err |-> {}, obs |-> <<>>, post |-> <<>> ]

InitScen(s) == st = I0(s) /\ ev = NoEv /\ mm = MM!MInit
ResetScen(s) == st' = I0(s) /\ ev' = NoEv /\ mm' = MM!MInit

Digit(o, n) == IF n = 1 THEN o \in {"10", "11"} ELSE o \in {"01", "11"}
MkScen(o, n, ps) == [batching |-> Digit(o, 1), fifo |-> Digit(o, 2), workers |-> n, progs |-> ps]
\* programs as given (absent ones only at the end)
ProgSeq(a, b, c, d) == SelectSeq(<<ProgChars(a), ProgChars(b), ProgChars(c), ProgChars(d)>>, LAMBDA x : x # <<>>)
Init == \E o \in Opts, n \in WorkerCounts, a \in P1s, b \in P2s, c \in P3s, d \in P4s : InitScen(MkScen(o, n, ProgSeq(a, b, c, d)))

NC(s) == Len(s.scen.progs)
Prog(s, c) == s.scen.progs[c]
Form(s, c) == Prog(s, c)[s.co[c].r]
UnlockMode(s, c) ==
  LET f == Form(s, c) IN
  IF f \in {"a", "h"} THEN "A" ELSE IF f = "c" THEN "O" ELSE IF f = "s" THEN (IF s.co[c].sticky THEN "O" ELSE "H") ELSE "H"

AddObs(s, k, v) == [s EXCEPT !.obs = Append(@, Ob(k, v))]
AddPost(s, acc) == [s EXCEPT !.post = @ \o acc]
Goto(s, w, pc) == [s EXCEPT !.wk[w].pc = pc]

\* Submit(c) to the pool: plain code of the harness pool + the release half of the queue's synchronisation
Submit(s, c, res) == AddPost(AddObs([s EXCEPT !.queue = Append(@, c), !.co[c].res = res], "pool_submit", ""), <<Rel("pool")>>)

\* coroutine nx is granted the lock by a hand-off: it leaves the arrival queue (FIFO: it must be the oldest waiter)
Grant(s, nx) ==
  [s EXCEPT !.waitq = Without(@, nx),
            !.err = IF s.scen.fifo /\ s.waitq # <<>> /\ Head(s.waitq) # nx THEN @ \cup {<<"fifo: granted", nx, "oldest waiter", Head(s.waitq)>>}
                    ELSE IF nx \notin {s.waitq[i] : i \in 1..Len(s.waitq)} THEN @ \cup {<<"granted a coroutine that does not wait", nx>>}
                    ELSE @]

(***************************************************************************)
(* Silent program points                                                    *)
(***************************************************************************)
Silent(s, w) ==
  LET me == s.wk[w]
      c == me.c
      pc == me.pc
  IN
  CASE pc = "loop" ->      \* the pool's loop: take the next job or park
         IF s.queue = <<>> THEN [s EXCEPT !.wk[w].pc = "idle", !.wk[w].c = 0]
         ELSE AddPost(AddObs([s EXCEPT !.queue = Tail(@), !.wk[w].c = Head(s.queue), !.wk[w].pc = "resume"], "take", ""), <<Acq("pool")>>)
    [] pc = "resume" ->    \* the coroutine goes on from where it suspended
         LET res == s.co[c].res
             s1 == [s EXCEPT !.co[c].res = "running"]
         IN  IF res = "start" THEN Goto(s1, w, "round")
             ELSE IF res = "granted" THEN Goto(s1, w, "enter")
             ELSE Goto(s1, w, "next_round")
    [] pc = "round" -> Goto(s, w, "tl_l")
    [] pc = "enter" ->     \* the critical section begins
         AddPost(AddObs([s EXCEPT !.inCS = @ \cup {c}, !.data = c, !.grants[c] = @ + 1, !.wk[w].pc = "cs_op",
                                  !.err = IF s.inCS # {} THEN @ \cup {<<"two coroutines inside the critical section", c, s.inCS>>} ELSE @],
                        "enter", S(c) \o ":" \o S(s.data)),
                 <<R("data"), W("data")>>)
    [] pc = "unlock" ->    \* which unlock form follows the section
         LET um == UnlockMode(s, c)
             s1 == [s EXCEPT !.wk[w].um = um, !.wk[w].pc = "tu0"]
         IN  IF um = "O" THEN Submit(s1, c, "next") ELSE s1       \* UnlockOn: the coroutine is resubmitted FIRST
    [] pc = "tu0" -> AddPost(Goto(s, w, IF s.recv # <<>> THEN "tu_false" ELSE "tu_l"), <<R("recv")>>)
    [] pc = "tu_true" -> IF me.um = "O" THEN [s EXCEPT !.wk[w].pc = "loop", !.wk[w].c = 0] ELSE Goto(s, w, "next_round")
    [] pc = "tu_false" ->
         IF me.um = "A" /\ s.scen.batching /\ s.recv # <<>>
           THEN \* AwaitUnlock: resubmit self, transfer to the first receiver
                LET nx == Head(s.recv)
                    s1 == Submit([s EXCEPT !.recv = Tail(@)], c, "next")
                IN  AddPost(Grant([s1 EXCEPT !.wk[w].c = nx, !.wk[w].pc = "enter", !.co[nx].res = "running"], nx),
                            <<R("recv"), R("next" \o S(nx)), W("recv")>>)
           ELSE Goto(s, w, "gh")
    [] pc = "gh" ->        \* GetHead
         IF s.recv # <<>> THEN AddPost([s EXCEPT !.wk[w].nx = Head(s.recv), !.wk[w].had = TRUE, !.wk[w].pc = "ho"], <<R("recv")>>)
         ELSE AddPost(Goto(s, w, "gh_x"), <<R("recv")>>)
    [] pc = "ho" ->
         LET nx == me.nx
             nrecv == IF me.had THEN Tail(s.recv) ELSE me.rest
             s1 == AddPost([s EXCEPT !.recv = nrecv], <<R("next" \o S(nx)), W("recv")>>)
         IN  IF me.um = "O" /\ s.scen.batching /\ me.had
               THEN Grant([s1 EXCEPT !.wk[w].c = nx, !.wk[w].pc = "enter", !.co[nx].res = "running"], nx)
               ELSE LET s2 == Grant(Submit(s1, nx, "granted"), nx) IN
                    IF me.um = "O" THEN [s2 EXCEPT !.wk[w].pc = "loop", !.wk[w].c = 0] ELSE Goto(s2, w, "next_round")
    [] pc = "next_round" ->
         IF s.co[c].r < Len(Prog(s, c)) THEN [s EXCEPT !.co[c].r = @ + 1, !.wk[w].pc = "round"]
         ELSE AddObs(Goto(s, w, "fin_x"), "finish", S(c))

VisiblePc == {"tl_l", "tl_c", "al_l", "al_c", "cs_op", "tu_l", "tu_c", "gh_x", "fin_x", "idle", "off"}
RECURSIVE Settle(_, _)
Settle(s, w) == IF s.wk[w].pc \in VisiblePc THEN s ELSE Settle(Silent(s, w), w)

(***************************************************************************)
(* Operations                                                               *)
(***************************************************************************)
Fresh(s) == [s EXCEPT !.obs = <<>>, !.post = <<>>]

\* the lock was not free for TryLockAwait
NotReady(s, w) ==
  LET c == s.wk[w].c IN
  IF Form(s, c) \in {"t", "y", "z"} THEN AddObs([s EXCEPT !.wk[w].pc = "next_round", !.tryfails[c] = @ + 1], "tryfail", S(c))
  ELSE Goto(s, w, "al_l")

\* result of the operation at the visible point of worker w: [s, a, o, loc, old, new, ok, site]
Op(s0, w) ==
  LET s == Fresh(s0)
      me == s.wk[w]
      c == me.c
      pc == me.pc
      wd == Word(s.sender)
  IN
  CASE pc = "tl_l" ->
         [s |-> IF s.sender.k = "NL" THEN Goto(s, w, "tl_c") ELSE NotReady(s, w),
          a |-> "load", o |-> "sender", loc |-> "sender", old |-> wd, new |-> wd, ok |-> TRUE, site |-> "TryLock.load"]
    [] pc = "tl_c" ->
         LET ok == s.sender.k = "NL" IN
         [s |-> IF ok THEN [s EXCEPT !.sender = L0, !.wk[w].pc = "enter", !.co[c].sticky = FALSE] ELSE NotReady(s, w),
          a |-> "cas", o |-> "sender", loc |-> "sender", old |-> wd, new |-> IF ok THEN "0" ELSE wd, ok |-> ok, site |-> "TryLock.cas"]
    [] pc = "al_l" ->
         [s |-> AddPost([s EXCEPT !.wk[w].x = s.sender, !.wk[w].pc = "al_c"], IF s.sender.k = "NL" THEN <<>> ELSE <<W("next" \o S(c))>>),
          a |-> "load", o |-> "sender", loc |-> "sender", old |-> wd, new |-> wd, ok |-> TRUE, site |-> "AwaitLock.load"]
    [] pc = "al_c" ->
         LET ok == SameWord(me.x, s.sender)
             take == me.x.k = "NL"
             retry == AddPost([s EXCEPT !.wk[w].x = s.sender], IF s.sender.k = "NL" THEN <<>> ELSE <<W("next" \o S(c))>>)
         IN
         IF take
           THEN [s |-> IF ok THEN [s EXCEPT !.sender = L0, !.wk[w].pc = "enter", !.co[c].sticky = FALSE] ELSE retry,
                 a |-> "casw", o |-> "sender", loc |-> "sender", old |-> wd, new |-> IF ok THEN "0" ELSE wd, ok |-> ok,
                 site |-> "AwaitLock.cas.take"]
           ELSE [s |-> IF ok THEN [s EXCEPT !.sender = [k |-> "W", s |-> <<c>> \o s.sender.s], !.waitq = Append(@, c),
                                            !.co[c].res = "granted", !.co[c].sticky = (Form(s, c) = "s"),
                                            !.wk[w].pc = "loop", !.wk[w].c = 0]
                       ELSE retry,
                 a |-> "casw", o |-> "sender", loc |-> "sender", old |-> wd, new |-> IF ok THEN "@k" \o S(c) ELSE wd, ok |-> ok,
                 site |-> "AwaitLock.cas.push"]
    [] pc = "cs_op" ->
         [s |-> AddObs([s EXCEPT !.scratch = @ + 1, !.inCS = @ \ {c}, !.wk[w].pc = "unlock"], "leave", S(c)),
          a |-> "fadd", o |-> "scratch", loc |-> "scratch", old |-> S(s.scratch), new |-> S(s.scratch + 1), ok |-> TRUE, site |-> "Section.body"]
    [] pc = "tu_l" ->
         [s |-> Goto(s, w, IF s.sender.k = "L0" THEN "tu_c" ELSE "tu_false"),
          a |-> "load", o |-> "sender", loc |-> "sender", old |-> wd, new |-> wd, ok |-> TRUE, site |-> "TryUnlock.load"]
    [] pc = "tu_c" ->
         LET ok == s.sender.k = "L0" IN
         [s |-> IF ok THEN [s EXCEPT !.sender = NL, !.wk[w].pc = "tu_true"] ELSE Goto(s, w, "tu_false"),
          a |-> "cas", o |-> "sender", loc |-> "sender", old |-> wd, new |-> IF ok THEN "MAX" ELSE wd, ok |-> ok, site |-> "TryUnlock.cas"]
    [] pc = "gh_x" ->
         LET lst == s.sender.s
             ord == IF s.scen.fifo THEN Rev(lst) ELSE lst
             reads == [i \in 1..Len(lst) |-> R("next" \o S(lst[i]))]
             writes == IF s.scen.fifo THEN [i \in 1..Len(lst) |-> W("next" \o S(lst[i]))] ELSE <<>>
         IN
         [s |-> IF lst = <<>>
                  THEN [s EXCEPT !.err = @ \cup {<<"GetHead on a lock without waiters", w>>}, !.wk[w].pc = "tu_true"]
                  ELSE AddPost([s EXCEPT !.sender = L0, !.wk[w].nx = Head(ord), !.wk[w].rest = Tail(ord), !.wk[w].had = FALSE,
                                         !.wk[w].pc = "ho"], reads \o writes),
          a |-> "xchg", o |-> "sender", loc |-> "sender", old |-> wd, new |-> "0", ok |-> TRUE, site |-> "GetHead.xchg"]
    [] pc = "fin_x" ->
         [s |-> [s EXCEPT !.kcb[c] = "MAX", !.fin[c] = TRUE, !.co[c].res = "done", !.wk[w].pc = "loop", !.wk[w].c = 0],
          a |-> "xchg", o |-> "k" \o S(c) \o ".cb", loc |-> "kcb" \o S(c), old |-> s.kcb[c], new |-> "MAX", ok |-> TRUE,
          site |-> "Coro.SetResult.xchg"]

WOp(w) ==
  /\ st.wk[w].pc \in VisiblePc \ {"idle", "off"}
  /\ LET r == Op(st, w)
         s1 == Settle(r.s, w)
     IN  /\ st' = s1
         /\ ev' = Ev(w, r.a, r.o, r.loc, r.old, r.new, r.ok, s1.obs, r.site, s1.post)

\* a parked worker (woken by a Submit, or just late) finds a job in the queue
WTake(w) ==
  /\ st.wk[w].pc = "idle" /\ st.queue # <<>>
  /\ LET s1 == Settle(Goto(Fresh(st), w, "loop"), w) IN
     /\ st' = s1
     /\ ev' = Ev(w, "none", "-", "pool", "-", "-", TRUE, s1.obs, "Pool.take", s1.post)

Step == \E w \in Wrk : WOp(w) \/ WTake(w)

UsedC == 1..NC(st)
Quiescent == /\ \A w \in Wrk : st.wk[w].pc \in {"idle", "off"}
             /\ st.queue = <<>>
             /\ \A c \in UsedC : st.fin[c]

(***************************************************************************)
(* Properties (C14)                                                         *)
(***************************************************************************)
MutualExclusion == Cardinality(st.inCS) <= 1
\* every Lock / Guard request is granted exactly once, a failed try is not granted: at the end every round was served
Rounds(c) == Len(Prog(st, c))
GrantedAtMostOnce == \A c \in UsedC : st.grants[c] + st.tryfails[c] <= Rounds(c)
GrantedAtQuiescence == Quiescent => \A c \in UsedC : st.grants[c] + st.tryfails[c] = Rounds(c)
\* a try can only fail while somebody holds the lock or is being handed it; nobody is forgotten
NobodyForgotten == Quiescent => st.sender = NL /\ st.recv = <<>> /\ st.waitq = <<>> /\ st.inCS = {}
\* FIFO grants in arrival order; only waiting coroutines are granted; GetHead never finds an empty list
ProtocolOK == st.err = {}
\* a parked coroutine is in exactly one place
WaitersAccounted ==
  LET inS == IF st.sender.k = "W" THEN {st.sender.s[i] : i \in 1..Len(st.sender.s)} ELSE {}
      inR == {st.recv[i] : i \in 1..Len(st.recv)}
      inW == {st.waitq[i] : i \in 1..Len(st.waitq)}
  IN  inS \cap inR = {} /\ (inS \cup inR) \subseteq inW
=============================================================================
