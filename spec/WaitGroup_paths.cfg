SPECIFICATION MCSpec
CONSTANTS
  KeepHist = TRUE
  MaxS = 2
  MaxW = 2
  Srcs = {"d", "a", "c", "S"}
  Wts = {"w", "i", "s", "o"}
INVARIANTS PrintPaths
CHECK_DEADLOCK FALSE
