------------------------------ MODULE ThreadPool_MC ------------------------------
(* Bounded model of ThreadPool.tla; memory orders from ThreadPool_gen (extracted from the running code). *)
EXTENDS ThreadPool, ThreadPool_gen

O(site) == IF site \in DOMAIN OrdTable THEN OrdTable[site] ELSE [o |-> "sc", f |-> "sc", fences |-> <<>>]

MCStep ==
  /\ Step
  /\ mm' = MM!MStep(mm, ev'.p, ev'.a, ev'.loc, ev'.ok, O(ev'.site).o, O(ev'.site).f, O(ev'.site).fences, ev'.post)

MCNext == MCStep \/ (RootWait /\ UNCHANGED mm) \/ (Quiescent /\ UNCHANGED vars)
MCSpec == Init /\ [][MCNext]_vars

NoRace == MM!NoRace(mm)
NoStuck == (~ENABLED (MCStep \/ RootWait)) => Quiescent
View == vars
=============================================================================
