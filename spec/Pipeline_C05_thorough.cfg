SPECIFICATION Spec
CONSTANTS
  MaxLen = 3
  Srcs = {"ready_val", "after_err", "on_after_val", "run_val", "sched_val"}
  Atts = {"inline", "e1", "e2", "inh"}
  Args = {"V", "E", "R"}
  Behs = {"val", "throw", "fut_pending"}
  Rejects = {0, 1, 2, 9}
  Starts = {"to_future", "to_future_e2"}
INVARIANTS CalledXorDropped DropOnlyWhenStopped RanWhereTold InvokedInOrder LazyEqualsEager CancelRunsNoValueCallback AllocBound Emit
CHECK_DEADLOCK FALSE
