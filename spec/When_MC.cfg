SPECIFICATION MCSpec
CONSTANTS
  MaxN = 2
  Strats = {"all_none", "all_ff", "join_none", "join_ff", "any_none", "any_ff", "any_lf"}
  Forms = {"static"}
  OutSets = {"vv", "vx", "xv", "xx", "ex"}
INVARIANTS
  OutputAtMostOnce RightValue CompletesAtQuiescence NotBeforeAllInputs AsSoonAsDecided FirstWins LastFailIsLast ReleasedOnce ReleasedAtQuiescence NoRace NoStuck
VIEW View
CHECK_DEADLOCK TRUE
