---------------------------- MODULE Spinlock_MC ----------------------------
(* Bounded model of Spinlock.tla; memory orders from Spinlock_gen (extracted from the running code). *)
EXTENDS Spinlock, Spinlock_gen

O(site) == IF site \in DOMAIN OrdTable THEN OrdTable[site] ELSE [o |-> "sc", f |-> "sc", fences |-> <<>>]

MCInit == Init

\* a spin iteration that changes nothing does not advance the clocks (the model stays finite)
MCStep ==
  /\ Step
  /\ mm' = IF ev'.a = "load" /\ pc' = pc THEN mm
           ELSE MM!MStep(mm, ev'.p, ev'.a, ev'.loc, ev'.ok, O(ev'.site).o, O(ev'.site).f, O(ev'.site).fences, ev'.post)

MCNext == MCStep \/ (Quiescent /\ UNCHANGED vars)
MCSpec == MCInit /\ [][MCNext]_vars

\* every lock() request is eventually granted when every holder unlocks: weak fairness of every thread
FairSpec == MCSpec /\ \A p \in Proc : WF_vars(MCStep /\ ev'.p = p)
EventuallyQuiescent == <>Quiescent

NoRace == MM!NoRace(mm)
NoStuck == (~ENABLED MCStep) => Quiescent
View == <<scen, lk, scr, pc, rd, data, order, err, mm>>
=============================================================================
