-------------------------------- MODULE Cost --------------------------------
(***************************************************************************)
(* Allocation cost of combinators, waits and awaits (property C20, second   *)
(* and third clause), as a specification over MEASUREMENTS: the harness     *)
(* command `allocs' counts the global operator new calls made inside each   *)
(* library call for input counts n = 1..N and writes one record per         *)
(* (api, n); TLC reads the records and evaluates the cost rules on them.    *)
(*                                                                         *)
(*   kind "zero"        Wait / WaitFor on plain futures (complete or        *)
(*                      completed by another fiber), Future::Get, Strand    *)
(*                      submission of an existing job, co_await of futures: *)
(*                      no allocation at all                                *)
(*   kind "combinator"  WhenAll / WhenAny / Join (every policy and form):   *)
(*                      the number of blocks is bounded by a constant       *)
(*                      independent of the number of inputs: it never       *)
(*                      exceeds what the same call costs for two inputs,    *)
(*                      and that is at most Cap                             *)
(* (one per pipeline step is the cost annotation of Pipeline.tla.)          *)
(***************************************************************************)
EXTENDS Naturals, Sequences, TLC, Json, IOUtils

CONSTANT Cap     \* generous absolute ceiling for "a constant" (blocks per combinator call)

M == ndJsonDeserialize(IOEnv.TRACE)

VARIABLES l, bad
vars == <<l, bad>>

Init == l = 1 /\ bad = {}

Ref(api) == {M[j].allocs : j \in {k \in 1..Len(M) : M[k].api = api /\ M[k].n = 2}}

Check(r) ==
  IF r.kind \in {"zero", "zero_fiber"}
    THEN IF r.allocs = 0 THEN {} ELSE {<<"allocates", r.api, r.n, r.allocs>>}
    ELSE (IF r.allocs > Cap THEN {<<"more than the ceiling", r.api, r.n, r.allocs>>} ELSE {})
         \cup (IF \E b \in Ref(r.api) : r.allocs > b THEN {<<"grows with the number of inputs", r.api, r.n, r.allocs>>} ELSE {})

Next == /\ l <= Len(M)
        /\ bad' = bad \cup Check(M[l])
        /\ l' = l + 1

Spec == Init /\ [][Next]_vars

CostRules == bad = {}
Accepted == PrintT(<<"REACHED", TLCGet("stats").diameter, Len(M) + 1>>) /\ TLCGet("stats").diameter = Len(M) + 1
=============================================================================
