----------------------------- MODULE Wait_Trace -----------------------------
(* Trace validation for scenario "wt" of the conformance harness (scheme: see UniqueCore_Trace). *)
EXTENDS Wait, Json, IOUtils

VARIABLES l, seen, drift

T == ndJsonDeserialize(IOEnv.TRACE)

Match(e, t) ==
  /\ e.p = t.p /\ e.a = t.a /\ e.o = t.o /\ e.old = t.old /\ e.new = t.new /\ e.ok = t.ok
  /\ e.obs = t.obs /\ e.done = t.done /\ e.spur = t.spur

Progress(n) == IF n > TLCGet(2) THEN TLCSet(2, n) ELSE TRUE
Note(e, t) == TLCSet(1, TLCGet(1) \cup {<<e.site, t.ord, t.ford, t.fences>>})
NoteDrift(n) == TLCSet(3, TLCGet(3) \cup {n})
See(p, obs) == seen \o [i \in 1..Len(obs) |-> [p |-> p, k |-> obs[i].k, v |-> obs[i].v]]

NOf(t) == IF t.params.n = "1" THEN 1 ELSE IF t.params.n = "2" THEN 2 ELSE 3
\* SharedFuture inputs (static / dynamic shared events) and WaitUntil are not modelled by Wait.tla: such executions are
\* judged by the abstract monitors only (drift from the first line, no note); `seen' starts with a scenario marker
PKind(t) == IF "kind" \in DOMAIN t.params THEN t.params.kind ELSE "unique"
Modelled(t) == PKind(t) = "unique" /\ t.params.form \notin {"wait_until", "wait_until_it"}
Seed(t) == IF Modelled(t) THEN <<>> ELSE <<[p |-> "root", k |-> "scenario", v |-> PKind(t)]>>
FormOf(t) == IF t.params.form = "wait_until" THEN "wait_for" ELSE IF t.params.form = "wait_until_it" THEN "wait_for_it" ELSE t.params.form
ScenOf(t) == [n |-> NOf(t), form |-> FormOf(t), second |-> IF "second" \in DOMAIN t.params THEN t.params.second ELSE "get"]

TInit ==
  /\ TLCSet(1, {}) /\ TLCSet(2, 1) /\ TLCSet(3, {})
  /\ T[1].e = "begin"
  /\ InitScen(ScenOf(T[1]))
  /\ l = 2 /\ seen = Seed(T[1]) /\ drift = ~Modelled(T[1])

Conform(t) ==
  /\ Step
  /\ Match(ev', t)
  /\ mm' = MM!MStep(mm, ev'.p, ev'.a, ev'.loc, ev'.ok, t.ord, t.ford, t.fences, ev'.post)

TOp ==
  /\ l <= Len(T) /\ T[l].e = "op" /\ ~drift
  /\ Conform(T[l])
  /\ Note(ev', T[l])
  /\ seen' = See(T[l].p, T[l].obs)
  /\ l' = l + 1 /\ Progress(l') /\ UNCHANGED drift

TTime ==
  /\ l <= Len(T) /\ T[l].e = "time" /\ ~drift
  /\ Timeout /\ UNCHANGED mm
  /\ UNCHANGED <<seen, drift>>
  /\ l' = l + 1 /\ Progress(l')

\* the deadline passed somewhere the specification does not expect it, or a slice has no matching action
TDrift ==
  /\ l <= Len(T) /\ T[l].e \in {"op", "time"}
  /\ drift \/ (T[l].e = "op" /\ ~ENABLED Conform(T[l])) \/ (T[l].e = "time" /\ ~ENABLED Timeout)
  /\ drift' = TRUE /\ (IF Len(seen) > 0 /\ seen[1].k = "scenario" THEN TRUE ELSE NoteDrift(l))
  /\ seen' = IF T[l].e = "op" THEN See(T[l].p, T[l].obs) ELSE Append(seen, [p |-> "clock", k |-> "time", v |-> ""])
  /\ UNCHANGED vars
  /\ l' = l + 1 /\ Progress(l')

TEnd ==
  /\ l <= Len(T) /\ T[l].e = "end"
  /\ drift' = (drift \/ ~Quiescent)
  /\ IF drift' /\ ~drift THEN NoteDrift(l) ELSE TRUE
  /\ UNCHANGED <<vars, seen>>
  /\ l' = l + 1 /\ Progress(l')

TBegin ==
  /\ l <= Len(T) /\ T[l].e = "begin"
  /\ ResetScen(ScenOf(T[l]))
  /\ seen' = Seed(T[l]) /\ drift' = ~Modelled(T[l])
  /\ l' = l + 1 /\ Progress(l')

TNext == TOp \/ TTime \/ TDrift \/ TEnd \/ TBegin
TSpec == TInit /\ [][TNext]_<<vars, l, seen, drift>>

NoRace == MM!NoRace(mm)

\* ---------------- abstract monitor of C11 (observations only) ----------------
\* "time" is recorded in `seen' only after drift; before drift the specification's own `timedout' is exact
DeadlinePassed == timedout \/ \E n \in 1..Len(seen) : seen[n].k = "time"
AllOnes == {"1", "11", "111"}
AbsWait ==
  \A n \in 1..Len(seen) :
     seen[n].k = "waited" =>
        \/ \E b \in AllOnes : seen[n].v = "1:" \o b                 \* true only if all are Ready
        \/ /\ scen.form # "wait" /\ DeadlinePassed                  \* false only after the deadline
           /\ \E b \in {"0", "1", "00", "01", "10", "11", "000", "001", "010", "011", "100", "101", "110", "111"} : seen[n].v = "0:" \o b
Good == {S(i) \o ":" \o Pay(i) : i \in Idx}
AbsIntact == \A n \in 1..Len(seen) : seen[n].k \in {"get", "call"} => seen[n].v \in Good
CountOf(v) == Len(SelectSeq(seen, LAMBDA s : s.k \in {"get", "call"} /\ s.v = v))
\* no completion touches a waiter's stack after the blocking call returned (observed by the harness)
AbsNoUseAfterReturn == \A n \in 1..Len(seen) : seen[n].k # "use_after_return"
AbsOnce == \A i \in Idx : CountOf(S(i) \o ":" \o Pay(i)) <= 1
AbsEndOK(t) ==
  /\ t.status = "ok"
  /\ t.final = ExpectedFinal
  /\ \A i \in Used : CountOf(S(i) \o ":" \o Pay(i)) = 1
AbsEnd == (l > 1 /\ l - 1 <= Len(T) /\ T[l - 1].e = "end") => AbsEndOK(T[l - 1])

Accepted ==
  /\ PrintT(<<"SITES", ToJson(TLCGet(1))>>)
  /\ PrintT(<<"DRIFT", ToJson(TLCGet(3))>>)
  /\ PrintT(<<"REACHED", TLCGet(2), Len(T) + 1>>)
  /\ TLCGet(2) = Len(T) + 1
=============================================================================
