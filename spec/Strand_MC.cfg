SPECIFICATION MCSpec
CONSTANTS
  MaxSubs = 2
  MaxWorkers = 2
  SubSets = {"11", "21"}
  WorkerCounts = {1, 2}
  Stops = {"none", "stop", "hard"}
  WeakBudgets = {0, 1}
INVARIANTS
  NoOverlap InPushOrder AtMostOnce ExactlyOnceAtQuiescence DropOnlyWhenRefused OwnershipOK BalancedAtQuiescence NoRace NoStuck
VIEW View
CHECK_DEADLOCK TRUE
