SPECIFICATION Spec
CONSTANTS
  MaxLen = 2
  Srcs = {"task_val", "task_err", "task_exc", "sched_val", "sched_throw", "lcontract_val"}
  Atts = {"inline", "e1", "inh"}
  Args = {"V", "E", "X", "R"}
  Behs = {"val", "void_hop", "void_throw", "throw", "res_err", "fut_pending", "shared_pending", "task_make", "task_sched_stopped", "task_sched", "task_contract"}
  Rejects = {9}
  Starts = {"to_future", "to_future_e2", "get", "detach", "detach_e2", "drop"}
INVARIANTS CalledXorDropped DropOnlyWhenStopped RanWhereTold InvokedInOrder LazyEqualsEager CancelRunsNoValueCallback AllocBound Emit
CHECK_DEADLOCK FALSE
