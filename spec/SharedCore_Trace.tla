--------------------------- MODULE SharedCore_Trace ---------------------------
(* Trace validation for scenario "sh" of the conformance harness (see UniqueCore_Trace for the scheme:      *)
(* detailed conformance + memory model driven by the logged orders, abstract monitor of C06, drift).        *)
EXTENDS SharedCore, Json, IOUtils

VARIABLES l, seen, drift

T == ndJsonDeserialize(IOEnv.TRACE)

Match(e, t) ==
  /\ e.p = t.p /\ e.a = t.a /\ e.o = t.o /\ e.old = t.old /\ e.new = t.new /\ e.ok = t.ok
  /\ e.obs = t.obs /\ e.done = t.done /\ e.spur = t.spur

Progress(n) == IF n > TLCGet(2) THEN TLCSet(2, n) ELSE TRUE
Note(e, t) == TLCSet(1, TLCGet(1) \cup {<<IF t.fences # <<>> THEN e.site \o "+last" ELSE e.site, t.ord, t.ford, t.fences>>})
NoteDrift(n) == TLCSet(3, TLCGet(3) \cup {n})

See(p, obs) == seen \o [i \in 1..Len(obs) |-> [p |-> p, k |-> obs[i].k, v |-> obs[i].v]]

OpOf(t, i) == IF i \in DOMAIN t.params THEN t.params[i] ELSE "none"
Budget(t) == IF "weak" \in DOMAIN t.params THEN (IF t.params.weak = "1" THEN 1 ELSE IF t.params.weak = "2" THEN 2 ELSE 0) ELSE 0

ScenOf(t) == [prod |-> IF "prod" \in DOMAIN t.params THEN t.params.prod ELSE "val", ops |-> [i \in Obs |-> OpOf(t, i)],
              weak |-> Budget(t)]

\* an observer that hands its copy to WhenAll (the combinator retires the value from the shared state: copy, or move
\* when it is provably the last owner) is not modelled at operation level: such executions are judged by the abstract
\* monitors only, from the start
Modelled(t) == \A i \in Obs : OpOf(t, i) \notin {"whenall", "await2"}

TInit ==
  /\ TLCSet(1, {}) /\ TLCSet(2, 1) /\ TLCSet(3, {})
  /\ T[1].e = "begin"
  /\ InitScen(ScenOf(T[1]))
  /\ l = 2 /\ seen = <<>> /\ drift = ~Modelled(T[1])

Conform(t) ==
  /\ Step
  /\ Match(ev', t)
  /\ mm' = MM!MStep(mm, ev'.p, ev'.a, Loc(ev'.o), ev'.ok, t.ord, t.ford, t.fences, ev'.post)

TOp ==
  /\ l <= Len(T) /\ T[l].e = "op" /\ ~drift
  /\ Conform(T[l])
  /\ Note(ev', T[l])
  /\ seen' = See(T[l].p, T[l].obs)
  /\ l' = l + 1 /\ Progress(l') /\ UNCHANGED drift

TRobs ==
  /\ l <= Len(T) /\ T[l].e = "robs" /\ ~drift
  /\ RootDrain
  /\ ev'.obs = T[l].obs
  /\ UNCHANGED mm
  /\ seen' = See("root", T[l].obs)
  /\ l' = l + 1 /\ Progress(l') /\ UNCHANGED drift

TDrift ==
  /\ l <= Len(T) /\ T[l].e \in {"op", "robs"}
  /\ drift \/ (T[l].e = "op" /\ ~ENABLED Conform(T[l])) \/ (T[l].e = "robs" /\ ~ENABLED (RootDrain /\ ev'.obs = T[l].obs))
  /\ drift' = TRUE /\ (IF \A i \in Obs : scen.ops[i] \notin {"whenall", "await2"} THEN NoteDrift(l) ELSE TRUE)
  /\ seen' = See(IF T[l].e = "op" THEN T[l].p ELSE "root", T[l].obs)
  /\ UNCHANGED vars
  /\ l' = l + 1 /\ Progress(l')

TEnd ==
  /\ l <= Len(T) /\ T[l].e = "end"
  /\ drift' = (drift \/ ~Quiescent)
  /\ IF drift' /\ ~drift THEN NoteDrift(l) ELSE TRUE
  /\ UNCHANGED <<vars, seen>>
  /\ l' = l + 1 /\ Progress(l')

TBegin ==
  /\ l <= Len(T) /\ T[l].e = "begin"
  /\ ResetScen(ScenOf(T[l]))
  /\ seen' = <<>> /\ drift' = ~Modelled(T[l])
  /\ l' = l + 1 /\ Progress(l')

TNext == TOp \/ TRobs \/ TDrift \/ TEnd \/ TBegin
TSpec == TInit /\ [][TNext]_<<vars, l, seen, drift>>

NoRace == MM!NoRace(mm)

\* ---------------- abstract monitor of C06 (observations only) ----------------
Vals(k) == SelectSeq(seen, LAMBDA s : s.k \in k)
CountOf(k, v) == Len(SelectSeq(seen, LAMBDA s : s.k \in k /\ s.v = v))
Good == {i \o ":" \o Payload : i \in Obs}
AbsNeverGarbage == \A n \in 1..Len(seen) : seen[n].k \in {"call", "get", "read"} => seen[n].v \in Good
\* no completion touches a waiter's stack after the blocking call returned (observed by the harness)
AbsNoUseAfterReturn == \A n \in 1..Len(seen) : seen[n].k # "use_after_return"
AbsAtMostOnce == \A i \in Obs : CountOf({"call"}, i \o ":" \o Payload) <= 1
AbsEndOK(t) ==
  /\ t.status = "ok"
  /\ t.final = ExpectedFinal
  /\ \A i \in Obs : /\ Op(i) \in {"then_inline", "then_exec", "subscribe"} => CountOf({"call"}, i \o ":" \o Payload) = 1
                    /\ Op(i) \in WaitOps => CountOf({"get"}, i \o ":" \o Payload) = 1
AbsEnd == (l > 1 /\ l - 1 <= Len(T) /\ T[l - 1].e = "end") => AbsEndOK(T[l - 1])

Accepted ==
  /\ PrintT(<<"SITES", ToJson(TLCGet(1))>>)
  /\ PrintT(<<"DRIFT", ToJson(TLCGet(3))>>)
  /\ PrintT(<<"REACHED", TLCGet(2), Len(T) + 1>>)
  /\ TLCGet(2) = Len(T) + 1
=============================================================================
