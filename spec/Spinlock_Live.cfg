SPECIFICATION FairSpec
CONSTANTS
  MaxT = 3
  RoundSets = {"11", "21", "111"}
PROPERTY EventuallyQuiescent
CHECK_DEADLOCK TRUE
