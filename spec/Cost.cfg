SPECIFICATION Spec
CONSTANTS
  Cap = 8
INVARIANT CostRules
POSTCONDITION Accepted
CHECK_DEADLOCK FALSE
