----------------------------- MODULE When_Trace -----------------------------
(* Trace validation for scenario "wh".  Scheme as in UniqueCore_Trace, plus: the specification names the       *)
(* combinator's objects logically; `omap' binds each logical name to the address class the harness logged the  *)
(* first time it is used (TLC infers the binding), so the layout of the combinator is not part of the check.    *)
EXTENDS When, Json, IOUtils

VARIABLES l, seen, drift, omap

T == ndJsonDeserialize(IOEnv.TRACE)

Logical == {"st", "cnt", "out.cb", "@cbk"}
\* bind logical name lg to actual string act under map m: <<ok, m'>>
Bind(m, lg, act) ==
  IF lg \notin Logical THEN <<lg = act, m>>
  ELSE IF lg \in DOMAIN m THEN <<m[lg] = act, m>>
  ELSE <<act \notin {m[x] : x \in DOMAIN m}, m @@ (lg :> act)>>
Bind3(m, e, t) ==
  LET b1 == Bind(m, e.o, t.o)
      b2 == Bind(b1[2], e.old, t.old)
      b3 == Bind(b2[2], e.new, t.new)
  IN  <<b1[1] /\ b2[1] /\ b3[1], b3[2]>>

Match(e, t) ==
  /\ e.p = t.p /\ e.a = t.a /\ e.ok = t.ok /\ e.obs = t.obs /\ e.done = t.done /\ e.spur = t.spur
  /\ Bind3(omap, e, t)[1]

Progress(n) == IF n > TLCGet(2) THEN TLCSet(2, n) ELSE TRUE
Note(e, t) == TLCSet(1, TLCGet(1) \cup {<<e.site, t.ord, t.ford, t.fences>>})
NoteDrift(n) == TLCSet(3, TLCGet(3) \cup {n})
See(p, obs) == seen \o [i \in 1..Len(obs) |-> [p |-> p, k |-> obs[i].k, v |-> obs[i].v]]

ScenOf(t) == [strat |-> t.params.strat, form |-> t.params.form, outs |-> Chars(t.params.outs)]

TInit ==
  /\ TLCSet(1, {}) /\ TLCSet(2, 1) /\ TLCSet(3, {})
  /\ T[1].e = "begin"
  /\ InitScen(ScenOf(T[1]))
  /\ l = 2 /\ seen = <<>> /\ drift = FALSE /\ omap = <<>>

Conform(t) ==
  /\ Step
  /\ Match(ev', t)
  /\ mm' = MM!MStep(mm, ev'.p, ev'.a, ev'.loc, ev'.ok, t.ord, t.ford, t.fences, ev'.post)

TOp ==
  /\ l <= Len(T) /\ T[l].e = "op" /\ ~drift
  /\ Conform(T[l])
  /\ omap' = Bind3(omap, ev', T[l])[2]
  /\ Note(ev', T[l])
  /\ seen' = See(T[l].p, T[l].obs)
  /\ l' = l + 1 /\ Progress(l') /\ UNCHANGED drift

TDrift ==
  /\ l <= Len(T) /\ T[l].e = "op"
  /\ drift \/ ~ENABLED Conform(T[l])
  /\ drift' = TRUE /\ NoteDrift(l)
  /\ seen' = See(T[l].p, T[l].obs)
  /\ UNCHANGED <<vars, omap>>
  /\ l' = l + 1 /\ Progress(l')

TEnd ==
  /\ l <= Len(T) /\ T[l].e = "end"
  /\ drift' = (drift \/ ~Quiescent)
  /\ IF drift' /\ ~drift THEN NoteDrift(l) ELSE TRUE
  /\ UNCHANGED <<vars, seen, omap>>
  /\ l' = l + 1 /\ Progress(l')

TBegin ==
  /\ l <= Len(T) /\ T[l].e = "begin"
  /\ ResetScen(ScenOf(T[l]))
  /\ seen' = <<>> /\ drift' = FALSE /\ omap' = <<>>
  /\ l' = l + 1 /\ Progress(l')

TNext == TOp \/ TDrift \/ TEnd \/ TBegin
TSpec == TInit /\ [][TNext]_<<vars, l, seen, drift, omap>>

NoRace == MM!NoRace(mm)

\* ---------------- abstract monitor of C09 / C10 (observations only) ----------------
\* the output future observed by a producer / the registrar after its call returned: once ready, always ready
AbsMonotone == \A a, b \in 1..Len(seen) :
                  (a < b /\ seen[a].k = "registered" /\ seen[a].v = "1" /\ seen[b].k = "set_done") => seen[b].v \in {S(i) \o ":1" : i \in Idx}
\* None policies: the output is not ready while some input has not even started to complete ... judged at the end:
AbsEndOK(t) ==
  /\ t.status = "ok"
  /\ t.final.out \in ExpectedOuts
  /\ t.final.live = "0" /\ t.final.read_moved = "0"
AbsEnd == (l > 1 /\ l - 1 <= Len(T) /\ T[l - 1].e = "end") => AbsEndOK(T[l - 1])
AbsNoUseAfterReturn == \A n \in 1..Len(seen) : seen[n].k # "use_after_return"

Accepted ==
  /\ PrintT(<<"SITES", ToJson(TLCGet(1))>>)
  /\ PrintT(<<"DRIFT", ToJson(TLCGet(3))>>)
  /\ PrintT(<<"REACHED", TLCGet(2), Len(T) + 1>>)
  /\ TLCGet(2) = Len(T) + 1
=============================================================================
