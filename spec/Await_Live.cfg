SPECIFICATION FairSpec
CONSTANTS
  KeepHist = FALSE
  Forms = {"fut", "await", "sticky", "on"}
  Ns = {1, 2}
  OutSets = {"v", "x", "vv", "vx"}
  Execs = {"here", "stop"}
PROPERTY EventuallyQuiescent
CHECK_DEADLOCK FALSE
