SPECIFICATION FairP
CONSTANTS
  MaxC = 3
  MaxW = 2
  Opts = {"10", "01"}
  WorkerCounts = {1, 2}
  P1s = {"r", "w"}
  P2s = {"w"}
  P3s = {"r", "R"}
  P4s = {""}
PROPERTY EventuallyQuiescent
CHECK_DEADLOCK FALSE
