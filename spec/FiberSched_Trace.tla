-------------------------- MODULE FiberSched_Trace --------------------------
(* Validates recorded scheduler decisions of real runs against FiberSched (records R = draw, P = pick, S = resume). *)
EXTENDS FiberSched, Json, IOUtils

VARIABLES l, lastDraw, lastPick, time, bad

T == ndJsonDeserialize(IOEnv.TRACE)
Progress(n) == IF n > TLCGet(2) THEN TLCSet(2, n) ELSE TRUE

TInit == TLCSet(2, 1) /\ l = 1 /\ lastDraw = [max |-> 0, v |-> 0] /\ lastPick = 0 /\ time = <<0, 0>> /\ bad = {} /\ dummy = 0

\* limb-wise comparison of the 30-bit halves of the virtual time
Leq(a, b) == a[1] < b[1] \/ (a[1] = b[1] /\ a[2] <= b[2])

TStep ==
  /\ l <= Len(T)
  /\ LET t == T[l] IN
     CASE t.e = "run" -> /\ lastDraw' = [max |-> 0, v |-> 0] /\ lastPick' = 0 /\ time' = <<0, 0>> /\ UNCHANGED bad
       [] t.e = "R" -> /\ lastDraw' = [max |-> t.max, v |-> t.v] /\ UNCHANGED <<lastPick, time, bad>>
       [] t.e = "P" ->
            \* the pick uses the draw made just before it (max = 2 * width)
            /\ bad' = bad \cup (IF lastDraw.max = 2 * t.w /\ t.chosen = PickFn(t.ids, lastDraw.v, t.w) THEN {}
                                ELSE {<<"pick is not the function of (list, draw, width)", l>>})
            /\ lastPick' = IF t.where = 0 THEN t.chosen ELSE lastPick
            /\ UNCHANGED <<lastDraw, time>>
       [] t.e = "S" ->
            /\ bad' = bad \cup (IF t.id = lastPick THEN {} ELSE {<<"resumed fiber is not the one picked", l>>})
                          \cup (IF Leq(time, <<t.hi, t.lo>>) THEN {} ELSE {<<"virtual time went backwards", l>>})
            /\ time' = <<t.hi, t.lo>>
            /\ UNCHANGED <<lastDraw, lastPick>>
       [] OTHER -> UNCHANGED <<lastDraw, lastPick, time, bad>>
  /\ l' = l + 1 /\ Progress(l') /\ UNCHANGED dummy

TSpec == TInit /\ [][TStep]_<<l, lastDraw, lastPick, time, bad, dummy>>

Deterministic == bad = {}
Accepted == PrintT(<<"REACHED", TLCGet(2), Len(T) + 1>>) /\ TLCGet(2) = Len(T) + 1
=============================================================================
