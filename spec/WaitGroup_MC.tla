---------------------------- MODULE WaitGroup_MC ----------------------------
(* Bounded model of WaitGroup.tla; memory orders from WaitGroup_gen (extracted from the running code). *)
EXTENDS WaitGroup, WaitGroup_gen, Json

VARIABLE hist
CONSTANT KeepHist   \* TRUE only for behaviour extraction (the _paths configuration)

O(site) == IF site \in DOMAIN OrdTable THEN OrdTable[site] ELSE [o |-> "sc", f |-> "sc", fences |-> <<>>]

MCInit == Init /\ hist = <<>>

MCStep ==
  /\ Step
  /\ mm' = MM!MStep(mm, ev'.p, ev'.a, ev'.loc, ev'.ok, O(ev'.site).o, O(ev'.site).f, O(ev'.site).fences, ev'.post)

MCNext ==
  \/ MCStep /\ hist' = (IF KeepHist THEN Append(hist, ev') ELSE hist)
  \/ Timeout /\ UNCHANGED mm /\ hist' = hist
  \/ Quiescent /\ UNCHANGED vars /\ UNCHANGED hist

MCSpec == MCInit /\ [][MCNext]_<<vars, hist>>

\* every waiter is eventually released / the coroutine eventually completes, under weak fairness of every thread
FairSpec == MCSpec /\ \A p \in Proc : WF_<<vars, hist>>(MCStep /\ hist' = (IF KeepHist THEN Append(hist, ev') ELSE hist) /\ ev'.p = p)
EventuallyQuiescent == <>Quiescent

NoRace == MM!NoRace(mm)
NoStuck == (~ENABLED (MCStep \/ Timeout)) => Quiescent
\* behaviour extraction: the schedule of every maximal behaviour (used with the _paths config, no VIEW)
RECURSIVE Str(_)
Str(sq) == IF sq = <<>> THEN "" ELSE Head(sq) \o Str(Tail(sq))
PrintPaths ==
  Quiescent =>
     PrintT(<<"BEHAVIOUR", ToJson([scen |-> [src |-> Str(scen.src), wts |-> Str(scen.wts), own |-> IF scen.own THEN "1" ELSE "0"],
                                   final |-> ExpectedFinal,
                                   evs |-> [i \in 1..Len(hist) |->
                                             [p |-> hist[i].p, a |-> hist[i].a, o |-> hist[i].o, old |-> hist[i].old,
                                              new |-> hist[i].new, ok |-> hist[i].ok, spur |-> hist[i].spur, obs |-> hist[i].obs,
                                              done |-> hist[i].done]]])>>)
View == <<scen, cnt, hd, list, cb, freed, dn, jb, timedout, pc, mi, todo, hs, wjob, wph, wret, coro, kcb, rels, touts, err, mm>>
=============================================================================
