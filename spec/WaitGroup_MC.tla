---------------------------- MODULE WaitGroup_MC ----------------------------
(* Bounded model of WaitGroup.tla; memory orders from WaitGroup_gen (extracted from the running code). *)
EXTENDS WaitGroup, WaitGroup_gen, Json

VARIABLE hist

O(site) == IF site \in DOMAIN OrdTable THEN OrdTable[site] ELSE [o |-> "sc", f |-> "sc", fences |-> <<>>]

MCInit == Init /\ hist = <<>>

MCStep ==
  /\ Step
  /\ mm' = MM!MStep(mm, ev'.p, ev'.a, ev'.loc, ev'.ok, O(ev'.site).o, O(ev'.site).f, O(ev'.site).fences, ev'.post)

MCNext ==
  \/ MCStep /\ hist' = hist
  \/ Timeout /\ UNCHANGED mm /\ hist' = hist
  \/ Quiescent /\ UNCHANGED vars /\ UNCHANGED hist

MCSpec == MCInit /\ [][MCNext]_<<vars, hist>>

\* every waiter is eventually released / the coroutine eventually completes, under weak fairness of every thread
FairSpec == MCSpec /\ \A p \in Proc : WF_<<vars, hist>>(MCStep /\ hist' = hist /\ ev'.p = p)
EventuallyQuiescent == <>Quiescent

NoRace == MM!NoRace(mm)
NoStuck == (~ENABLED (MCStep \/ Timeout)) => Quiescent
View == <<scen, cnt, hd, list, cb, freed, dn, jb, timedout, pc, mi, todo, hs, wjob, wph, wret, coro, kcb, rels, touts, err, mm>>
=============================================================================
