SPECIFICATION MCSpec
CONSTANTS
  KeepHist = FALSE
  MaxC = 3
  MaxW = 2
  Opts = {"00", "01", "10", "11"}
  WorkerCounts = {2}
  P1s = {"a", "s"}
  P2s = {"b", "c"}
  P3s = {"a", "t", "c"}
  P4s = {""}
INVARIANTS
  MutualExclusion GrantedAtMostOnce GrantedAtQuiescence NobodyForgotten ProtocolOK WaitersAccounted NoRace NoStuck
VIEW View
CHECK_DEADLOCK TRUE
