SPECIFICATION MCSpec
CONSTANTS
  MaxSubs = 2
  MaxWorkers = 2
  SubSets = {"11", "2"}
  WorkerCounts = {1, 2}
  Stops = {"stop", "soft", "hard"}
INVARIANTS
  AtMostOnce ExactlyOnceAtQuiescence DropOnlyWhenStopped SoftStopOnlyWhenIdle WaitMeansDone SingleWorkerFIFO MutexOK NoRace NoStuck
VIEW View
CHECK_DEADLOCK TRUE
