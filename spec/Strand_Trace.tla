----------------------------- MODULE Strand_Trace -----------------------------
(* Trace validation for scenario "st".  Scheme as in UniqueCore_Trace, plus: the specification names the       *)
(* combinator's objects logically; `omap' binds each logical name to the address class the harness logged the  *)
(* first time it is used (TLC infers the binding), so the layout of the combinator is not part of the check.    *)
EXTENDS Strand, Json, IOUtils

VARIABLES l, seen, drift, omap

T == ndJsonDeserialize(IOEnv.TRACE)

Logical == {"jobs", "ref", "@mark"}
\* bind logical name lg to actual string act under map m: <<ok, m'>>
Bind(m, lg, act) ==
  IF lg \notin Logical THEN <<lg = act, m>>
  ELSE IF lg \in DOMAIN m THEN <<m[lg] = act, m>>
  ELSE <<act \notin {m[x] : x \in DOMAIN m}, m @@ (lg :> act)>>
Bind3(m, e, t) ==
  LET b1 == Bind(m, e.o, t.o)
      b2 == Bind(b1[2], e.old, t.old)
      b3 == Bind(b2[2], e.new, t.new)
  IN  <<b1[1] /\ b2[1] /\ b3[1], b3[2]>>

Match(e, t) ==
  /\ e.p = t.p /\ e.a = t.a /\ e.ok = t.ok /\ e.obs = t.obs /\ e.done = t.done /\ e.spur = t.spur
  /\ Bind3(omap, e, t)[1]

Progress(n) == IF n > TLCGet(2) THEN TLCSet(2, n) ELSE TRUE
Note(e, t) == TLCSet(1, TLCGet(1) \cup {<<e.site, t.ord, t.ford, t.fences>>})
NoteDrift(n) == TLCSet(3, TLCGet(3) \cup {n})
See(p, obs) == seen \o [i \in 1..Len(obs) |-> [p |-> p, k |-> obs[i].k, v |-> obs[i].v]]

PInt(x, d) == IF x = "0" THEN 0 ELSE IF x = "1" THEN 1 ELSE IF x = "2" THEN 2 ELSE IF x = "3" THEN 3 ELSE d
Par(t, k, d) == IF k \in DOMAIN t.params THEN t.params[k] ELSE d
ScenOf(t) == [subs |-> Counts(Par(t, "subs", "11")), workers |-> PInt(Par(t, "workers", "1"), 1),
              stop |-> Par(t, "stop", "none"), weak |-> PInt(Par(t, "weak", "0"), 0)]

TInit ==
  /\ TLCSet(1, {}) /\ TLCSet(2, 1) /\ TLCSet(3, {})
  /\ T[1].e = "begin"
  /\ InitScen(ScenOf(T[1]))
  /\ l = 2 /\ seen = <<>> /\ drift = FALSE /\ omap = <<>>

Conform(t) ==
  /\ Step
  /\ Match(ev', t)
  /\ mm' = MM!MStep(mm, ev'.p, ev'.a, ev'.loc, ev'.ok, t.ord, t.ford, t.fences, ev'.post)

TOp ==
  /\ l <= Len(T) /\ T[l].e = "op" /\ ~drift
  /\ Conform(T[l])
  /\ omap' = Bind3(omap, ev', T[l])[2]
  /\ Note(ev', T[l])
  /\ seen' = See(T[l].p, T[l].obs)
  /\ l' = l + 1 /\ Progress(l') /\ UNCHANGED drift

TDrift ==
  /\ l <= Len(T) /\ T[l].e = "op"
  /\ drift \/ ~ENABLED Conform(T[l])
  /\ drift' = TRUE /\ NoteDrift(l)
  /\ seen' = See(T[l].p, T[l].obs)
  /\ UNCHANGED <<vars, omap>>
  /\ l' = l + 1 /\ Progress(l')

TEnd ==
  /\ l <= Len(T) /\ T[l].e = "end"
  /\ drift' = (drift \/ ~Quiescent)
  /\ IF drift' /\ ~drift THEN NoteDrift(l) ELSE TRUE
  /\ UNCHANGED <<vars, seen, omap>>
  /\ l' = l + 1 /\ Progress(l')

TBegin ==
  /\ l <= Len(T) /\ T[l].e = "begin"
  /\ ResetScen(ScenOf(T[l]))
  /\ seen' = <<>> /\ drift' = FALSE /\ omap' = <<>>
  /\ l' = l + 1 /\ Progress(l')

TNext == TOp \/ TDrift \/ TEnd \/ TBegin
TSpec == TInit /\ [][TNext]_<<vars, l, seen, drift, omap>>

NoRace == MM!NoRace(mm)

\* ---------------- abstract monitor of C07 (observations only) ----------------
Enter(n) == seen[n].k = "enter"
Leave(n) == seen[n].k = "leave"
\* bodies never overlap: between an enter and the matching leave there is no other enter
AbsNoOverlap == \A a, b \in 1..Len(seen) :
                   (a < b /\ Enter(a) /\ Enter(b)) => \E c \in (a + 1)..(b - 1) : Leave(c) /\ seen[c].v = seen[a].v
\* program order per submitter: job 10*s+1 enters before 10*s+2
AbsProgramOrder == \A a, b \in 1..Len(seen) :
                      (Enter(a) /\ Enter(b) /\ seen[a].v = "12" /\ seen[b].v = "11") \/ (Enter(a) /\ Enter(b) /\ seen[a].v = "22" /\ seen[b].v = "21") => a > b
Count(v) == Len(SelectSeq(seen, LAMBDA s : s.k \in {"enter", "drop"} /\ s.v = v))
AbsAtMostOnce == \A j \in JobIds : Count(ToString(j)) <= 1
AbsDropOnlyAfterStop == \A n \in 1..Len(seen) : seen[n].k = "drop" => scen.stop # "none"
AbsEndOK(t) ==
  /\ t.status = "ok"
  /\ \A j \in AllJobs : Count(ToString(j)) = 1
AbsEnd == (l > 1 /\ l - 1 <= Len(T) /\ T[l - 1].e = "end") => AbsEndOK(T[l - 1])
AbsNoUseAfterReturn == \A n \in 1..Len(seen) : seen[n].k # "use_after_return"

Accepted ==
  /\ PrintT(<<"SITES", ToJson(TLCGet(1))>>)
  /\ PrintT(<<"DRIFT", ToJson(TLCGet(3))>>)
  /\ PrintT(<<"REACHED", TLCGet(2), Len(T) + 1>>)
  /\ TLCGet(2) = Len(T) + 1
=============================================================================
