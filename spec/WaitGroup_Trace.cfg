SPECIFICATION TSpec
CONSTANTS
  MaxS = 3
  MaxW = 3
  Srcs = {"d"}
  Wts = {"w"}
INVARIANTS
  ReleasedOnlyAtZero ReleasedAtMostOnce WaitersReleasedAtQuiescence FalseOnlyAfterDeadline AttachedValid ConsumedOnce
  ConsumedAtQuiescence CountZeroAtQuiescence HeapWaiterReleased OwnershipOK NeverNegative NoRace
  AbsReleasedAtZero AbsReleasedOnce AbsTimeout AbsNoUseAfterReturn AbsEnd
POSTCONDITION Accepted
CHECK_DEADLOCK FALSE
