-------------------------- MODULE WaitGroup_Trace --------------------------
(* Trace validation for scenario "wg" of the conformance harness (scheme: see UniqueCore_Trace). *)
EXTENDS WaitGroup, Json, IOUtils

VARIABLES l, seen, drift

T == ndJsonDeserialize(IOEnv.TRACE)

Match(e, t) ==
  /\ e.p = t.p /\ e.a = t.a /\ e.o = t.o /\ e.old = t.old /\ e.new = t.new /\ e.ok = t.ok
  /\ e.obs = t.obs /\ e.done = t.done /\ e.spur = t.spur

Progress(n) == IF n > TLCGet(2) THEN TLCSet(2, n) ELSE TRUE
Note(e, t) == TLCSet(1, TLCGet(1) \cup {<<e.site, t.ord, t.ford, t.fences>>})
NoteDrift(n) == TLCSet(3, TLCGet(3) \cup {n})
See(p, obs) == seen \o [i \in 1..Len(obs) |-> [p |-> p, k |-> obs[i].k, v |-> obs[i].v]]

Par(t, k, d) == IF k \in DOMAIN t.params THEN t.params[k] ELSE d
ScenOf(t) == [src |-> SrcChars(Par(t, "src", "d")), wts |-> WtChars(Par(t, "wts", "w")), own |-> Par(t, "own", "1") = "1"]

\* one Attach / Consume call for several futures is not modelled (M's actions are per future): monitors only
Modelled(t) == Par(t, "batch", "0") = "0"
Seed(t) == IF Modelled(t) THEN <<>> ELSE <<[p |-> "root", k |-> "scenario", v |-> "batch"]>>

TInit ==
  /\ TLCSet(1, {}) /\ TLCSet(2, 1) /\ TLCSet(3, {})
  /\ T[1].e = "begin"
  /\ InitScen(ScenOf(T[1]))
  /\ l = 2 /\ seen = Seed(T[1]) /\ drift = ~Modelled(T[1])

Conform(t) ==
  /\ Step
  /\ Match(ev', t)
  /\ mm' = MM!MStep(mm, ev'.p, ev'.a, ev'.loc, ev'.ok, t.ord, t.ford, t.fences, ev'.post)

TOp ==
  /\ l <= Len(T) /\ T[l].e = "op" /\ ~drift
  /\ Conform(T[l])
  /\ Note(ev', T[l])
  /\ seen' = See(T[l].p, T[l].obs)
  /\ l' = l + 1 /\ Progress(l') /\ UNCHANGED drift

TTime ==
  /\ l <= Len(T) /\ T[l].e = "time" /\ ~drift
  /\ Timeout /\ UNCHANGED mm
  /\ UNCHANGED <<seen, drift>>
  /\ l' = l + 1 /\ Progress(l')

\* the deadline passed somewhere the specification does not expect it, or a slice has no matching action
TDrift ==
  /\ l <= Len(T) /\ T[l].e \in {"op", "time"}
  /\ drift \/ (T[l].e = "op" /\ ~ENABLED Conform(T[l])) \/ (T[l].e = "time" /\ ~ENABLED Timeout)
  /\ drift' = TRUE /\ (IF Len(seen) > 0 /\ seen[1].k = "scenario" THEN TRUE ELSE NoteDrift(l))
  /\ seen' = IF T[l].e = "op" THEN See(T[l].p, T[l].obs) ELSE Append(seen, [p |-> "clock", k |-> "time", v |-> ""])
  /\ UNCHANGED vars
  /\ l' = l + 1 /\ Progress(l')

TEnd ==
  /\ l <= Len(T) /\ T[l].e = "end"
  /\ drift' = (drift \/ ~Quiescent)
  /\ IF drift' /\ ~drift THEN NoteDrift(l) ELSE TRUE
  /\ UNCHANGED <<vars, seen>>
  /\ l' = l + 1 /\ Progress(l')

TBegin ==
  /\ l <= Len(T) /\ T[l].e = "begin"
  /\ ResetScen(ScenOf(T[l]))
  /\ seen' = Seed(T[l]) /\ drift' = ~Modelled(T[l])
  /\ l' = l + 1 /\ Progress(l')

TNext == TOp \/ TTime \/ TDrift \/ TEnd \/ TBegin
TSpec == TInit /\ [][TNext]_<<vars, l, seen, drift>>

NoRace == MM!NoRace(mm)

\* ---------------- abstract monitor of C16 (observations only) ----------------
RECURSIVE Ones(_)
Ones(n) == IF n = 0 THEN "" ELSE "1" \o Ones(n - 1)
NA == Cardinality({i \in Used : SKind(i) = "a"})
\* what a waiter released at the right moment reports: count zero, every source done, every attached future Ready
GoodRel(k) == WName(k) \o ":0:" \o Ones(N) \o ":" \o Ones(NA)
AbsReleasedAtZero ==
  \A n \in 1..Len(seen) : seen[n].k = "released" => \E k \in UsedW : seen[n].v = GoodRel(k)
RelCount(k) == Len(SelectSeq(seen, LAMBDA s : s.k = "released" /\ s.v = GoodRel(k)))
AbsReleasedOnce == \A k \in UsedW : RelCount(k) <= 1
\* "time" is recorded in `seen' only after drift; before drift the specification's own `timedout' is exact
DeadlinePassed == timedout \/ \E n \in 1..Len(seen) : seen[n].k = "time"
AbsTimeout == \A n \in 1..Len(seen) : seen[n].k = "timedout" => DeadlinePassed
AbsNoUseAfterReturn == \A n \in 1..Len(seen) : seen[n].k # "use_after_return"
AbsEndOK(t) ==
  /\ t.status = "ok"
  /\ t.final = ExpectedFinal
  /\ \A k \in UsedW : RelCount(k) = 1
AbsEnd == (l > 1 /\ l - 1 <= Len(T) /\ T[l - 1].e = "end") => AbsEndOK(T[l - 1])

Accepted ==
  /\ PrintT(<<"SITES", ToJson(TLCGet(1))>>)
  /\ PrintT(<<"DRIFT", ToJson(TLCGet(3))>>)
  /\ PrintT(<<"REACHED", TLCGet(2), Len(T) + 1>>)
  /\ TLCGet(2) = Len(T) + 1
=============================================================================
