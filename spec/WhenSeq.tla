------------------------------ MODULE WhenSeq ------------------------------
(***************************************************************************)
(* WhenAll (vector and tuple), Join and WhenAny as a reference interpreter  *)
(* over SEQUENTIAL completion histories (properties C09, C10): for every    *)
(* combinator x fail policy x input count x outcome pattern x completion    *)
(* order x number of inputs already complete when the combinator is built x *)
(* input form (static / dynamic) x input kind (unique / shared / mixed),    *)
(* TLC prints the output the statement prescribes; the harness command      *)
(* `when' executes the same history on the real API and the driver          *)
(* compares (the concurrent interleavings are When.tla's business).         *)
(*                                                                         *)
(* The effective consumption order: inputs that are complete when the       *)
(* combinator is built are consumed during set-up in INDEX order, the       *)
(* others when they complete.                                               *)
(***************************************************************************)
EXTENDS Naturals, Sequences, FiniteSets, TLC, Json

CONSTANTS Strategies,   \* subset of {"all_none","all_ff","tuple_none","tuple_ff","join_none","join_ff","any_none","any_ff","any_lf"}
          MaxN,         \* 2 or 3
          Letters       \* outcome letters: "v" value, "e" StopError, "x" exception

S(i) == ToString(i)
Perms(n) == {p \in [1..n -> 1..n] : \A i, j \in 1..n : i # j => p[i] # p[j]}
ValDesc(i) == "v" \o S(10 + i)
FailDesc(i, l) == IF l = "e" THEN "stop" ELSE "exc:e" \o S(i)
InDesc(i, l) == IF l = "v" THEN ValDesc(i) ELSE FailDesc(i, l)

\* programs
Forms(st) == IF st \in {"tuple_none", "tuple_ff"} THEN {"static"} ELSE {"static", "dynamic"}
Kinds(form) == IF form = "static" THEN {"unique", "shared", "mixed"} ELSE {"unique", "shared"}
FormKinds(st) == UNION {{<<fm, kd>> : kd \in Kinds(fm)} : fm \in Forms(st)}
Progs == UNION {{[strat |-> st, n |-> n, outs |-> o, order |-> p, pre |-> k, form |-> fk[1], kind |-> fk[2]] :
                   o \in [1..n -> Letters], p \in Perms(n), k \in 0..n, fk \in FormKinds(st)} :
                st \in Strategies, n \in 2..MaxN}

\* effective consumption order
RECURSIVE SortedPre(_, _)
SortedPre(set, i) == IF set = {} THEN <<>>
                     ELSE IF i \in set THEN <<i>> \o SortedPre(set \ {i}, i + 1) ELSE SortedPre(set, i + 1)
Eff(p) == LET preSet == {p.order[k] : k \in 1..p.pre} IN
          SortedPre(preSet, 1) \o [k \in 1..(p.n - p.pre) |-> p.order[p.pre + k]]

FailsIn(p, seq) == SelectSeq(seq, LAMBDA i : p.outs[i] # "v")
ValsIn(p, seq) == SelectSeq(seq, LAMBDA i : p.outs[i] = "v")

RECURSIVE VItems(_, _)
VItems(p, i) == IF i > p.n THEN "" ELSE ValDesc(i) \o (IF i < p.n THEN "," ELSE "") \o VItems(p, i + 1)
RECURSIVE RItems(_, _)
RItems(p, i) == IF i > p.n THEN "" ELSE InDesc(i, p.outs[i]) \o (IF i < p.n THEN "," ELSE "") \o RItems(p, i + 1)

Expected(p) ==
  LET eff == Eff(p)
      fails == FailsIn(p, eff)
      vals == ValsIn(p, eff)
      vlist == "[" \o VItems(p, 1) \o "]"
      rlist == "[" \o RItems(p, 1) \o "]"
      FirstFailOr(x) == IF fails = <<>> THEN x ELSE FailDesc(fails[1], p.outs[fails[1]])
  IN
  CASE p.strat \in {"all_ff", "tuple_ff"} -> FirstFailOr(vlist)
    [] p.strat \in {"all_none", "tuple_none"} -> rlist
    [] p.strat = "join_ff" -> FirstFailOr("unit")
    [] p.strat = "join_none" -> "unit"
    [] p.strat = "any_none" -> InDesc(eff[1], p.outs[eff[1]])
    [] p.strat = "any_ff" -> IF vals # <<>> THEN ValDesc(vals[1]) ELSE FailDesc(fails[1], p.outs[fails[1]])
    [] p.strat = "any_lf" -> IF vals # <<>> THEN ValDesc(vals[1]) ELSE FailDesc(fails[Len(fails)], p.outs[fails[Len(fails)]])

\* every shared input also has two other subscribers (one registered before the combinator is built, one after): each of
\* them is called exactly once, whatever the combinator does with its own callbacks
SharedInputs(p) == IF p.kind = "shared" THEN p.n ELSE IF p.kind = "mixed" THEN 1 ELSE 0
VARIABLE out
Init == \E p \in Progs : out = [prog |-> p, expected |-> Expected(p), subs |-> 2 * SharedInputs(p)]
Next == UNCHANGED out
Spec == Init /\ [][Next]_out

\* meta-properties of the interpreter
\* a value output of WhenAll lists the inputs in index order whatever the completion order was
OrderIndependent ==
  LET p == out.prog IN
     (p.strat \in {"all_none", "tuple_none", "join_none"}) => out.expected = Expected([p EXCEPT !.order = [i \in 1..p.n |-> i], !.pre = 0])
\* WhenAny with at least one value never reports a failure under FirstFail / LastFail
AnyPrefersValues ==
  LET p == out.prog IN
     (p.strat \in {"any_ff", "any_lf"} /\ \E i \in 1..p.n : p.outs[i] = "v") => \E i \in 1..p.n : out.expected = ValDesc(i)
Emit == PrintT(<<"WPROG", ToJson(out)>>)
=============================================================================
