SPECIFICATION Spec
CONSTANTS
  MaxLen = 2
  Srcs = {"ready_val", "ready_err", "ready_exc", "before_val", "after_val", "after_err", "after_exc", "on_after_val", "run_val", "run_throw", "acontract_val", "task_val", "sched_val", "lcontract_val", "sready_val", "sready_err", "sready_exc", "safter_val", "safter_exc"}
  Atts = {"inline", "e1"}
  Args = {"V", "E", "X", "R"}
  Behs = {"val", "void_hop", "void_throw", "throw", "throw_re", "res_val", "res_err", "res_exc", "fut_ready", "fut_pending", "fut_err", "shared_ready", "shared_pending", "task_make", "task_sched_stopped", "task_sched", "task_contract", "task_sched_then", "shared_cached_exc"}
  Rejects = {9}
  Starts = {"to_future"}
INVARIANTS CalledXorDropped DropOnlyWhenStopped RanWhereTold InvokedInOrder LazyEqualsEager CancelRunsNoValueCallback AllocBound Emit
CHECK_DEADLOCK FALSE
