----------------------------- MODULE CoMutex_MC -----------------------------
(* Bounded model of CoMutex.tla; memory orders from CoMutex_gen (extracted from the running code). *)
EXTENDS CoMutex, CoMutex_gen

O(site) == IF site \in DOMAIN OrdTable THEN OrdTable[site] ELSE [o |-> "sc", f |-> "sc", fences |-> <<>>]

MCInit == Init

MCStep ==
  /\ Step
  /\ mm' = MM!MStep(mm, ev'.p, ev'.a, ev'.loc, ev'.ok, O(ev'.site).o, O(ev'.site).f, O(ev'.site).fences, ev'.post)

MCNext == MCStep \/ (Quiescent /\ UNCHANGED vars)
MCSpec == MCInit /\ [][MCNext]_vars
\* weak fairness of every worker: every request is eventually granted and every coroutine finishes
FairSpec == MCSpec /\ \A w \in Wrk : WF_vars(MCStep /\ ev'.p = w)
EventuallyQuiescent == <>Quiescent
\* the protocol alone (no happens-before bookkeeping): cheap enough for the quick tier
PStep == Step /\ UNCHANGED mm
PSpec == MCInit /\ [][PStep \/ (Quiescent /\ UNCHANGED vars)]_vars
FairP == PSpec /\ \A w \in Wrk : WF_vars(PStep /\ ev'.p = w)

NoRace == MM!NoRace(mm)
NoStuck == (~ENABLED MCStep) => Quiescent
View == <<st, mm>>
=============================================================================
