----------------------------- MODULE CoMutex_MC -----------------------------
(* Bounded model of CoMutex.tla; memory orders from CoMutex_gen (extracted from the running code). *)
EXTENDS CoMutex, CoMutex_gen, Json

VARIABLE hist
CONSTANT KeepHist   \* TRUE only for behaviour extraction (the _paths configuration)

O(site) == IF site \in DOMAIN OrdTable THEN OrdTable[site] ELSE [o |-> "sc", f |-> "sc", fences |-> <<>>]

MCInit == Init /\ hist = <<>>

MCStep ==
  /\ Step
  /\ mm' = MM!MStep(mm, ev'.p, ev'.a, ev'.loc, ev'.ok, O(ev'.site).o, O(ev'.site).f, O(ev'.site).fences, ev'.post)

HistStep == hist' = (IF KeepHist THEN Append(hist, ev') ELSE hist)
MCNext == (MCStep /\ HistStep) \/ (Quiescent /\ UNCHANGED <<vars, hist>>)
MCSpec == MCInit /\ [][MCNext]_<<vars, hist>>
\* weak fairness of every worker: every request is eventually granted and every coroutine finishes
FairSpec == MCSpec /\ \A w \in Wrk : WF_<<vars, hist>>(MCStep /\ HistStep /\ ev'.p = w)
EventuallyQuiescent == <>Quiescent
\* the protocol alone (no happens-before bookkeeping): cheap enough for the quick tier
PStep == Step /\ UNCHANGED <<mm, hist>>
PSpec == MCInit /\ [][PStep \/ (Quiescent /\ UNCHANGED <<vars, hist>>)]_<<vars, hist>>
FairP == PSpec /\ \A w \in Wrk : WF_<<vars, hist>>(PStep /\ ev'.p = w)

NoRace == MM!NoRace(mm)
NoStuck == (~ENABLED MCStep) => Quiescent
View == <<st, mm>>

\* behaviour extraction (the _paths configuration, no VIEW): the root's submissions first, then the schedule
RECURSIVE Str(_)
Str(sq) == IF sq = <<>> THEN "" ELSE Head(sq) \o Str(Tail(sq))
PStr(c) == IF c <= NC(st) THEN Str(Prog(st, c)) ELSE ""
OptStr == (IF st.scen.batching THEN "1" ELSE "0") \o (IF st.scen.fifo THEN "1" ELSE "0")
RootHead == [i \in 1..NC(st) |-> [p |-> "root", obs |-> <<Ob("pool_submit", "")>>]]
LastWriterStr == ToString(st.data)
RECURSIVE FinalRec(_)
FinalRec(c) == IF c > NC(st) THEN [data |-> LastWriterStr, free |-> "1"] ELSE (("co" \o ToString(c)) :> "ready") @@ FinalRec(c + 1)
PrintPaths ==
  Quiescent =>
     PrintT(<<"BEHAVIOUR", ToJson([scen |-> [opts |-> OptStr, workers |-> ToString(st.scen.workers), p1 |-> PStr(1), p2 |-> PStr(2), p3 |-> PStr(3)],
                                   final |-> FinalRec(1),
                                   evs |-> RootHead \o [i \in 1..Len(hist) |->
                                             [p |-> hist[i].p, a |-> hist[i].a, o |-> hist[i].o, old |-> hist[i].old,
                                              new |-> hist[i].new, ok |-> hist[i].ok, spur |-> hist[i].spur, obs |-> hist[i].obs,
                                              done |-> hist[i].done]]])>>)
=============================================================================
