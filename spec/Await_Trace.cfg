SPECIFICATION TSpec
CONSTANTS
  Forms = {"await"}
  Ns = {1}
  OutSets = {"v"}
  Execs = {"here"}
INVARIANTS
  ResumedOnce ResumedAfterAll SeesOutcome EndState DropMeansNoResume ProtocolOK CounterSane NoRace
  AbsResumedOnce AbsOutcome AbsOnExecutor AbsRejected AbsNoResumeAfterReject AbsEnd
POSTCONDITION Accepted
CHECK_DEADLOCK FALSE
