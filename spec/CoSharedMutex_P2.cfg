SPECIFICATION PSpec
CONSTANTS
  MaxC = 3
  MaxW = 2
  Opts = {"00", "01", "10", "11"}
  WorkerCounts = {1, 2}
  P1s = {"rw", "wr"}
  P2s = {"wr", "Rw"}
  P3s = {"rr", "wW"}
  P4s = {""}
INVARIANTS
  Exclusion GrantedAtMostOnce GrantedAtQuiescence CleanAtQuiescence CountsCoverHolders PNoStuck
VIEW PView
CHECK_DEADLOCK TRUE
