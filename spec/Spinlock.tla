------------------------------ MODULE Spinlock ------------------------------
(***************************************************************************)
(* yaclib::detail::Spinlock<T> (include/yaclib/util/detail/spinlock.hpp),   *)
(* the internal lock of the coroutine SharedMutex (property C15: every      *)
(* decision of AwaitLock / AwaitLockShared / SlowUnlock is taken under it;  *)
(* C04 for the data it protects), one action per slice.                     *)
(*                                                                         *)
(* Code map                                                                 *)
(*   lock:   while (exchange(1, acquire) != 0)                              *)
(*             do {} while (load(relaxed) != 0);                            *)
(*   unlock: store(0, release)                                              *)
(*                                                                         *)
(* Threads T1..Tk do scen.rounds[i] rounds of lock / section / unlock.  The *)
(* section reads and writes a plain cell, performs one visible operation on *)
(* a scratch counter of the harness (so that an intruder could be seen) and *)
(* reports "enter <i>:<last writer>" / "leave <i>".                          *)
(***************************************************************************)
EXTENDS Naturals, Sequences, FiniteSets, TLC

CONSTANTS MaxT, RoundSets       \* RoundSets: strings of digits, e.g. "211"

TName(i) == "T" \o ToString(i)
Proc == {TName(i) : i \in 1..MaxT}
TIdx(p) == CHOOSE i \in 1..MaxT : TName(i) = p
Digit(c) == CASE c = "0" -> 0 [] c = "1" -> 1 [] c = "2" -> 2 [] c = "3" -> 3
Rounds(s) == CASE s = "1" -> <<1>> [] s = "2" -> <<2>> [] s = "11" -> <<1, 1>> [] s = "21" -> <<2, 1>> [] s = "12" -> <<1, 2>>
               [] s = "22" -> <<2, 2>> [] s = "111" -> <<1, 1, 1>> [] s = "211" -> <<2, 1, 1>> [] s = "121" -> <<1, 2, 1>>
               [] s = "112" -> <<1, 1, 2>> [] s = "221" -> <<2, 2, 1>> [] s = "222" -> <<2, 2, 2>> [] s = "1111" -> <<1, 1, 1, 1>>
               [] s = "311" -> <<3, 1, 1>> [] s = "31" -> <<3, 1>>

MM == INSTANCE MemModel WITH MProc <- Proc, MALoc <- {"lock", "scratch"}, MPLoc <- {"data"}

VARIABLES scen,      \* [rounds]
          lk,        \* the lock word
          scr,       \* the harness' scratch counter
          pc,        \* "xchg" | "spin" | "sect" | "unlock" | "done" | "off"
          rd,        \* rounds finished per thread
          data,      \* the plain cell: last writer
          order,     \* thread ids in the order sections were entered
          err, ev, mm

vars == <<scen, lk, scr, pc, rd, data, order, err, ev, mm>>

Used == {TName(i) : i \in 1..Len(scen.rounds)}
Ob(k, v) == [k |-> k, v |-> v]
W(l) == [k |-> "W", l |-> l]
R(l) == [k |-> "R", l |-> l]
Ev(p, a, o, loc, old, new, ok, spur, obs, done, site, post) ==
  [p |-> p, a |-> a, o |-> o, loc |-> loc, old |-> old, new |-> new, ok |-> ok, spur |-> spur, obs |-> obs, done |-> done,
   site |-> site, post |-> post]
NoEv == Ev("-", "-", "-", "lock", "-", "-", TRUE, FALSE, <<>>, FALSE, "-", <<>>)

I0(s) == [scen |-> s, lk |-> 0, scr |-> 0,
          pc |-> [p \in Proc |-> IF p \in {TName(i) : i \in 1..Len(s.rounds)} /\ s.rounds[TIdx(p)] > 0 THEN "xchg" ELSE "off"],
          rd |-> [p \in Proc |-> 0], data |-> 0, order |-> <<>>, err |-> {}, ev |-> NoEv, mm |-> MM!MInit]

InitScen(s) ==
  LET i == I0(s) IN
  /\ scen = i.scen /\ lk = i.lk /\ scr = i.scr /\ pc = i.pc /\ rd = i.rd /\ data = i.data /\ order = i.order
  /\ err = i.err /\ ev = i.ev /\ mm = i.mm
ResetScen(s) ==
  LET i == I0(s) IN
  /\ scen' = i.scen /\ lk' = i.lk /\ scr' = i.scr /\ pc' = i.pc /\ rd' = i.rd /\ data' = i.data /\ order' = i.order
  /\ err' = i.err /\ ev' = i.ev /\ mm' = i.mm

Init == \E rs \in RoundSets : InitScen([rounds |-> Rounds(rs)])

Inside == {p \in Proc : pc[p] \in {"sect", "unlock"}}

\* exchange(1, acquire): 0 -> the lock is taken and the section begins in the same slice; 1 -> spin
Xchg(p) ==
  /\ pc[p] = "xchg"
  /\ IF lk = 0
       THEN /\ lk' = 1
            /\ pc' = [pc EXCEPT ![p] = "sect"]
            /\ data' = TIdx(p)
            /\ order' = Append(order, TIdx(p))
            /\ err' = err \cup (IF Inside # {} THEN {<<"two holders", p>>} ELSE {})
            /\ ev' = Ev(p, "xchg", "lock", "lock", "0", "1", TRUE, FALSE,
                        <<Ob("enter", ToString(TIdx(p)) \o ":" \o ToString(data))>>, FALSE, "lock.xchg",
                        <<R("data"), W("data")>>)
       ELSE /\ pc' = [pc EXCEPT ![p] = "spin"]
            /\ ev' = Ev(p, "xchg", "lock", "lock", "1", "1", TRUE, FALSE, <<>>, FALSE, "lock.xchg", <<>>)
            /\ UNCHANGED <<lk, data, order, err>>
  /\ UNCHANGED <<scen, scr, rd>>

\* load(relaxed) of the inner wait loop
Spin(p) ==
  /\ pc[p] = "spin"
  /\ pc' = [pc EXCEPT ![p] = IF lk = 0 THEN "xchg" ELSE "spin"]
  /\ ev' = Ev(p, "load", "lock", "lock", ToString(lk), ToString(lk), TRUE, FALSE, <<>>, FALSE, "lock.spin", <<>>)
  /\ UNCHANGED <<scen, lk, scr, rd, data, order, err>>

\* inside the section: the visible operation of the harness
Sect(p) ==
  /\ pc[p] = "sect"
  /\ scr' = scr + 1
  /\ pc' = [pc EXCEPT ![p] = "unlock"]
  /\ ev' = Ev(p, "fadd", "scratch", "scratch", ToString(scr), ToString(scr + 1), TRUE, FALSE,
              <<Ob("leave", ToString(TIdx(p)))>>, FALSE, "section", <<>>)
  /\ UNCHANGED <<scen, lk, rd, data, order, err>>

\* store(0, release)
Unlock(p) ==
  /\ pc[p] = "unlock"
  /\ lk' = 0
  /\ rd' = [rd EXCEPT ![p] = @ + 1]
  /\ LET last == rd[p] + 1 = scen.rounds[TIdx(p)] IN
     /\ pc' = [pc EXCEPT ![p] = IF last THEN "done" ELSE "xchg"]
     /\ ev' = Ev(p, "store", "lock", "lock", ToString(lk), "0", TRUE, FALSE, <<>>, last, "unlock.store", <<>>)
  /\ UNCHANGED <<scen, scr, data, order, err>>

Step == \E p \in Proc : Xchg(p) \/ Spin(p) \/ Sect(p) \/ Unlock(p)

Quiescent == \A p \in Proc : pc[p] \in {"done", "off"}
Total == LET RECURSIVE Sum(_) Sum(s) == IF s = <<>> THEN 0 ELSE Head(s) + Sum(Tail(s)) IN Sum(scen.rounds)
ExpectedFinal == [entries |-> ToString(Total)]

(***************************************************************************)
(* Properties                                                               *)
(***************************************************************************)
TypeOK == lk \in {0, 1} /\ \A p \in Proc : pc[p] \in {"xchg", "spin", "sect", "unlock", "done", "off"}
Exclusion == Cardinality(Inside) <= 1
LockedWhileInside == Inside # {} => lk = 1
NoErr == err = {}
AllEntered == Quiescent => Len(order) = Total /\ lk = 0
=============================================================================
