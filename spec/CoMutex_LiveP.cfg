SPECIFICATION FairP
CONSTANTS
  KeepHist = FALSE
  MaxC = 3
  MaxW = 2
  Opts = {"00", "01", "10", "11"}
  WorkerCounts = {1, 2}
  P1s = {"ab", "sc"}
  P2s = {"ac", "tg"}
  P3s = {"", "b"}
  P4s = {""}
PROPERTY EventuallyQuiescent
CHECK_DEADLOCK FALSE
