----------------------------- MODULE WaitGroup -----------------------------
(***************************************************************************)
(* WaitGroup<OneShotEvent> and the bare OneShotEvent (property C16), one    *)
(* action per slice (= one yaclib_std operation of one thread plus the      *)
(* plain code up to its next operation).                                    *)
(*                                                                         *)
(* Code map                                                                 *)
(*   include/yaclib/util/detail/atomic_counter.hpp  Add (relaxed fetch_add),*)
(*        Sub/SubEqual (release fetch_sub, acquire fence when it hits zero, *)
(*        then SetDeleter::Delete = event.Set())                            *)
(*   src/algo/one_shot_event.cpp  TryAdd (acquire load, weak CAS loop       *)
(*        release/acquire pushing the job on the list head), SetImpl        *)
(*        (acq_rel exchange with the all-done sentinel, then `next =        *)
(*        job->next; job->Call()' for every registered job, newest first),  *)
(*        Wait (stack Waiter), Ready                                        *)
(*   include/yaclib/algo/one_shot_event.hpp  TimedWait (heap TimedWaiter    *)
(*        with two owners: Call() = Set() + DecRef(), the waiter drops its  *)
(*        reference after the wait), the three awaiters (inline: the        *)
(*        promise itself is the job; sticky / on: the awaiter in the        *)
(*        coroutine frame is the job and Call() submits the promise)        *)
(*   src/util/mutex_event.cpp  MutexEvent::Set (lock, flag, notify under    *)
(*        the lock, unlock) / Wait / timed Wait with predicate              *)
(*   include/yaclib/algo/wait_group.hpp  InsertRange: Add(n), SetCallback   *)
(*        per future (GetCall / GetDrop), Done(n - attached)                *)
(*   include/yaclib/algo/detail/wait_event.hpp  CallCallback::Here = Sub(1);*)
(*        DropCallback::Here = caller.DecRef() + Sub(1)                     *)
(*                                                                         *)
(* Scenario (harness/sc_wg.cpp): sources P_i of the count -- "d" a thread   *)
(* that calls Done(), "a" / "c" a future attached / consumed by M and       *)
(* completed by P_i, "S" (alone) a bare event Set() by P_1 -- and waiters    *)
(* W_k: "w" Wait, "t" WaitFor (then Wait if it timed out), "i"/"s"/"o"       *)
(* coroutines awaiting inline / sticky / on an executor.  M attaches /       *)
(* consumes in order and then gives up the initial unit of the count.       *)
(* A coroutine is a passive object: after a suspension it is resumed by     *)
(* the thread that Sets the event, inside that thread's slices.             *)
(***************************************************************************)
EXTENDS Naturals, Sequences, FiniteSets, TLC

CONSTANTS MaxS, MaxW,     \* processes P1..PMaxS and W1..WMaxW exist
          Srcs, Wts       \* scenario strings explored by Init

SrcChars(s) ==
  CASE s = "" -> <<>>
    [] s = "d" -> <<"d">>
    [] s = "a" -> <<"a">>
    [] s = "c" -> <<"c">>
    [] s = "dd" -> <<"d", "d">>
    [] s = "da" -> <<"d", "a">>
    [] s = "dc" -> <<"d", "c">>
    [] s = "ad" -> <<"a", "d">>
    [] s = "aa" -> <<"a", "a">>
    [] s = "ac" -> <<"a", "c">>
    [] s = "cd" -> <<"c", "d">>
    [] s = "ca" -> <<"c", "a">>
    [] s = "cc" -> <<"c", "c">>
    [] s = "ddd" -> <<"d", "d", "d">>
    [] s = "dda" -> <<"d", "d", "a">>
    [] s = "ddc" -> <<"d", "d", "c">>
    [] s = "dad" -> <<"d", "a", "d">>
    [] s = "daa" -> <<"d", "a", "a">>
    [] s = "dac" -> <<"d", "a", "c">>
    [] s = "dcd" -> <<"d", "c", "d">>
    [] s = "dca" -> <<"d", "c", "a">>
    [] s = "dcc" -> <<"d", "c", "c">>
    [] s = "add" -> <<"a", "d", "d">>
    [] s = "ada" -> <<"a", "d", "a">>
    [] s = "adc" -> <<"a", "d", "c">>
    [] s = "aad" -> <<"a", "a", "d">>
    [] s = "aaa" -> <<"a", "a", "a">>
    [] s = "aac" -> <<"a", "a", "c">>
    [] s = "acd" -> <<"a", "c", "d">>
    [] s = "aca" -> <<"a", "c", "a">>
    [] s = "acc" -> <<"a", "c", "c">>
    [] s = "cdd" -> <<"c", "d", "d">>
    [] s = "cda" -> <<"c", "d", "a">>
    [] s = "cdc" -> <<"c", "d", "c">>
    [] s = "cad" -> <<"c", "a", "d">>
    [] s = "caa" -> <<"c", "a", "a">>
    [] s = "cac" -> <<"c", "a", "c">>
    [] s = "ccd" -> <<"c", "c", "d">>
    [] s = "cca" -> <<"c", "c", "a">>
    [] s = "ccc" -> <<"c", "c", "c">>
    [] s = "S" -> <<"S">>

WtChars(s) ==
  CASE s = "" -> <<>>
    [] s = "w" -> <<"w">>
    [] s = "t" -> <<"t">>
    [] s = "i" -> <<"i">>
    [] s = "s" -> <<"s">>
    [] s = "o" -> <<"o">>
    [] s = "ww" -> <<"w", "w">>
    [] s = "wt" -> <<"w", "t">>
    [] s = "wi" -> <<"w", "i">>
    [] s = "ws" -> <<"w", "s">>
    [] s = "wo" -> <<"w", "o">>
    [] s = "tw" -> <<"t", "w">>
    [] s = "tt" -> <<"t", "t">>
    [] s = "ti" -> <<"t", "i">>
    [] s = "ts" -> <<"t", "s">>
    [] s = "to" -> <<"t", "o">>
    [] s = "iw" -> <<"i", "w">>
    [] s = "it" -> <<"i", "t">>
    [] s = "ii" -> <<"i", "i">>
    [] s = "is" -> <<"i", "s">>
    [] s = "io" -> <<"i", "o">>
    [] s = "sw" -> <<"s", "w">>
    [] s = "st" -> <<"s", "t">>
    [] s = "si" -> <<"s", "i">>
    [] s = "ss" -> <<"s", "s">>
    [] s = "so" -> <<"s", "o">>
    [] s = "ow" -> <<"o", "w">>
    [] s = "ot" -> <<"o", "t">>
    [] s = "oi" -> <<"o", "i">>
    [] s = "os" -> <<"o", "s">>
    [] s = "oo" -> <<"o", "o">>
    [] s = "wis" -> <<"w", "i", "s">>
    [] s = "wti" -> <<"w", "t", "i">>
    [] s = "iso" -> <<"i", "s", "o">>
    [] s = "wwi" -> <<"w", "w", "i">>
    [] s = "tis" -> <<"t", "i", "s">>

SIdx == 1..MaxS
WIdx == 1..MaxW
S(i) == ToString(i)
PName(i) == "P" \o S(i)
WName(k) == "W" \o S(k)
Prods == {PName(i) : i \in SIdx}
Wtrs == {WName(k) : k \in WIdx}
Proc == {"M"} \cup Prods \cup Wtrs
PIdx(p) == CHOOSE i \in SIdx : PName(i) = p
KIdx(p) == CHOOSE k \in WIdx : WName(k) = p

\* jobs are identified by the pointer value the event's head holds for them
JStk(k) == "@W" \o S(k) \o ".stk"        \* Waiter on the stack of W_k
JHeap(k) == "@W" \o S(k) \o ".a0"        \* TimedWaiter on the heap / promise or awaiter in the coroutine frame
Jobs == {JStk(k) : k \in WIdx} \cup {JHeap(k) : k \in WIdx}
IsStk(j) == j \in {JStk(k) : k \in WIdx}
Owner(j) == CHOOSE k \in WIdx : j \in {JStk(k), JHeap(k)}

LMtx(j) == "mtx" \o j
LRef(k) == "ref" \o S(k)
LKcb(k) == "kcb" \o S(k)
ALocs == {"head", "cnt"} \cup {"cb" \o S(i) : i \in SIdx} \cup {"gate" \o S(i) : i \in SIdx}
           \cup {LMtx(j) : j \in Jobs} \cup {LRef(k) : k \in WIdx} \cup {LKcb(k) : k \in WIdx}
PLocs == {"dn" \o S(i) : i \in SIdx} \cup {"next" \o j : j \in Jobs} \cup {"rdy" \o j : j \in Jobs}
           \cup {"frame" \o S(k) : k \in WIdx}

MM == INSTANCE MemModel WITH MProc <- Proc, MALoc <- ALocs, MPLoc <- PLocs

VARIABLES scen,      \* [src, wts: sequences of letters, bare]
          cnt,       \* the count
          hd,        \* the event's head word: "0" | "MAX" | job
          list,      \* registered jobs, newest first
          cb,        \* callback word of the future of source i: "0" | "@wg" | "MAX"
          freed,     \* how often the core of source i was released by the group
          dn,        \* plain flag "source i is done" (written before its Done / Set / promise Set)
          jb,        \* per job: [alive, ready, waiting, woken, mtx, ref]
          timedout,  \* the virtual deadline of the (single) timed waiter has passed
          pc, mi,    \* program counters; index of the source M works on
          todo,      \* jobs the setter still has to call (head = the one in progress)
          hs,        \* head value last seen by waiter k (the `expected' of its CAS)
          wjob, wph, \* current job of waiter k; 1 = first wait, 2 = the untimed wait after a timeout
          wret,      \* result the timed wait is about to return
          coro,      \* coroutine of waiter k: "none" | "running" | "parked" | "finished"
          kcb,       \* callback word of the coroutine's own future
          rels,      \* per waiter: the (count, all sources done, all attached ready) triples seen when released
          touts,     \* per waiter: number of timed-out returns
          err, ev, mm

vars == <<scen, cnt, hd, list, cb, freed, dn, jb, timedout, pc, mi, todo, hs, wjob, wph, wret, coro, kcb, rels, touts, err, ev, mm>>

N == Len(scen.src)
NW == Len(scen.wts)
Used == 1..N
UsedW == 1..NW
SKind(i) == scen.src[i]
WKind(k) == scen.wts[k]
JKind(j) == IF IsStk(j) THEN "block" ELSE IF WKind(Owner(j)) = "t" THEN "timed" ELSE "coro"
Pay(i) == "v" \o S(10 + i)
CbObj(i) == "c" \o S(i) \o ".cb"
Gate(i) == "gate" \o S(i)
WObj(k) == "W" \o S(k)
ObjMtx(j) == IF IsStk(j) THEN WObj(Owner(j)) \o ".stk" ELSE WObj(Owner(j)) \o ".a0.mtx"
ObjCv(j) == IF IsStk(j) THEN WObj(Owner(j)) \o ".stk" ELSE WObj(Owner(j)) \o ".a0.cv"
ObjRef(j) == WObj(Owner(j)) \o ".a0.ref"
ObjKcb(k) == WObj(k) \o ".a0.kcb"

Ob(k, v) == [k |-> k, v |-> v]
W(l) == [k |-> "W", l |-> l]
R(l) == [k |-> "R", l |-> l]

Ev(p, a, o, loc, old, new, ok, obs, done, site, post) ==
  [p |-> p, a |-> a, o |-> o, loc |-> loc, old |-> old, new |-> new, ok |-> ok, spur |-> FALSE, obs |-> obs, done |-> done,
   site |-> site, post |-> post]
NoEv == Ev("-", "-", "-", "cnt", "-", "-", TRUE, <<>>, FALSE, "-", <<>>)

NewJob == [alive |-> FALSE, ready |-> FALSE, waiting |-> FALSE, woken |-> FALSE, mtx |-> "free", ref |-> 0]
LiveJob(r) == [alive |-> TRUE, ready |-> FALSE, waiting |-> FALSE, woken |-> FALSE, mtx |-> "free", ref |-> r]

FirstAC(src, from) ==   \* first source >= from that M attaches / consumes; 0 if none
  LET c == {i \in from..Len(src) : src[i] \in {"a", "c"}} IN
  IF c = {} THEN 0 ELSE CHOOSE i \in c : \A x \in c : i <= x
Count(src, ch) == Cardinality({i \in 1..Len(src) : src[i] = ch})

FirstJob(kind, k) == IF kind = "w" THEN JStk(k) ELSE JHeap(k)

\* plain state written by a process before its first operation
RECURSIVE InitWrites(_, _, _)
InitWrites(m, wts, k) ==
  IF k > Len(wts) THEN m
  ELSE LET p == WName(k)
           m1 == IF wts[k] \in {"w", "t"}
                   THEN MM!PWrite(MM!PWrite(m, p, "rdy" \o FirstJob(wts[k], k)), p, "next" \o FirstJob(wts[k], k))
                   ELSE MM!PWrite(MM!PWrite(m, p, "frame" \o S(k)), p, "next" \o JHeap(k))
       IN  InitWrites(m1, wts, k + 1)

I0(s) ==
  LET src == s.src
      wts == s.wts
      bare == src = <<"S">>
      fac == FirstAC(src, 1)
  IN
  [ scen |-> [src |-> src, wts |-> wts, bare |-> bare, own |-> s.own],
    cnt |-> IF bare THEN 0 ELSE (IF s.own THEN 1 ELSE 0) + Count(src, "d"),
    hd |-> "0", list |-> <<>>,
    cb |-> [i \in SIdx |-> "0"], freed |-> [i \in SIdx |-> 0], dn |-> [i \in SIdx |-> FALSE],
    jb |-> [j \in Jobs |-> IF Owner(j) <= Len(wts) /\ j = FirstJob(wts[Owner(j)], Owner(j)) /\ wts[Owner(j)] \in {"w", "t"}
                             THEN LiveJob(IF wts[Owner(j)] = "t" THEN 2 ELSE 0) ELSE NewJob],
    timedout |-> FALSE,
    pc |-> [p \in Proc |->
              IF p = "M" THEN (IF bare THEN "done" ELSE IF fac = 0 THEN (IF s.own THEN "m_done" ELSE "done") ELSE "m_add")
              ELSE IF p \in Prods THEN (IF PIdx(p) <= Len(src) THEN "gate" ELSE "done")
              ELSE IF KIdx(p) > Len(wts) THEN "done"
              ELSE IF wts[KIdx(p)] \in {"w", "t"} THEN "w_l"
              ELSE IF wts[KIdx(p)] = "o" THEN "k_l" ELSE "k_r"],
    mi |-> fac,
    todo |-> [p \in Proc |-> <<>>],
    hs |-> [k \in WIdx |-> "0"],
    wjob |-> [k \in WIdx |-> IF k <= Len(wts) THEN FirstJob(wts[k], k) ELSE JStk(k)],
    wph |-> [k \in WIdx |-> 1],
    wret |-> [k \in WIdx |-> "none"],
    coro |-> [k \in WIdx |-> IF k <= Len(wts) /\ wts[k] \in {"i", "s", "o"} THEN "running" ELSE "none"],
    kcb |-> [k \in WIdx |-> "0"],
    rels |-> [k \in WIdx |-> <<>>], touts |-> [k \in WIdx |-> 0],
    err |-> {}, ev |-> NoEv,
    mm |-> InitWrites(MM!MInit, wts, 1) ]

InitScen(s) ==
  LET i == I0(s) IN
  /\ scen = i.scen /\ cnt = i.cnt /\ hd = i.hd /\ list = i.list /\ cb = i.cb /\ freed = i.freed /\ dn = i.dn /\ jb = i.jb
  /\ timedout = i.timedout /\ pc = i.pc /\ mi = i.mi /\ todo = i.todo /\ hs = i.hs /\ wjob = i.wjob /\ wph = i.wph
  /\ wret = i.wret /\ coro = i.coro /\ kcb = i.kcb /\ rels = i.rels /\ touts = i.touts /\ err = i.err /\ ev = i.ev /\ mm = i.mm
ResetScen(s) ==
  LET i == I0(s) IN
  /\ scen' = i.scen /\ cnt' = i.cnt /\ hd' = i.hd /\ list' = i.list /\ cb' = i.cb /\ freed' = i.freed /\ dn' = i.dn /\ jb' = i.jb
  /\ timedout' = i.timedout /\ pc' = i.pc /\ mi' = i.mi /\ todo' = i.todo /\ hs' = i.hs /\ wjob' = i.wjob /\ wph' = i.wph
  /\ wret' = i.wret /\ coro' = i.coro /\ kcb' = i.kcb /\ rels' = i.rels /\ touts' = i.touts /\ err' = i.err /\ ev' = i.ev /\ mm' = i.mm

\* without a unit of M's own only a single attached / consumed future keeps every Add on a count that was never zero
Init == \E s \in Srcs, w \in Wts, o \in BOOLEAN :
          /\ o \/ SrcChars(s) \in {<<"a">>, <<"c">>}
          /\ InitScen([src |-> SrcChars(s), wts |-> WtChars(w), own |-> o])

(***************************************************************************)
(* What a released waiter reports                                           *)
(***************************************************************************)
RECURSIVE DnBits(_)
DnBits(i) == IF i > N THEN "" ELSE (IF dn[i] THEN "1" ELSE "0") \o DnBits(i + 1)
RECURSIVE ABits(_)
ABits(i) == IF i > N THEN "" ELSE (IF SKind(i) = "a" THEN (IF cb[i] = "MAX" THEN "1" ELSE "0") ELSE "") \o ABits(i + 1)
Rep(k) == WName(k) \o ":" \o ToString(cnt) \o ":" \o DnBits(1) \o ":" \o ABits(1)
RelRec == [cnt |-> cnt, alldone |-> \A i \in Used : dn[i], allready |-> \A i \in Used : SKind(i) = "a" => cb[i] = "MAX"]
RelObs(k) == <<Ob("released", Rep(k))>>
RECURSIVE DnReads(_)
DnReads(i) == IF i > N THEN <<>> ELSE <<R("dn" \o S(i))>> \o DnReads(i + 1)

Touch(j) == IF jb[j].alive THEN {} ELSE {<<"use-after-free", j>>}

(***************************************************************************)
(* The thread that made the count zero (or called Set): SetImpl             *)
(***************************************************************************)
\* What follows the call of one job in the same slice: the next job is read from the list (`next = job->next' was read
\* BEFORE the call), a coroutine job is resumed right here and runs up to the exchange that completes its own future.
\* Returns [pc, obs, post, done, rk] (rk = waiter whose coroutine is resumed, 0 if none).
Proceed(rest) ==
  IF rest = <<>> THEN [pc |-> "done", obs |-> <<>>, post |-> <<>>, done |-> TRUE, rk |-> 0]
  ELSE LET j == Head(rest) IN
       IF JKind(j) = "coro"
         THEN LET k == Owner(j) IN
              [pc |-> "j_kx",
               obs |-> (IF WKind(k) = "o" THEN <<Ob("submitted", "")>> ELSE <<>>) \o RelObs(k),
               post |-> <<R("next" \o j), R("frame" \o S(k)), W("frame" \o S(k))>> \o DnReads(1),
               done |-> FALSE, rk |-> k]
         ELSE [pc |-> "j_lock", obs |-> <<>>, post |-> <<R("next" \o j)>>, done |-> FALSE, rk |-> 0]

\* state effects of Proceed for process p
ProceedFx(p, rest) ==
  LET pr == Proceed(rest) IN
  /\ pc' = [pc EXCEPT ![p] = pr.pc]
  /\ todo' = [todo EXCEPT ![p] = rest]
  /\ rels' = IF pr.rk # 0 THEN [rels EXCEPT ![pr.rk] = Append(@, RelRec)] ELSE rels
  /\ coro' = IF pr.rk # 0 THEN [coro EXCEPT ![pr.rk] = "running"] ELSE coro

\* Sub(n) on the count by process p; `after' = pc when the count does not reach zero
SubFx(p, n, site, api, after, afterdone) ==
  LET last == cnt = n IN
  /\ cnt' = cnt - n
  /\ pc' = [pc EXCEPT ![p] = IF last THEN "s_x" ELSE after]
  /\ ev' = Ev(p, "fsub", "cnt", "cnt", ToString(cnt), ToString(cnt - n), TRUE, <<>>, IF last THEN FALSE ELSE afterdone,
              IF last THEN site \o "+last" ELSE site, <<>>)

SetX(p) ==
  /\ pc[p] = "s_x"
  /\ hd' = "MAX" /\ list' = <<>>
  /\ LET pr == Proceed(list) IN
     /\ ProceedFx(p, list)
     /\ ev' = Ev(p, "xchg", "head", "head", hd, "MAX", TRUE, pr.obs, pr.done, "Event.Set.xchg", pr.post)
  /\ UNCHANGED <<scen, cnt, cb, freed, dn, jb, timedout, mi, hs, wjob, wph, wret, kcb, touts, err>>

JLock(p) ==
  /\ pc[p] = "j_lock"
  /\ LET j == Head(todo[p]) IN
     /\ jb[j].mtx = "free"
     /\ jb' = [jb EXCEPT ![j].mtx = p, ![j].ready = TRUE]
     /\ err' = err \cup Touch(j)
     /\ pc' = [pc EXCEPT ![p] = "j_notify"]
     /\ ev' = Ev(p, "lock", ObjMtx(j), LMtx(j), "-", "-", TRUE, <<>>, FALSE, "Waiter.Set.lock", <<W("rdy" \o j)>>)
  /\ UNCHANGED <<scen, cnt, hd, list, cb, freed, dn, timedout, mi, todo, hs, wjob, wph, wret, coro, kcb, rels, touts>>

JNotify(p) ==
  /\ pc[p] = "j_notify"
  /\ LET j == Head(todo[p]) IN
     /\ jb' = [jb EXCEPT ![j].woken = (@ \/ jb[j].waiting)]
     /\ err' = err \cup Touch(j)
     /\ pc' = [pc EXCEPT ![p] = "j_unlock"]
     /\ ev' = Ev(p, "notify_one", ObjCv(j), LMtx(j), "-", "-", TRUE, <<>>, FALSE, "Waiter.Set.notify", <<>>)
  /\ UNCHANGED <<scen, cnt, hd, list, cb, freed, dn, timedout, mi, todo, hs, wjob, wph, wret, coro, kcb, rels, touts>>

JUnlock(p) ==
  /\ pc[p] = "j_unlock"
  /\ LET j == Head(todo[p])
         rest == Tail(todo[p])
     IN
     /\ jb' = [jb EXCEPT ![j].mtx = "free"]
     /\ err' = err \cup Touch(j)
     /\ IF JKind(j) = "timed"
          THEN /\ pc' = [pc EXCEPT ![p] = "j_dec"]
               /\ ev' = Ev(p, "unlock", ObjMtx(j), LMtx(j), "-", "-", TRUE, <<>>, FALSE, "Waiter.Set.unlock", <<>>)
               /\ UNCHANGED <<todo, rels, coro>>
          ELSE LET pr == Proceed(rest) IN
               /\ ProceedFx(p, rest)
               /\ ev' = Ev(p, "unlock", ObjMtx(j), LMtx(j), "-", "-", TRUE, pr.obs, pr.done, "Waiter.Set.unlock", pr.post)
  /\ UNCHANGED <<scen, cnt, hd, list, cb, freed, dn, timedout, mi, hs, wjob, wph, wret, kcb, touts>>

\* DecRef of a heap waiter by process p; the last owner deletes it
DecFx(p, j) ==
  /\ jb' = [jb EXCEPT ![j].ref = @ - 1, ![j].alive = (jb[j].ref # 1)]
  /\ err' = err \cup Touch(j) \cup (IF jb[j].ref = 0 THEN {<<"double-free", j>>} ELSE {})
DecPost(j) == IF jb[j].ref = 1 THEN <<W("rdy" \o j), W("next" \o j)>> ELSE <<>>
DecSite(j) == IF jb[j].ref = 1 THEN "TimedWaiter.DecRef.fsub+last" ELSE "TimedWaiter.DecRef.fsub"

JDec(p) ==
  /\ pc[p] = "j_dec"
  /\ LET j == Head(todo[p])
         rest == Tail(todo[p])
         pr == Proceed(rest)
     IN
     /\ DecFx(p, j)
     /\ ProceedFx(p, rest)
     /\ ev' = Ev(p, "fsub", ObjRef(j), LRef(Owner(j)), ToString(jb[j].ref), ToString(jb[j].ref - 1), TRUE, pr.obs, pr.done,
                 DecSite(j), DecPost(j) \o pr.post)
  /\ UNCHANGED <<scen, cnt, hd, list, cb, freed, dn, timedout, mi, hs, wjob, wph, wret, kcb, touts>>

\* the resumed coroutine of the job in progress completes its own future (final_suspend -> SetResult)
JKx(p) ==
  /\ pc[p] = "j_kx"
  /\ LET j == Head(todo[p])
         k == Owner(j)
         rest == Tail(todo[p])
         pr == Proceed(rest)
     IN
     /\ kcb' = [kcb EXCEPT ![k] = "MAX"]
     /\ pc' = [pc EXCEPT ![p] = pr.pc]
     /\ todo' = [todo EXCEPT ![p] = rest]
     /\ rels' = IF pr.rk # 0 THEN [rels EXCEPT ![pr.rk] = Append(@, RelRec)] ELSE rels
     /\ coro' = [c \in WIdx |-> IF c = k THEN "finished" ELSE IF c = pr.rk THEN "running" ELSE coro[c]]
     /\ ev' = Ev(p, "xchg", ObjKcb(k), LKcb(k), kcb[k], "MAX", TRUE, pr.obs, pr.done, "Coro.SetResult.xchg", pr.post)
  /\ UNCHANGED <<scen, cnt, hd, list, cb, freed, dn, jb, timedout, mi, hs, wjob, wph, wret, touts, err>>

SetterStep(p) == SetX(p) \/ JLock(p) \/ JNotify(p) \/ JUnlock(p) \/ JDec(p) \/ JKx(p)

(***************************************************************************)
(* M: Attach / Consume every "a" / "c" source in order, then Done()         *)
(***************************************************************************)
\* scen.own: M holds a unit of its own (constructor count) and gives it up at the end; without it the count can reach
\* zero while Attach / Consume is still running (WaitGroup<> wg; wg.Attach(f); wg.Wait())
MNextPc(i) == IF FirstAC(scen.src, i + 1) = 0 THEN (IF scen.own THEN "m_done" ELSE "done") ELSE "m_add"
MNextIdx(i) == IF FirstAC(scen.src, i + 1) = 0 THEN i ELSE FirstAC(scen.src, i + 1)

MAdd ==
  /\ pc.M = "m_add"
  /\ cnt' = cnt + 1
  /\ pc' = [pc EXCEPT !.M = "m_l"]
  /\ ev' = Ev("M", "fadd", "cnt", "cnt", ToString(cnt), ToString(cnt + 1), TRUE, <<>>, FALSE, "Insert.Add.fadd", <<>>)
  /\ UNCHANGED <<scen, hd, list, cb, freed, dn, jb, timedout, mi, todo, hs, wjob, wph, wret, coro, kcb, rels, touts, err>>

\* SetCallback: acquire load; a future that is already ready is not attached (a consumed one is released right here)
MLoad ==
  /\ pc.M = "m_l"
  /\ LET i == mi IN
     IF cb[i] = "0"
       THEN /\ pc' = [pc EXCEPT !.M = "m_c"]
            /\ ev' = Ev("M", "load", CbObj(i), "cb" \o S(i), "0", "0", TRUE, <<>>, FALSE, "SetCallback.load", <<>>)
            /\ UNCHANGED freed
       ELSE /\ pc' = [pc EXCEPT !.M = "m_sub"]
            /\ freed' = IF SKind(i) = "c" THEN [freed EXCEPT ![i] = @ + 1] ELSE freed
            /\ ev' = Ev("M", "load", CbObj(i), "cb" \o S(i), cb[i], cb[i], TRUE, <<>>, FALSE, "SetCallback.load", <<>>)
  /\ UNCHANGED <<scen, cnt, hd, list, cb, dn, jb, timedout, mi, todo, hs, wjob, wph, wret, coro, kcb, rels, touts, err>>

MCas ==
  /\ pc.M = "m_c"
  /\ LET i == mi
         ok == cb[i] = "0"
     IN
     /\ cb' = IF ok THEN [cb EXCEPT ![i] = "@wg"] ELSE cb
     /\ freed' = IF ~ok /\ SKind(i) = "c" THEN [freed EXCEPT ![i] = @ + 1] ELSE freed
     /\ pc' = [pc EXCEPT !.M = IF ok THEN MNextPc(i) ELSE "m_sub"]
     /\ mi' = IF ok THEN MNextIdx(i) ELSE mi
     /\ ev' = Ev("M", "cas", CbObj(i), "cb" \o S(i), cb[i], cb'[i], ok, <<>>, ok /\ MNextPc(i) = "done", "SetCallback.cas", <<>>)
  /\ UNCHANGED <<scen, cnt, hd, list, dn, jb, timedout, todo, hs, wjob, wph, wret, coro, kcb, rels, touts, err>>

\* Done(count - wait_count) for the future that was already ready (reaches zero only when M holds no unit of its own)
MSub ==
  /\ pc.M = "m_sub"
  /\ SubFx("M", 1, "Insert.Done.fsub", "Attach", MNextPc(mi), MNextPc(mi) = "done")
  /\ mi' = MNextIdx(mi)
  /\ UNCHANGED <<scen, hd, list, cb, freed, dn, jb, timedout, todo, hs, wjob, wph, wret, coro, kcb, rels, touts, err>>

MDone ==
  /\ pc.M = "m_done"
  /\ SubFx("M", 1, "Done.fsub", "Done", "done", TRUE)
  /\ UNCHANGED <<scen, hd, list, cb, freed, dn, jb, timedout, mi, todo, hs, wjob, wph, wret, coro, kcb, rels, touts, err>>

(***************************************************************************)
(* Sources                                                                  *)
(***************************************************************************)
PGate(p) ==
  LET i == PIdx(p) IN
  /\ pc[p] = "gate"
  /\ dn' = [dn EXCEPT ![i] = TRUE]
  /\ pc' = [pc EXCEPT ![p] = IF SKind(i) = "d" THEN "p_sub" ELSE IF SKind(i) = "S" THEN "s_x" ELSE "p_x"]
  /\ ev' = Ev(p, "store", Gate(i), Gate(i), "0", "1", TRUE, <<>>, FALSE, "Harness.gate", <<W("dn" \o S(i))>>)
  /\ UNCHANGED <<scen, cnt, hd, list, cb, freed, jb, timedout, mi, todo, hs, wjob, wph, wret, coro, kcb, rels, touts, err>>

\* Promise::Set -> SetResult: exchange; if the group's callback is there: Here() = (consumed: release the core) + Sub(1)
PXchg(p) ==
  LET i == PIdx(p)
      att == cb[i] = "@wg"
  IN
  /\ pc[p] = "p_x"
  /\ cb' = [cb EXCEPT ![i] = "MAX"]
  /\ freed' = IF att /\ SKind(i) = "c" THEN [freed EXCEPT ![i] = @ + 1] ELSE freed
  /\ pc' = [pc EXCEPT ![p] = IF att THEN "p_sub" ELSE "done"]
  /\ ev' = Ev(p, "xchg", CbObj(i), "cb" \o S(i), cb[i], "MAX", TRUE, <<>>, ~att, "SetResult.xchg", <<>>)
  /\ UNCHANGED <<scen, cnt, hd, list, dn, jb, timedout, mi, todo, hs, wjob, wph, wret, coro, kcb, rels, touts, err>>

PSub(p) ==
  /\ pc[p] = "p_sub"
  /\ SubFx(p, 1, "Event.Sub.fsub", "Done", "done", TRUE)
  /\ UNCHANGED <<scen, hd, list, cb, freed, dn, jb, timedout, mi, todo, hs, wjob, wph, wret, coro, kcb, rels, touts, err>>

(***************************************************************************)
(* Blocking and timed waiters                                               *)
(***************************************************************************)
IsTimed(k) == WKind(k) = "t" /\ wph[k] = 1

\* the calling waiter is released in the tail of this slice
Released(k) == rels' = [rels EXCEPT ![k] = Append(@, RelRec)]

\* TryAdd found the all-done sentinel: a timed wait deletes its heap waiter, then the call returns (true)
NoAddPost(k) == IF IsTimed(k) THEN <<W("rdy" \o wjob[k]), W("next" \o wjob[k])>> \o DnReads(1)
                ELSE <<W("rdy" \o wjob[k]), W("next" \o wjob[k])>> \o DnReads(1)
NoAddFx(k) == jb' = [jb EXCEPT ![wjob[k]].alive = FALSE, ![wjob[k]].ref = 0]

WLoad(p) ==
  LET k == KIdx(p)
      j == wjob[k]
  IN
  /\ pc[p] = "w_l"
  /\ hs' = [hs EXCEPT ![k] = hd]
  /\ IF hd = "MAX"
       THEN /\ Released(k) /\ NoAddFx(k)
            /\ pc' = [pc EXCEPT ![p] = "done"]
            /\ ev' = Ev(p, "load", "head", "head", hd, hd, TRUE, RelObs(k), TRUE, "TryAdd.load", NoAddPost(k))
       ELSE /\ pc' = [pc EXCEPT ![p] = "w_c"]
            /\ ev' = Ev(p, "load", "head", "head", hd, hd, TRUE, <<>>, FALSE, "TryAdd.load", <<W("next" \o j)>>)
            /\ UNCHANGED <<rels, jb>>
  /\ UNCHANGED <<scen, cnt, hd, list, cb, freed, dn, timedout, mi, todo, wjob, wph, wret, coro, kcb, touts, err>>

WCas(p) ==
  LET k == KIdx(p)
      j == wjob[k]
      ok == hd = hs[k]
  IN
  /\ pc[p] = "w_c"
  /\ IF ok
       THEN /\ hd' = j /\ list' = <<j>> \o list
            /\ pc' = [pc EXCEPT ![p] = "w_lock"]
            /\ ev' = Ev(p, "casw", "head", "head", hd, j, TRUE, <<>>, FALSE, "TryAdd.cas", <<>>)
            /\ UNCHANGED <<hs, rels, jb>>
       ELSE /\ hs' = [hs EXCEPT ![k] = hd]
            /\ UNCHANGED <<hd, list>>
            /\ IF hd = "MAX"
                 THEN /\ Released(k) /\ NoAddFx(k)
                      /\ pc' = [pc EXCEPT ![p] = "done"]
                      /\ ev' = Ev(p, "casw", "head", "head", hd, hd, FALSE, RelObs(k), TRUE, "TryAdd.cas", NoAddPost(k))
                 ELSE /\ pc' = pc
                      /\ ev' = Ev(p, "casw", "head", "head", hd, hd, FALSE, <<>>, FALSE, "TryAdd.cas", <<W("next" \o j)>>)
                      /\ UNCHANGED <<rels, jb>>
  /\ UNCHANGED <<scen, cnt, cb, freed, dn, timedout, mi, todo, wjob, wph, wret, coro, kcb, touts, err>>

\* Make(): lock the waiter's mutex; the (timed) wait checks the flag first
WLock(p) ==
  LET k == KIdx(p)
      j == wjob[k]
  IN
  /\ pc[p] = "w_lock" /\ jb[j].mtx = "free"
  /\ jb' = [jb EXCEPT ![j].mtx = p]
  /\ pc' = [pc EXCEPT ![p] = IF jb[j].ready THEN "w_unlock" ELSE "w_cvw"]
  /\ wret' = [wret EXCEPT ![k] = IF jb[j].ready THEN "1" ELSE @]
  /\ ev' = Ev(p, "lock", ObjMtx(j), LMtx(j), "-", "-", TRUE, <<>>, FALSE, "Waiter.Make.lock", <<R("rdy" \o j)>>)
  /\ UNCHANGED <<scen, cnt, hd, list, cb, freed, dn, timedout, mi, todo, hs, wjob, wph, coro, kcb, rels, touts, err>>

WCvWait(p) ==
  LET k == KIdx(p)
      j == wjob[k]
  IN
  /\ pc[p] = "w_cvw"
  /\ jb' = [jb EXCEPT ![j].mtx = "free", ![j].waiting = TRUE]
  /\ pc' = [pc EXCEPT ![p] = "w_wake"]
  /\ ev' = Ev(p, IF IsTimed(k) THEN "cvwait_for" ELSE "cvwait", ObjCv(j), LMtx(j), "-", "-", TRUE, <<>>, FALSE, "Waiter.Wait.cvwait", <<>>)
  /\ UNCHANGED <<scen, cnt, hd, list, cb, freed, dn, timedout, mi, todo, hs, wjob, wph, wret, coro, kcb, rels, touts, err>>

\* the virtual clock reaches the deadline while the timed waiter sleeps
Timeout ==
  /\ ~timedout
  /\ \E k \in UsedW : IsTimed(k) /\ pc[WName(k)] = "w_wake"
  /\ timedout' = TRUE
  /\ ev' = [NoEv EXCEPT !.a = "time"]
  /\ UNCHANGED <<scen, cnt, hd, list, cb, freed, dn, jb, pc, mi, todo, hs, wjob, wph, wret, coro, kcb, rels, touts, err>>

WWake(p) ==
  LET k == KIdx(p)
      j == wjob[k]
      timed == IsTimed(k)
  IN
  /\ pc[p] = "w_wake" /\ jb[j].mtx = "free"
  /\ jb[j].woken \/ (timed /\ timedout)
  /\ jb' = [jb EXCEPT ![j].mtx = p, ![j].waiting = FALSE, ![j].woken = FALSE]
  /\ IF jb[j].ready
       THEN pc' = [pc EXCEPT ![p] = "w_unlock"] /\ wret' = [wret EXCEPT ![k] = "1"]
       ELSE IF timed /\ timedout
              THEN pc' = [pc EXCEPT ![p] = "w_unlock"] /\ wret' = [wret EXCEPT ![k] = "0"]
              ELSE pc' = [pc EXCEPT ![p] = "w_cvw"] /\ wret' = wret
  /\ ev' = Ev(p, IF timed THEN "cvwake_for" ELSE "cvwake", ObjCv(j), LMtx(j), "-", "-", TRUE, <<>>, FALSE, "Waiter.Wait.cvwake",
              <<R("rdy" \o j)>>)
  /\ UNCHANGED <<scen, cnt, hd, list, cb, freed, dn, timedout, mi, todo, hs, wjob, wph, coro, kcb, rels, touts, err>>

\* the token is unlocked: an untimed Wait returns here (its stack waiter dies), a timed one still drops its reference
WUnlock(p) ==
  LET k == KIdx(p)
      j == wjob[k]
  IN
  /\ pc[p] = "w_unlock"
  /\ IF IsTimed(k)
       THEN /\ jb' = [jb EXCEPT ![j].mtx = "free"]
            /\ pc' = [pc EXCEPT ![p] = "w_dec"]
            /\ ev' = Ev(p, "unlock", ObjMtx(j), LMtx(j), "-", "-", TRUE, <<>>, FALSE, "Waiter.Token.unlock", <<>>)
            /\ UNCHANGED rels
       ELSE /\ jb' = [jb EXCEPT ![j].mtx = "free", ![j].alive = FALSE]
            /\ Released(k)
            /\ pc' = [pc EXCEPT ![p] = "done"]
            /\ ev' = Ev(p, "unlock", ObjMtx(j), LMtx(j), "-", "-", TRUE, RelObs(k), TRUE, "Waiter.Token.unlock",
                        <<W("rdy" \o j), W("next" \o j)>> \o DnReads(1))
  /\ UNCHANGED <<scen, cnt, hd, list, cb, freed, dn, timedout, mi, todo, hs, wjob, wph, wret, coro, kcb, touts, err>>

\* the timed waiter drops its reference to the heap waiter; true: released; false: report the timeout and Wait()
WDec(p) ==
  LET k == KIdx(p)
      j == wjob[k]
      j2 == JStk(k)
  IN
  /\ pc[p] = "w_dec"
  /\ err' = err \cup Touch(j) \cup (IF jb[j].ref = 0 THEN {<<"double-free", j>>} ELSE {})
  /\ IF wret[k] = "1"
       THEN /\ jb' = [jb EXCEPT ![j].ref = @ - 1, ![j].alive = (jb[j].ref # 1)]
            /\ Released(k)
            /\ pc' = [pc EXCEPT ![p] = "done"]
            /\ ev' = Ev(p, "fsub", ObjRef(j), LRef(k), ToString(jb[j].ref), ToString(jb[j].ref - 1), TRUE, RelObs(k), TRUE,
                        DecSite(j), DecPost(j) \o DnReads(1))
            /\ UNCHANGED <<touts, wjob, wph>>
       ELSE /\ jb' = [jb EXCEPT ![j].ref = @ - 1, ![j].alive = (jb[j].ref # 1), ![j2] = LiveJob(0)]
            /\ touts' = [touts EXCEPT ![k] = @ + 1]
            /\ wjob' = [wjob EXCEPT ![k] = j2] /\ wph' = [wph EXCEPT ![k] = 2]
            /\ pc' = [pc EXCEPT ![p] = "w_l"]
            /\ ev' = Ev(p, "fsub", ObjRef(j), LRef(k), ToString(jb[j].ref), ToString(jb[j].ref - 1), TRUE, <<Ob("timedout", WName(k))>>,
                        FALSE, DecSite(j), DecPost(j) \o <<W("rdy" \o j2), W("next" \o j2)>>)
            /\ UNCHANGED rels
  /\ UNCHANGED <<scen, cnt, hd, list, cb, freed, dn, timedout, mi, todo, hs, wret, coro, kcb>>

(***************************************************************************)
(* Coroutine waiters (run by their own thread until they suspend)           *)
(***************************************************************************)
\* the coroutine goes on without suspension (or is resumed on the spot): it reports and completes
GoOnObs(k, viaexec) == (IF viaexec THEN <<Ob("submitted", "")>> ELSE <<>>) \o RelObs(k)
GoOnPost(k) == <<W("frame" \o S(k))>> \o DnReads(1)

KReady(p) ==
  LET k == KIdx(p) IN
  /\ pc[p] = "k_r"
  /\ IF hd = "MAX"
       THEN /\ Released(k)
            /\ pc' = [pc EXCEPT ![p] = "k_x"]
            /\ ev' = Ev(p, "load", "head", "head", hd, hd, TRUE, GoOnObs(k, FALSE), FALSE, "Event.Ready.load", GoOnPost(k))
       ELSE /\ pc' = [pc EXCEPT ![p] = "k_l"]
            /\ ev' = Ev(p, "load", "head", "head", hd, hd, TRUE, <<>>, FALSE, "Event.Ready.load", <<W("frame" \o S(k))>>)
            /\ UNCHANGED rels
  /\ UNCHANGED <<scen, cnt, hd, list, cb, freed, dn, jb, timedout, mi, todo, hs, wjob, wph, wret, coro, kcb, touts, err>>

KLoad(p) ==
  LET k == KIdx(p)
      j == JHeap(k)
  IN
  /\ pc[p] = "k_l"
  /\ hs' = [hs EXCEPT ![k] = hd]
  /\ IF hd = "MAX"
       THEN /\ Released(k)
            /\ pc' = [pc EXCEPT ![p] = "k_x"]
            /\ ev' = Ev(p, "load", "head", "head", hd, hd, TRUE, GoOnObs(k, WKind(k) = "o"), FALSE, "TryAdd.load", GoOnPost(k))
       ELSE /\ pc' = [pc EXCEPT ![p] = "k_c"]
            /\ ev' = Ev(p, "load", "head", "head", hd, hd, TRUE, <<>>, FALSE, "TryAdd.load", <<W("frame" \o S(k)), W("next" \o j)>>)
            /\ UNCHANGED rels
  /\ UNCHANGED <<scen, cnt, hd, list, cb, freed, dn, jb, timedout, mi, todo, wjob, wph, wret, coro, kcb, touts, err>>

KCas(p) ==
  LET k == KIdx(p)
      j == JHeap(k)
      ok == hd = hs[k]
  IN
  /\ pc[p] = "k_c"
  /\ IF ok
       THEN /\ hd' = j /\ list' = <<j>> \o list
            /\ coro' = [coro EXCEPT ![k] = "parked"]
            /\ pc' = [pc EXCEPT ![p] = "done"]
            /\ ev' = Ev(p, "casw", "head", "head", hd, j, TRUE, <<>>, TRUE, "TryAdd.cas", <<>>)
            /\ UNCHANGED <<hs, rels>>
       ELSE /\ hs' = [hs EXCEPT ![k] = hd]
            /\ UNCHANGED <<hd, list, coro>>
            /\ IF hd = "MAX"
                 THEN /\ Released(k)
                      /\ pc' = [pc EXCEPT ![p] = "k_x"]
                      /\ ev' = Ev(p, "casw", "head", "head", hd, hd, FALSE, GoOnObs(k, WKind(k) = "o"), FALSE, "TryAdd.cas", GoOnPost(k))
                 ELSE /\ pc' = pc
                      /\ ev' = Ev(p, "casw", "head", "head", hd, hd, FALSE, <<>>, FALSE, "TryAdd.cas", <<W("next" \o j)>>)
                      /\ UNCHANGED rels
  /\ UNCHANGED <<scen, cnt, cb, freed, dn, jb, timedout, mi, todo, wjob, wph, wret, kcb, touts, err>>

KFinish(p) ==
  LET k == KIdx(p) IN
  /\ pc[p] = "k_x"
  /\ kcb' = [kcb EXCEPT ![k] = "MAX"]
  /\ coro' = [coro EXCEPT ![k] = "finished"]
  /\ pc' = [pc EXCEPT ![p] = "done"]
  /\ ev' = Ev(p, "xchg", ObjKcb(k), LKcb(k), kcb[k], "MAX", TRUE, <<>>, TRUE, "Coro.SetResult.xchg", <<>>)
  /\ UNCHANGED <<scen, cnt, hd, list, cb, freed, dn, jb, timedout, mi, todo, hs, wjob, wph, wret, rels, touts, err>>

Step == \/ MAdd \/ MLoad \/ MCas \/ MSub \/ MDone
        \/ \E p \in Prods : PGate(p) \/ PXchg(p) \/ PSub(p)
        \/ \E p \in {"M"} \cup Prods : SetterStep(p)
        \/ \E p \in Wtrs : WLoad(p) \/ WCas(p) \/ WLock(p) \/ WCvWait(p) \/ WWake(p) \/ WUnlock(p) \/ WDec(p)
        \/ \E p \in Wtrs : KReady(p) \/ KLoad(p) \/ KCas(p) \/ KFinish(p)

Quiescent == \A p \in Proc : pc[p] = "done"

(***************************************************************************)
(* Properties (C16)                                                         *)
(***************************************************************************)
\* a waiter returns / is resumed only after the count has reached zero: every Add matched by Done, every attached
\* or consumed future completed (for the bare event: after Set)
ReleasedOnlyAtZero ==
  \A k \in WIdx : \A n \in 1..Len(rels[k]) : rels[k][n].cnt = 0 /\ rels[k][n].alldone /\ rels[k][n].allready
\* ... exactly once, whether it registered before the count reached zero or arrived after
ReleasedAtMostOnce == \A k \in WIdx : Len(rels[k]) <= 1
WaitersReleasedAtQuiescence == Quiescent => \A k \in UsedW : Len(rels[k]) = 1 /\ (WKind(k) \in {"i", "s", "o"} => coro[k] = "finished")
\* WaitFor returns false only after its deadline
FalseOnlyAfterDeadline == \A k \in WIdx : touts[k] > 0 => timedout
\* attached futures stay valid for their owner, consumed ones are released exactly once
AttachedValid == \A i \in SIdx : i <= N /\ SKind(i) = "a" => freed[i] = 0
ConsumedOnce == \A i \in SIdx : freed[i] <= 1
ConsumedAtQuiescence == Quiescent => \A i \in Used : (SKind(i) = "c" => freed[i] = 1) /\ (SKind(i) \in {"a", "c"} => cb[i] = "MAX")
\* the count and the event end in their final state; no waiter object is touched after it died or freed twice
CountZeroAtQuiescence == Quiescent => cnt = 0 /\ hd = "MAX" /\ list = <<>>
HeapWaiterReleased == Quiescent => \A k \in UsedW : WKind(k) = "t" => jb[JHeap(k)].ref = 0 /\ ~jb[JHeap(k)].alive
OwnershipOK == err = {}
NeverNegative == cnt >= 0

ExpectedFinal ==
  LET RECURSIVE F(_)
      F(i) == IF i > N THEN [count |-> "0", live |-> "0", read_moved |-> "0"]
              ELSE IF SKind(i) = "a" THEN (("get" \o S(i)) :> Pay(i)) @@ F(i + 1) ELSE F(i + 1)
      RECURSIVE G(_)
      G(k) == IF k > NW THEN F(1)
              ELSE IF WKind(k) \in {"i", "s", "o"} THEN (("coro" \o S(k)) :> "ready") @@ G(k + 1) ELSE G(k + 1)
  IN  G(1)
=============================================================================
