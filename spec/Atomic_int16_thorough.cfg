SPECIFICATION Spec
CONSTANTS
  Kind = "int"
  NL = 1
  B = 65536
  MaxDepth = 3
  FullOps = FALSE
INVARIANTS TypeOK CasContract FetchVsAssign Emit
CHECK_DEADLOCK FALSE
