SPECIFICATION FairSpec
CONSTANTS
  KeepHist = FALSE
  MaxS = 2
  MaxW = 2
  Srcs = {"d", "a", "c", "S", "da"}
  Wts = {"w", "t", "i", "o", "wi", "tw"}
PROPERTY EventuallyQuiescent
CHECK_DEADLOCK FALSE
