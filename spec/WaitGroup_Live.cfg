SPECIFICATION FairSpec
CONSTANTS
  KeepHist = FALSE
  MaxS = 2
  MaxW = 2
  Srcs = {"d", "c", "S"}
  Wts = {"w", "t", "o", "wi", "tw"}
PROPERTY EventuallyQuiescent
CHECK_DEADLOCK FALSE
