SPECIFICATION MCSpec
CONSTANTS
  MaxC = 3
  MaxW = 2
  Opts = {"00", "01", "10", "11"}
  WorkerCounts = {2}
  P1s = {"r", "w"}
  P2s = {"w", "R"}
  P3s = {"w", "W", "r"}
  P4s = {""}
INVARIANTS
  Exclusion GrantedAtMostOnce GrantedAtQuiescence CleanAtQuiescence CountsCoverHolders NoRace NoStuck
VIEW View
CHECK_DEADLOCK TRUE
