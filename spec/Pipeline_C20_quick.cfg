SPECIFICATION Spec
CONSTANTS
  MaxLen = 2
  Srcs = {"ready_val", "ready_err", "ready_exc", "before_val", "after_val", "after_err", "after_exc", "on_after_val", "run_val", "run_throw", "acontract_val", "task_val", "task_err", "task_exc", "sched_val", "sched_throw", "lcontract_val"}
  Atts = {"inline", "e1", "inh"}
  Args = {"V", "R", "X", "E"}
  Behs = {"val", "void_hop", "void_throw", "throw", "res_err", "fut_ready", "fut_pending", "shared_ready", "shared_pending", "task_make", "task_sched_stopped", "task_sched_then", "shared_cached_exc"}
  Rejects = {9}
  Starts = {"to_future", "detach"}
INVARIANTS CalledXorDropped DropOnlyWhenStopped RanWhereTold InvokedInOrder LazyEqualsEager CancelRunsNoValueCallback AllocBound Emit
CHECK_DEADLOCK FALSE
