----------------------------- MODULE ThreadPool_Trace -----------------------------
(* Trace validation for scenario "tp".  Scheme as in UniqueCore_Trace, plus: the specification names the       *)
(* combinator's objects logically; `omap' binds each logical name to the address class the harness logged the  *)
(* first time it is used (TLC infers the binding), so the layout of the combinator is not part of the check.    *)
EXTENDS ThreadPool, Json, IOUtils

VARIABLES l, seen, drift, omap

T == ndJsonDeserialize(IOEnv.TRACE)

Logical == {"m", "cv"}
\* bind logical name lg to actual string act under map m: <<ok, m'>>
Bind(m, lg, act) ==
  IF lg \notin Logical THEN <<lg = act, m>>
  ELSE IF lg \in DOMAIN m THEN <<m[lg] = act, m>>
  ELSE <<act \notin {m[x] : x \in DOMAIN m}, m @@ (lg :> act)>>
Bind3(m, e, t) ==
  LET b1 == Bind(m, e.o, t.o)
      b2 == Bind(b1[2], e.old, t.old)
      b3 == Bind(b2[2], e.new, t.new)
  IN  <<b1[1] /\ b2[1] /\ b3[1], b3[2]>>

\* which waiter a notify / unlock wakes is the fiber scheduler's business: those records are not matched
NoWake(obs) == SelectSeq(obs, LAMBDA x : x.k # "wake")
Wakes(obs) == SelectSeq(obs, LAMBDA x : x.k = "wake")
Match(e, t) ==
  /\ e.p = t.p /\ e.a = t.a /\ e.ok = t.ok /\ e.obs = NoWake(t.obs) /\ e.done = t.done /\ e.spur = t.spur
  /\ e.wake = "-" \/ (Wakes(t.obs) # <<>> /\ e.wake = Wakes(t.obs)[1].v)
  /\ Bind3(omap, e, t)[1]

Progress(n) == IF n > TLCGet(2) THEN TLCSet(2, n) ELSE TRUE
Note(e, t) == TLCSet(1, TLCGet(1) \cup {<<e.site, t.ord, t.ford, t.fences>>})
NoteDrift(n) == TLCSet(3, TLCGet(3) \cup {n})
See(p, obs) == seen \o [i \in 1..Len(obs) |-> [p |-> p, k |-> obs[i].k, v |-> obs[i].v]]

PInt(x, d) == IF x = "0" THEN 0 ELSE IF x = "1" THEN 1 ELSE IF x = "2" THEN 2 ELSE IF x = "3" THEN 3 ELSE d
Par(t, k, d) == IF k \in DOMAIN t.params THEN t.params[k] ELSE d
\* follow-up jobs (chain = 1) and "SoftStop and nothing else" are not modelled by ThreadPool.tla: such executions are
\* judged by the abstract monitors only (drift from the first line, no note); `seen' starts with a scenario marker
Modelled(t) == Par(t, "chain", "0") = "0" /\ Par(t, "stop", "stop") # "softonly"
Seed(t) == IF Modelled(t) THEN <<>> ELSE <<[p |-> "root", k |-> "scenario", v |-> Par(t, "stop", "stop") \o ":" \o Par(t, "chain", "0")]>>
ScenOf(t) == [subs |-> Counts(Par(t, "subs", "11")), workers |-> PInt(Par(t, "workers", "1"), 1),
              stop |-> IF Par(t, "stop", "stop") = "softonly" THEN "soft" ELSE Par(t, "stop", "stop")]

TInit ==
  /\ TLCSet(1, {}) /\ TLCSet(2, 1) /\ TLCSet(3, {})
  /\ T[1].e = "begin"
  /\ InitScen(ScenOf(T[1]))
  /\ l = 2 /\ seen = Seed(T[1]) /\ drift = ~Modelled(T[1]) /\ omap = <<>>

Conform(t) ==
  /\ Step
  /\ Match(ev', t)
  /\ mm' = MM!MStep(mm, ev'.p, ev'.a, ev'.loc, ev'.ok, t.ord, t.ford, t.fences, ev'.post)

TOp ==
  /\ l <= Len(T) /\ T[l].e = "op" /\ ~drift
  /\ Conform(T[l])
  /\ omap' = Bind3(omap, ev', T[l])[2]
  /\ Note(ev', T[l])
  /\ seen' = See(T[l].p, T[l].obs)
  /\ l' = l + 1 /\ Progress(l') /\ UNCHANGED drift

TRobs ==
  /\ l <= Len(T) /\ T[l].e = "robs" /\ ~drift
  /\ RootWait /\ ev'.obs = T[l].obs /\ UNCHANGED mm
  /\ seen' = See("root", T[l].obs)
  /\ UNCHANGED <<omap, drift>>
  /\ l' = l + 1 /\ Progress(l')

TDrift ==
  /\ l <= Len(T) /\ T[l].e \in {"op", "robs"}
  /\ drift \/ (T[l].e = "op" /\ ~ENABLED Conform(T[l])) \/ (T[l].e = "robs" /\ ~ENABLED (RootWait /\ ev'.obs = T[l].obs))
  /\ drift' = TRUE /\ (IF Len(seen) > 0 /\ seen[1].k = "scenario" THEN TRUE ELSE NoteDrift(l))
  /\ seen' = See(IF T[l].e = "op" THEN T[l].p ELSE "root", T[l].obs)
  /\ UNCHANGED <<vars, omap>>
  /\ l' = l + 1 /\ Progress(l')

TEnd ==
  /\ l <= Len(T) /\ T[l].e = "end"
  /\ drift' = (drift \/ ~Quiescent)
  /\ IF drift' /\ ~drift THEN NoteDrift(l) ELSE TRUE
  /\ UNCHANGED <<vars, seen, omap>>
  /\ l' = l + 1 /\ Progress(l')

TBegin ==
  /\ l <= Len(T) /\ T[l].e = "begin"
  /\ ResetScen(ScenOf(T[l]))
  /\ seen' = Seed(T[l]) /\ drift' = ~Modelled(T[l]) /\ omap' = <<>>
  /\ l' = l + 1 /\ Progress(l')

TNext == TOp \/ TRobs \/ TDrift \/ TEnd \/ TBegin
TSpec == TInit /\ [][TNext]_<<vars, l, seen, drift, omap>>

NoRace == MM!NoRace(mm)

\* ---------------- abstract monitor of C08 (observations only) ----------------
Count2(v) == Len(SelectSeq(seen, LAMBDA s : s.k \in {"call", "drop"} /\ s.v = v))
AbsAtMostOnce == \A j \in JobIds : Count2(ToString(j)) <= 1
\* after Wait returned nothing runs
AbsWaitMeansDone == \A a, b \in 1..Len(seen) : (a < b /\ seen[a].k = "wait_returned") => seen[b].k # "call"
\* Stop (not HardStop) runs everything: a Drop is only for jobs submitted after the stop request began
\* (chain scenarios: a follow-up exists only when its predecessor was Called)
ChainScen == Len(seen) > 0 /\ seen[1].k = "scenario" /\ seen[1].v \in {"softonly:1", "stop:1", "soft:1", "hard:1"}
CalledJ(j) == \E n \in 1..Len(seen) : seen[n].k = "call" /\ seen[n].v = ToString(j)
AbsEndOK(t) ==
  /\ t.status = "ok"
  /\ \A j \in AllJobs : Count2(ToString(j)) = (IF ChainScen /\ j % 10 # 1 /\ ~CalledJ(j - 1) THEN 0 ELSE 1)
AbsEnd == (l > 1 /\ l - 1 <= Len(T) /\ T[l - 1].e = "end") => AbsEndOK(T[l - 1])
\* SoftStop stops only when no job is queued or running: while a job runs the pool accepts its follow-up, so under
\* "SoftStop and nothing else" a job that was Called never has its follow-up Dropped
Has(k, j) == \E n \in 1..Len(seen) : seen[n].k = k /\ seen[n].v = ToString(j)
AbsSoftStopKeepsFollowUps ==
  (Len(seen) > 0 /\ seen[1].k = "scenario" /\ seen[1].v = "softonly:1") =>
     \A j \in JobIds : ~(Has("call", j) /\ Has("drop", j + 1) /\ (j + 1) \in JobIds /\ (j + 1) \div 10 = j \div 10)
AbsNoUseAfterReturn == \A n \in 1..Len(seen) : seen[n].k # "use_after_return"

Accepted ==
  /\ PrintT(<<"SITES", ToJson(TLCGet(1))>>)
  /\ PrintT(<<"DRIFT", ToJson(TLCGet(3))>>)
  /\ PrintT(<<"REACHED", TLCGet(2), Len(T) + 1>>)
  /\ TLCGet(2) = Len(T) + 1
=============================================================================
