----------------------------- MODULE FiberSync -----------------------------
(***************************************************************************)
(* The std contracts of mutex, timed_mutex, recursive(_timed)_mutex,        *)
(* shared(_timed)_mutex, condition_variable, this_thread::sleep_for,        *)
(* thread::join and thread-local storage, as a state machine over the       *)
(* begin / end observations of API calls (property C18).                    *)
(*                                                                         *)
(* Every API call of a fiber is logged as {"k":"b","v":op} before the call  *)
(* and {"k":"e","v":op:result} after it; the controller's clock jumps are   *)
(* "time" records.  A completed acquisition takes effect at its end         *)
(* observation, a release at its begin observation (the lock is already     *)
(* free for others while unlock() is still returning).  While a call is     *)
(* pending the specification remembers whether the lock was ever            *)
(* incompatible with it (a failing try_lock needs that), whether the clock  *)
(* passed the deadline (a failing timed acquisition, a timed-out wait and   *)
(* the end of a sleep need that) and whether a notify happened (a wait that *)
(* reports no_timeout needs that).                                          *)
(*                                                                         *)
(* The state is one record so that a trace line carrying several            *)
(* observations can be applied in sequence.                                 *)
(***************************************************************************)
EXTENDS Naturals, Sequences, FiniteSets, TLC

CONSTANTS Fibers       \* e.g. {"F1","F2","F3"}; children of join are named "<fiber>c"

Excl  == {"l", "t", "f"}
Shrd  == {"s", "y", "g"}
Timed == {"f", "g"}
Tries == {"t", "y"}

\* must: a pending wait_for that was notified while it was blocked and before its deadline -- it has to report no_timeout
NoPend == [op |-> "-", incompat |-> FALSE, time |-> FALSE, notified |-> FALSE, must |-> FALSE]

S0(lt) ==
  [ lt |-> lt,
    owner |-> "-", count |-> 0,         \* exclusive holder and recursion depth
    sh |-> {},                          \* shared holders
    pend |-> [f \in Fibers |-> NoPend],
    fin |-> {},                         \* children that finished
    bad |-> {} ]

Recursive(S) == S.lt \in {"recursive", "recursive_timed"}

\* is an acquisition `op' by fiber f incompatible with the holders in S ?
Incompat(S, f, op) ==
  IF op \in Excl THEN (S.owner # "-" /\ ~(Recursive(S) /\ S.owner = f)) \/ S.sh # {}
  ELSE IF op \in Shrd THEN S.owner # "-"
  ELSE FALSE

\* after any change: every pending acquisition remembers an incompatible moment
Refresh(S) ==
  [S EXCEPT !.pend = [f \in Fibers |-> IF S.pend[f].op \in Excl \cup Shrd /\ Incompat(S, f, S.pend[f].op)
                                        THEN [S.pend[f] EXCEPT !.incompat = TRUE] ELSE S.pend[f]]]

Bad(S, msg) == [S EXCEPT !.bad = @ \cup {msg}]

Begin(S, f, op) ==
  LET S1 == [S EXCEPT !.pend[f] = [NoPend EXCEPT !.op = op]] IN
  CASE op = "u" -> \* release takes effect now
         IF S.owner # f THEN Bad(S1, <<"unlock by a fiber that does not own the lock", f>>)
         ELSE Refresh([S1 EXCEPT !.count = S.count - 1, !.owner = IF S.count = 1 THEN "-" ELSE f])
    [] op = "r" ->
         IF f \notin S.sh THEN Bad(S1, <<"unlock_shared by a fiber that does not hold it", f>>)
         ELSE Refresh([S1 EXCEPT !.sh = S.sh \ {f}])
    [] op \in {"n", "N", "F"} -> [S1 EXCEPT !.pend = [g \in Fibers |-> IF g # f /\ S1.pend[g].op = "w"
                                                                           THEN [S1.pend[g] EXCEPT !.notified = TRUE] ELSE S1.pend[g]]]
    [] OTHER -> Refresh(S1)

Acquire(S, f, op) ==
  IF op \in Excl THEN [S EXCEPT !.owner = f, !.count = S.count + 1] ELSE [S EXCEPT !.sh = S.sh \cup {f}]

End(S, f, op, res) ==
  LET p == S.pend[f]
      S1 == [S EXCEPT !.pend[f] = NoPend]
  IN
  IF p.op # op THEN Bad(S1, <<"end without begin", f, op>>)
  ELSE CASE op \in Excl \cup Shrd /\ res = "1" ->
              \* success: the lock is really held in the requested mode, so it must be compatible now
              IF Incompat(S, f, op) THEN Bad(Acquire(S1, f, op), <<"incompatible holders admitted", f, op, S.owner, S.sh>>)
              ELSE Refresh(Acquire(S1, f, op))
         [] op \in Tries /\ res = "0" ->
              IF p.incompat THEN S1 ELSE Bad(S1, <<"try acquisition failed although the lock was compatible throughout", f, op>>)
         [] op \in Timed /\ res = "0" ->
              IF p.time THEN S1 ELSE Bad(S1, <<"timed acquisition failed before the deadline", f, op>>)
         [] op = "w" /\ res = "timeout" ->
              IF p.must THEN Bad(S1, <<"wait_for timed out although it was notified while blocked, before its deadline", f>>)
              ELSE IF p.time THEN S1 ELSE Bad(S1, <<"wait_for reported timeout before the deadline", f>>)
         [] op = "w" /\ res = "no_timeout" ->
              IF p.notified THEN S1 ELSE Bad(S1, <<"wait_for reported no_timeout without a notify", f>>)
         [] op \in {"n", "N", "F"} ->
              \* the notify call is over.  The notifier has held the condition variable's mutex since before the call, so a
              \* fiber whose wait is still pending released it inside wait before that: by the std contract it was blocked
              \* on the condition variable during the call, and a notify_all (or a notify_one when it is the only one)
              \* that came before its deadline wakes it
              LET Ws == {g \in Fibers \ {f} : S1.pend[g].op = "w"}
                  all == op \in {"N", "F"} \/ Cardinality(Ws) = 1
              IN  [S1 EXCEPT !.pend = [g \in Fibers |-> IF g \in Ws /\ all /\ ~S1.pend[g].time
                                                          THEN [S1.pend[g] EXCEPT !.must = TRUE] ELSE S1.pend[g]]]
         [] op = "z" ->
              IF p.time THEN S1 ELSE Bad(S1, <<"sleep_for returned before its deadline", f>>)
         [] op = "j" ->
              IF (f \o "c") \in S.fin THEN S1 ELSE Bad(S1, <<"join returned before the thread function finished", f>>)
         [] op = "x" ->
              IF res = "ok" THEN S1 ELSE Bad(S1, <<"thread-local pointer of another fiber observed", f>>)
         [] OTHER -> S1

TimePassed(S) == [S EXCEPT !.pend = [f \in Fibers |-> [S.pend[f] EXCEPT !.time = TRUE]]]
ChildFin(S, who) == [S EXCEPT !.fin = @ \cup {who \o "c"}]

\* holders are always compatible (exclusion), checked on every state
Exclusion(S) == ~(S.owner # "-" /\ S.sh # {}) /\ (S.count > 1 => Recursive(S))
=============================================================================
