SPECIFICATION PSpec
CONSTANTS
  MaxC = 4
  MaxW = 2
  Opts = {"00", "01", "10", "11"}
  WorkerCounts = {2}
  P1s = {"r", "w"}
  P2s = {"w", "R"}
  P3s = {"r", "W", "w"}
  P4s = {"", "w"}
INVARIANTS
  Exclusion GrantedAtMostOnce GrantedAtQuiescence CleanAtQuiescence CountsCoverHolders PNoStuck
VIEW PView
CHECK_DEADLOCK TRUE
