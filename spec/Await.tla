-------------------------------- MODULE Await --------------------------------
(***************************************************************************)
(* A coroutine awaiting 1..2 unique futures that producers complete         *)
(* concurrently (property C13), one action per slice.                       *)
(*                                                                         *)
(* Code map                                                                 *)
(*   include/yaclib/coro/await.hpp  operator co_await(Future&&) ->          *)
(*        AwaitSingleAwaiter; Await(f) -> AwaitAwaiter<Handle, false>:      *)
(*        await_ready = !Empty() (acquire load); await_suspend =            *)
(*        SetCallback(promise) (load, CAS); false = continue at once        *)
(*   await_sticky.hpp  AwaitAwaiter<Handle, true>: the awaiter is the       *)
(*        callback, Call() = promise._executor->Submit(promise)             *)
(*   detail/await_awaiter.hpp  MultiAwaitAwaiter<AwaitEvent<Sticky>>:       *)
(*        counter n + 1, SetCallbacksStatic / Dynamic register the event in *)
(*        every future (load, CAS) and subtract the ones that were ready    *)
(*        (relaxed fetch_sub, also by 0), await_ready = counter == 1        *)
(*        (acquire load), await_suspend = SubEqual(1); completions call     *)
(*        AwaitEvent::Here = SubEqual(1); the last decrement resumes        *)
(*        (inline: Here of the promise; sticky: Submit)                     *)
(*   detail/await_on_awaiter.hpp  AwaitOnAwaiter (counter 1: the completion *)
(*        does SubEqual(1) and submits; a failed SetCallback submits at     *)
(*        once) and MultiAwaitOnAwaiter (never ready; await_suspend =       *)
(*        SubEqual(1), the last one submits to the named executor)          *)
(*   detail/promise_type.hpp  final_suspend -> SetResult (exchange on the   *)
(*        coroutine's own callback word); Drop() on a rejecting executor:   *)
(*        Store(StopTag) + SetResult, the frame is destroyed with the last  *)
(*        reference                                                         *)
(* The coroutine is a passive object: after a suspension it runs inside the *)
(* slices of the producer that completes the await.                         *)
(***************************************************************************)
EXTENDS Naturals, Sequences, FiniteSets, TLC

CONSTANTS Forms, Ns, OutSets, Execs     \* explored by Init

Idx == 1..2
S(i) == ToString(i)
PName(i) == "P" \o S(i)
Prods == {PName(i) : i \in Idx}
Proc == {"K"} \cup Prods
PIdx(p) == CHOOSE i \in Idx : PName(i) = p

ALocs == {"cnt", "kcb"} \cup {"cb" \o S(i) : i \in Idx} \cup {"gate" \o S(i) : i \in Idx}
PLocs == {"frame"} \cup {"res" \o S(i) : i \in Idx}
MM == INSTANCE MemModel WITH MProc <- Proc, MALoc <- ALocs, MPLoc <- PLocs

VARIABLES scen,     \* [form, n, outs: sequence of "v" | "x", exec: "here" | "stop"]
          cb,       \* callback word of future i: "0" | "@K.a0" | "MAX"
          cnt,      \* the event's counter (n = 2, and AwaitOn with n = 1)
          kcb,      \* callback word of the coroutine's own future
          pc, ki,   \* program counters; index of the future K registers on
          wcount,   \* futures K registered on
          coro,     \* "running" | "suspended" | "finished" | "dropped"
          resumes,  \* how often the coroutine went on after the await, and what it saw: sequence of [all, seen]
          err, ev, mm

vars == <<scen, cb, cnt, kcb, pc, ki, wcount, coro, resumes, err, ev, mm>>

N == scen.n
Used == 1..N
Multi == N = 2
Pay(i) == "v" \o S(10 + i)
OutDesc(i) == IF scen.outs[i] = "v" THEN Pay(i) ELSE "exc:e" \o S(i)
CbObj(i) == "c" \o S(i) \o ".cb"
Gate(i) == "gate" \o S(i)
Ptr == "@K.a0"

Ob(k, v) == [k |-> k, v |-> v]
W(l) == [k |-> "W", l |-> l]
R(l) == [k |-> "R", l |-> l]
Ev(p, a, o, loc, old, new, ok, obs, done, site, post) ==
  [p |-> p, a |-> a, o |-> o, loc |-> loc, old |-> old, new |-> new, ok |-> ok, spur |-> FALSE, obs |-> obs, done |-> done,
   site |-> site, post |-> post]
NoEv == Ev("-", "-", "-", "cnt", "-", "-", TRUE, <<>>, FALSE, "-", <<>>)

Chars(s) == CASE s = "v" -> <<"v">> [] s = "x" -> <<"x">> [] s = "vv" -> <<"v", "v">> [] s = "vx" -> <<"v", "x">>
              [] s = "xv" -> <<"x", "v">> [] s = "xx" -> <<"x", "x">>

I0(s) ==
  [ scen |-> s,
    cb |-> [i \in Idx |-> "0"],
    cnt |-> IF s.n = 2 THEN 3 ELSE 1,
    kcb |-> "0",
    pc |-> [p \in Proc |-> IF p = "K" THEN "start" ELSE IF PIdx(p) <= s.n THEN "gate" ELSE "done"],
    ki |-> 1, wcount |-> 0, coro |-> "running", resumes |-> <<>>, err |-> {}, ev |-> NoEv,
    mm |-> MM!PWrite(MM!MInit, "K", "frame") ]

InitScen(s) ==
  LET i == I0(s) IN
  /\ scen = i.scen /\ cb = i.cb /\ cnt = i.cnt /\ kcb = i.kcb /\ pc = i.pc /\ ki = i.ki /\ wcount = i.wcount /\ coro = i.coro
  /\ resumes = i.resumes /\ err = i.err /\ ev = i.ev /\ mm = i.mm
ResetScen(s) ==
  LET i == I0(s) IN
  /\ scen' = i.scen /\ cb' = i.cb /\ cnt' = i.cnt /\ kcb' = i.kcb /\ pc' = i.pc /\ ki' = i.ki /\ wcount' = i.wcount /\ coro' = i.coro
  /\ resumes' = i.resumes /\ err' = i.err /\ ev' = i.ev /\ mm' = i.mm

\* co_await Future is a single-future form; a rejecting executor only matters to the forms that use one
Init == \E f \in Forms, n \in Ns, o \in OutSets, e \in Execs :
           /\ Len(Chars(o)) = n /\ (f = "fut" => n = 1) /\ (e = "stop" => f \in {"sticky", "on"})
           /\ InitScen([form |-> f, n |-> n, outs |-> Chars(o), exec |-> e])

(***************************************************************************)
(* The coroutine goes on after the await (in the tail of the current slice  *)
(* of process p), or is dropped by a rejecting executor                     *)
(***************************************************************************)
RECURSIVE Seen(_)
Seen(i) == IF i > N THEN "" ELSE (IF cb[i] = "MAX" THEN OutDesc(i) ELSE "not_ready") \o (IF i < N THEN "+" ELSE "") \o Seen(i + 1)
AllDone == \A i \in Used : cb[i] = "MAX"
RECURSIVE ResReads(_)
ResReads(i) == IF i > N THEN <<>> ELSE <<R("res" \o S(i))>> \o ResReads(i + 1)

\* viaexec: the resumption goes through the executor (sticky / on); otherwise inline
\* returns [pc, obs, post, coro, rec]
GoOn(viaexec) ==
  IF viaexec /\ scen.exec = "stop"
    THEN [pc |-> "fin", obs |-> <<Ob("rejected", "")>>, post |-> <<R("frame"), W("frame")>>, coro |-> "dropped", rec |-> <<>>]
    ELSE [pc |-> "fin",
          obs |-> (IF viaexec THEN <<Ob("submitted", "")>> ELSE <<>>) \o <<Ob("resumed", Seen(1)), Ob("local_dtor", "")>>,
          post |-> <<R("frame"), W("frame")>> \o ResReads(1), coro |-> "running",
          rec |-> <<[all |-> AllDone, seen |-> Seen(1)]>>]
Sticky == scen.form = "sticky"
OnForm == scen.form = "on"

\* state effects of GoOn for process p
GoFx(p, g) ==
  /\ pc' = [pc EXCEPT ![p] = g.pc]
  /\ coro' = g.coro
  /\ resumes' = resumes \o g.rec

(***************************************************************************)
(* K: starts the coroutine; it runs up to its suspension                    *)
(***************************************************************************)
\* the coroutine body up to the first operation of the await
KStart ==
  /\ pc.K = "start"
  /\ pc' = [pc EXCEPT !.K = IF Multi THEN "reg_l" ELSE IF OnForm THEN "s_l" ELSE "ready"]
  /\ ev' = Ev("K", "none", "-", "cnt", "-", "-", TRUE, (IF Sticky THEN <<Ob("submitted", "")>> ELSE <<>>) \o <<Ob("started", "")>>,
              FALSE, "Coro.start", <<W("frame")>>)
  /\ UNCHANGED <<scen, cb, cnt, kcb, ki, wcount, coro, resumes, err>>

\* n = 1: await_ready = !Empty()
KReady ==
  /\ pc.K = "ready"
  /\ IF cb[1] = "MAX"
       THEN LET g == GoOn(FALSE) IN
            /\ GoFx("K", g)
            /\ ev' = Ev("K", "load", CbObj(1), "cb1", "MAX", "MAX", TRUE, g.obs, FALSE, "Await.ready.load", g.post)
       ELSE /\ pc' = [pc EXCEPT !.K = "s_l"]
            /\ ev' = Ev("K", "load", CbObj(1), "cb1", cb[1], cb[1], TRUE, <<>>, FALSE, "Await.ready.load", <<W("frame")>>)
            /\ UNCHANGED <<coro, resumes>>
  /\ UNCHANGED <<scen, cb, cnt, kcb, ki, wcount, err>>

\* n = 1: SetCallback (load, CAS); a future that is already complete does not suspend: AwaitOn submits at once
KSetLoad ==
  /\ pc.K = "s_l"
  /\ IF cb[1] = "MAX"
       THEN LET g == GoOn(OnForm) IN
            /\ GoFx("K", g)
            /\ ev' = Ev("K", "load", CbObj(1), "cb1", "MAX", "MAX", TRUE, g.obs, FALSE, "SetCallback.load", g.post)
       ELSE /\ pc' = [pc EXCEPT !.K = "s_c"]
            /\ ev' = Ev("K", "load", CbObj(1), "cb1", cb[1], cb[1], TRUE, <<>>, FALSE, "SetCallback.load", <<>>)
            /\ UNCHANGED <<coro, resumes>>
  /\ UNCHANGED <<scen, cb, cnt, kcb, ki, wcount, err>>

KSetCas ==
  /\ pc.K = "s_c"
  /\ IF cb[1] = "0"
       THEN /\ cb' = [cb EXCEPT ![1] = Ptr]
            /\ coro' = "suspended"
            /\ pc' = [pc EXCEPT !.K = "done"]
            /\ ev' = Ev("K", "cas", CbObj(1), "cb1", "0", Ptr, TRUE, <<>>, TRUE, "SetCallback.cas", <<>>)
            /\ UNCHANGED resumes
       ELSE LET g == GoOn(OnForm) IN
            /\ GoFx("K", g)
            /\ ev' = Ev("K", "cas", CbObj(1), "cb1", cb[1], cb[1], FALSE, g.obs, FALSE, "SetCallback.cas", g.post)
            /\ UNCHANGED cb
  /\ UNCHANGED <<scen, cnt, kcb, ki, wcount, err>>

\* n = 2: the awaiter's constructor registers the event in every future
AfterReg == "reg_f"
KRegLoad ==
  /\ pc.K = "reg_l"
  /\ LET i == ki IN
     IF cb[i] = "MAX"
       THEN /\ ki' = IF i < N THEN i + 1 ELSE i
            /\ pc' = [pc EXCEPT !.K = IF i < N THEN "reg_l" ELSE AfterReg]
            /\ ev' = Ev("K", "load", CbObj(i), "cb" \o S(i), "MAX", "MAX", TRUE, <<>>, FALSE, "SetCallback.load", <<>>)
       ELSE /\ pc' = [pc EXCEPT !.K = "reg_c"] /\ ki' = ki
            /\ ev' = Ev("K", "load", CbObj(i), "cb" \o S(i), cb[i], cb[i], TRUE, <<>>, FALSE, "SetCallback.load", <<>>)
  /\ UNCHANGED <<scen, cb, cnt, kcb, wcount, coro, resumes, err>>

KRegCas ==
  /\ pc.K = "reg_c"
  /\ LET i == ki
         ok == cb[i] = "0"
     IN  /\ cb' = IF ok THEN [cb EXCEPT ![i] = Ptr] ELSE cb
         /\ wcount' = IF ok THEN wcount + 1 ELSE wcount
         /\ ki' = IF i < N THEN i + 1 ELSE i
         /\ pc' = [pc EXCEPT !.K = IF i < N THEN "reg_l" ELSE AfterReg]
         /\ ev' = Ev("K", "cas", CbObj(i), "cb" \o S(i), cb[i], cb'[i], ok, <<>>, FALSE, "SetCallback.cas", <<>>)
  /\ UNCHANGED <<scen, cnt, kcb, coro, resumes, err>>

\* count.fetch_sub(n - wait_count, relaxed), also when that is 0
KRegFix ==
  /\ pc.K = "reg_f"
  /\ LET d == N - wcount IN
     /\ cnt' = cnt - d
     /\ pc' = [pc EXCEPT !.K = IF OnForm THEN "sub" ELSE "get"]
     /\ ev' = Ev("K", "fsub", "cnt", "cnt", S(cnt), S(cnt - d), TRUE, <<>>, FALSE, "SetCallbacks.fsub", <<W("frame")>>)
  /\ UNCHANGED <<scen, cb, kcb, ki, wcount, coro, resumes, err>>

\* await_ready: counter == 1 (acquire)
KGet ==
  /\ pc.K = "get"
  /\ IF cnt = 1
       THEN LET g == GoOn(FALSE) IN
            /\ GoFx("K", g)
            /\ ev' = Ev("K", "load", "cnt", "cnt", "1", "1", TRUE, g.obs, FALSE, "Await.ready.count.load", g.post)
       ELSE /\ pc' = [pc EXCEPT !.K = "sub"]
            /\ ev' = Ev("K", "load", "cnt", "cnt", S(cnt), S(cnt), TRUE, <<>>, FALSE, "Await.ready.count.load", <<W("frame")>>)
            /\ UNCHANGED <<coro, resumes>>
  /\ UNCHANGED <<scen, cb, cnt, kcb, ki, wcount, err>>

\* await_suspend: SubEqual(1); the last decrement means every future is complete: no suspension (AwaitOn: submit)
KSub ==
  /\ pc.K = "sub"
  /\ cnt' = cnt - 1
  /\ IF cnt = 1
       THEN LET g == GoOn(OnForm) IN
            /\ GoFx("K", g)
            /\ ev' = Ev("K", "fsub", "cnt", "cnt", "1", "0", TRUE, g.obs, FALSE, "Await.suspend.fsub+last", g.post)
       ELSE /\ coro' = "suspended"
            /\ pc' = [pc EXCEPT !.K = "done"]
            /\ ev' = Ev("K", "fsub", "cnt", "cnt", S(cnt), S(cnt - 1), TRUE, <<>>, TRUE, "Await.suspend.fsub", <<>>)
            /\ UNCHANGED resumes
  /\ UNCHANGED <<scen, cb, kcb, ki, wcount, err>>

(***************************************************************************)
(* Producers                                                                *)
(***************************************************************************)
PGate(p) ==
  LET i == PIdx(p) IN
  /\ pc[p] = "gate"
  /\ pc' = [pc EXCEPT ![p] = "xchg"]
  /\ ev' = Ev(p, "store", Gate(i), Gate(i), "0", "1", TRUE, <<>>, FALSE, "Harness.gate", <<W("res" \o S(i))>>)
  /\ UNCHANGED <<scen, cb, cnt, kcb, ki, wcount, coro, resumes, err>>

\* SetResult: exchange; with the awaiter / promise / event there: n = 1 inline: resume right here; n = 1 sticky: Submit;
\* AwaitOn and n = 2: the counter decides
PXchg(p) ==
  LET i == PIdx(p)
      att == cb[i] = Ptr
  IN
  /\ pc[p] = "xchg"
  /\ cb' = [cb EXCEPT ![i] = "MAX"]
  /\ IF ~att
       THEN /\ pc' = [pc EXCEPT ![p] = "done"]
            /\ ev' = Ev(p, "xchg", CbObj(i), "cb" \o S(i), cb[i], "MAX", TRUE, <<>>, TRUE, "SetResult.xchg", <<>>)
            /\ UNCHANGED <<coro, resumes, err>>
       ELSE IF Multi \/ OnForm
         THEN /\ pc' = [pc EXCEPT ![p] = "p_sub"]
              /\ ev' = Ev(p, "xchg", CbObj(i), "cb" \o S(i), cb[i], "MAX", TRUE, <<>>, FALSE, "SetResult.xchg", <<>>)
              /\ UNCHANGED <<coro, resumes, err>>
         ELSE \* evaluated with the new word: the coroutine sees this future complete
              LET seen == [k \in Idx |-> IF k = i THEN "MAX" ELSE cb[k]]
                  all == \A k \in Used : seen[k] = "MAX"
                  g == GoOn(Sticky)
                  sd == OutDesc(1)
                  obs == IF g.coro = "dropped" THEN g.obs
                         ELSE (IF Sticky THEN <<Ob("submitted", "")>> ELSE <<>>) \o <<Ob("resumed", sd), Ob("local_dtor", "")>>
              IN
              /\ pc' = [pc EXCEPT ![p] = "fin"]
              /\ coro' = g.coro
              /\ resumes' = IF g.coro = "dropped" THEN resumes ELSE Append(resumes, [all |-> all, seen |-> sd])
              /\ err' = IF coro # "suspended" THEN err \cup {<<"completion resumes a coroutine that is not suspended", p>>} ELSE err
              /\ ev' = Ev(p, "xchg", CbObj(i), "cb" \o S(i), cb[i], "MAX", TRUE, obs, FALSE, "SetResult.xchg", g.post)
  /\ UNCHANGED <<scen, cnt, kcb, ki, wcount>>

\* AwaitEvent / AwaitOnEvent::Here = SubEqual(1); the last decrement resumes (inline) or submits (sticky / on)
PSub(p) ==
  /\ pc[p] = "p_sub"
  /\ cnt' = cnt - 1
  /\ IF cnt = 1
       THEN LET g == GoOn(Sticky \/ OnForm) IN
            /\ GoFx(p, g)
            /\ err' = IF coro # "suspended" THEN err \cup {<<"last decrement resumes a coroutine that is not suspended", p>>} ELSE err
            /\ ev' = Ev(p, "fsub", "cnt", "cnt", "1", "0", TRUE, g.obs, FALSE, "Event.Sub.fsub+last", g.post)
       ELSE /\ pc' = [pc EXCEPT ![p] = "done"]
            /\ ev' = Ev(p, "fsub", "cnt", "cnt", S(cnt), S(cnt - 1), TRUE, <<>>, TRUE, "Event.Sub.fsub", <<>>)
            /\ UNCHANGED <<coro, resumes, err>>
  /\ UNCHANGED <<scen, cb, kcb, ki, wcount>>

\* the coroutine completes its own future: co_return after a resumption, StopError after a Drop
Fin(p) ==
  /\ pc[p] = "fin"
  /\ kcb' = "MAX"
  /\ coro' = IF coro = "dropped" THEN "dropped" ELSE "finished"
  /\ pc' = [pc EXCEPT ![p] = "done"]
  /\ ev' = Ev(p, "xchg", "K.a0.kcb", "kcb", kcb, "MAX", TRUE, <<>>, TRUE, "Coro.SetResult.xchg", <<>>)
  /\ UNCHANGED <<scen, cb, cnt, ki, wcount, resumes, err>>

Step == \/ KStart \/ KReady \/ KSetLoad \/ KSetCas \/ KRegLoad \/ KRegCas \/ KRegFix \/ KGet \/ KSub
        \/ \E p \in Prods : PGate(p) \/ PXchg(p) \/ PSub(p)
        \/ \E p \in Proc : Fin(p)

Quiescent == \A p \in Proc : pc[p] = "done"

(***************************************************************************)
(* Properties (C13)                                                         *)
(***************************************************************************)
\* the coroutine resumes from the co_await at most once, only after everything it awaited has happened, and sees the outcomes
ResumedOnce == Len(resumes) <= 1
ResumedAfterAll == \A k \in 1..Len(resumes) : resumes[k].all
RECURSIVE FullOutcome(_)
FullOutcome(i) == IF i > N THEN "" ELSE OutDesc(i) \o (IF i < N THEN "+" ELSE "") \o FullOutcome(i + 1)
SeesOutcome == \A k \in 1..Len(resumes) : resumes[k].seen = FullOutcome(1)
\* at the end: resumed exactly once, or (only through a rejecting executor) dropped and completed with StopError
Rejectable == scen.exec = "stop" /\ scen.form \in {"sticky", "on"}
EndState == Quiescent => /\ kcb = "MAX"
                         /\ \/ coro = "finished" /\ Len(resumes) = 1
                            \/ coro = "dropped" /\ Len(resumes) = 0 /\ Rejectable
\* a coroutine that had to go through a rejecting executor never runs on
DropMeansNoResume == coro = "dropped" => Len(resumes) = 0
ProtocolOK == err = {}
CounterSane == cnt <= 3

ExpectedFinal ==
  [result |-> IF coro = "dropped" THEN "stop" ELSE "v7", locals |-> "1", locals_live |-> "0", live |-> "0"]
=============================================================================
