SPECIFICATION TSpec
CONSTANTS
  MaxC = 4
  MaxW = 3
  Opts = {"10"}
  WorkerCounts = {2}
  P1s = {"r"}
  P2s = {"w"}
  P3s = {""}
  P4s = {""}
INVARIANTS
  Exclusion GrantedAtMostOnce GrantedAtQuiescence CleanAtQuiescence CountsCoverHolders NoRace
  AbsExclusion AbsVisible AbsGrantedAtMostOnce AbsEnd
POSTCONDITION Accepted
CHECK_DEADLOCK FALSE
