------------------------------ MODULE Wait_MC ------------------------------
(* Bounded model of Wait.tla; memory orders from Wait_gen (extracted from the running code). *)
EXTENDS Wait, Wait_gen, Json

VARIABLE hist

O(site) == IF site \in DOMAIN OrdTable THEN OrdTable[site] ELSE [o |-> "sc", f |-> "sc", fences |-> <<>>]

MCInit == Init /\ hist = <<>>

MCStep ==
  /\ Step
  /\ mm' = MM!MStep(mm, ev'.p, ev'.a, ev'.loc, ev'.ok, O(ev'.site).o, O(ev'.site).f, O(ev'.site).fences, ev'.post)

MCNext ==
  \/ MCStep /\ hist' = Append(hist, ev')
  \/ Timeout /\ UNCHANGED mm /\ hist' = Append(hist, ev')
  \/ Quiescent /\ UNCHANGED vars /\ UNCHANGED hist

MCSpec == MCInit /\ [][MCNext]_<<vars, hist>>

NoRace == MM!NoRace(mm)
NoStuck == (~ENABLED (MCStep \/ Timeout)) => Quiescent
View == vars
=============================================================================
