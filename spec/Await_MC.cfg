SPECIFICATION MCSpec
CONSTANTS
  KeepHist = FALSE
  Forms = {"fut", "await", "sticky", "on"}
  Ns = {1, 2}
  OutSets = {"v", "x", "vv", "vx", "xv"}
  Execs = {"here", "stop"}
INVARIANTS
  ResumedOnce ResumedAfterAll SeesOutcome EndState DropMeansNoResume ProtocolOK CounterSane NoRace NoStuck
VIEW View
CHECK_DEADLOCK TRUE
