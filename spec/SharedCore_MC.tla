---------------------------- MODULE SharedCore_MC ----------------------------
(* Bounded model of SharedCore: all scenarios of the cfg, all interleavings; memory orders from SharedCore_gen. *)
EXTENDS SharedCore, SharedCore_gen, Json

VARIABLE hist

O(site) == IF site \in DOMAIN OrdTable THEN OrdTable[site] ELSE [o |-> "sc", f |-> "sc", fences |-> <<>>]

MCInit == Init /\ hist = <<>>

\* fences: the model performs the acquire fence where the code was observed to perform one (SubEqual on the last reference)
FencesOf(e) == IF e.nf = 0 THEN <<>> ELSE O(e.site \o "+last").fences

MCStep ==
  /\ Step
  /\ mm' = MM!MStep(mm, ev'.p, ev'.a, Loc(ev'.o), ev'.ok, O(ev'.site).o, O(ev'.site).f, FencesOf(ev'), ev'.post)

MCNext ==
  \/ MCStep /\ hist' = Append(hist, ev')
  \/ RootDrain /\ UNCHANGED mm /\ hist' = Append(hist, ev')
  \/ Quiescent /\ UNCHANGED vars /\ UNCHANGED hist

MCSpec == MCInit /\ [][MCNext]_<<vars, hist>>

NoRace == MM!NoRace(mm)
NoStuck == (~ENABLED (MCStep \/ RootDrain)) => Quiescent
View == vars

PrintPaths ==
  (Quiescent /\ ~ENABLED RootDrain) =>
     PrintT(<<"BEHAVIOUR", ToJson([scen |-> [prod |-> scen.prod, weak |-> ToString(scen.weak)] @@ scen.ops, final |-> ExpectedFinal,
                                   evs |-> [i \in 1..Len(hist) |->
                                             [p |-> hist[i].p, a |-> hist[i].a, o |-> hist[i].o, old |-> hist[i].old,
                                              new |-> hist[i].new, ok |-> hist[i].ok, spur |-> hist[i].spur,
                                              obs |-> hist[i].obs, done |-> hist[i].done]]])>>)
=============================================================================
