------------------------------ MODULE CoroSeq ------------------------------
(***************************************************************************)
(* Sequential semantics of the coroutine layer as a reference interpreter   *)
(* (property C13; the coroutine clauses of C12 "a coroutine Task does       *)
(* nothing until started ... started by co_await / Await" and of C05 "a     *)
(* coroutine after co_await On(e) executes inside e").                      *)
(*                                                                         *)
(* A program is one main coroutine A (returning Future, SharedFuture or     *)
(* Task, the Task started in one of several ways) whose body is a sequence  *)
(* of statements, optionally a second coroutine B that awaits the same      *)
(* SharedFuture as A, two FIFO executors e1 / e2 that may start rejecting   *)
(* at their k-th submission, and a deterministic driver: run e1's queue,    *)
(* then e2's, then fulfil the pending promise of the lowest statement,      *)
(* until nothing is left.  TLC enumerates every program, checks the         *)
(* properties below ON THE INTERPRETER, and prints the expected log; the    *)
(* harness executable `cseq' runs the same program on the real coroutine    *)
(* layer in three configurations (symmetric transfer everywhere / not in    *)
(* final_suspend / nowhere) and every field must agree.                     *)
(*                                                                         *)
(* Statements <<op, a, b, c>>:                                              *)
(*   on1 on2      co_await On(e)                                            *)
(*   yield        co_await kYield         yieldx  co_await Yield()          *)
(*   cur          co_await CurrentExecutor()                                *)
(*   throw        the body throws                                           *)
(*   co  k t o    co_await (move of) a future of kind k (u plain unique,    *)
(*                n FutureOn(e2), s shared), t = r ready before / p         *)
(*                fulfilled later by the driver, o = v value, e StopError,  *)
(*                x exception                                               *)
(*   aw  k t v    co_await Await(f)      st  co_await AwaitSticky(f)        *)
(*   ao1 k t v    co_await AwaitOn(e1, f)                                   *)
(*   cot tm       co_await (move of) a Task; awt tm  co_await Await(task)   *)
(*                tm: cval con2 cthrow = coroutine Tasks, mkv mke =         *)
(*                MakeTask, sch2 sch2x = Schedule(e2, f), schs = Schedule on *)
(*                the inline executor that refuses everything              *)
(*                                                                         *)
(* What the code does and the interpreter therefore does too (named, not    *)
(* idealised): a coroutine resumed BY THE COMPLETION of what it awaited     *)
(* (plain co_await / Await of something still pending, a Task) inherits the *)
(* executor of the completed object, like a continuation attached without   *)
(* an executor; the awaited object itself keeps its executor.               *)
(***************************************************************************)
EXTENDS Naturals, Sequences, FiniteSets, TLC, Json

CONSTANTS Kinds, Starts, Rejs, Seconds, Simple, FutOps, FutKinds, Timings, Outcomes, TaskOps, Tmpls, MaxLen

VARIABLES prog,     \* the program
          out,      \* what the interpreter prescribes for it (computed by the one step Run)
          phase

CoTmpls == {"cval", "con2", "cthrow"}
Ex == {"e1", "e2"}

S0(o) == <<o, "-", "-", "-">>
Stmts == {S0(o) : o \in Simple}
         \cup (IF "co" \in FutOps THEN {<<"co", k, t, oc>> : k \in FutKinds, t \in Timings, oc \in Outcomes} ELSE {})
         \cup {<<o, k, t, "v">> : o \in FutOps \ {"co"}, k \in FutKinds, t \in Timings}
         \cup {<<o, tm, "-", "-">> : o \in TaskOps, tm \in Tmpls}

IsFut(s) == s[1] \in {"co", "aw", "st", "ao1"}
HasShared(body) == \E i \in 1..Len(body) : IsFut(body[i]) /\ body[i][2] = "s"
FirstShared(body) == CHOOSE i \in 1..Len(body) : /\ IsFut(body[i]) /\ body[i][2] = "s"
                                                 /\ \A j \in 1..(i - 1) : ~(IsFut(body[j]) /\ body[j][2] = "s")

RejOf(r) == CASE r = "99" -> [e1 |-> 9, e2 |-> 9] [] r = "09" -> [e1 |-> 0, e2 |-> 9] [] r = "19" -> [e1 |-> 1, e2 |-> 9]
              [] r = "29" -> [e1 |-> 2, e2 |-> 9] [] r = "90" -> [e1 |-> 9, e2 |-> 0] [] r = "91" -> [e1 |-> 9, e2 |-> 1]
              [] r = "00" -> [e1 |-> 0, e2 |-> 0] [] r = "11" -> [e1 |-> 1, e2 |-> 1]

CId(i) == "C" \o ToString(i)
MaxBody == 4
Idx(s) == CHOOSE i \in 1..MaxBody : ToString(i) = s
ChildSlot(c) == CHOOSE i \in 1..MaxBody : CId(i) = c
CoIds == {"A", "B"} \cup {CId(i) : i \in 1..MaxBody}

BBody == <<S0("on2"), <<"co", "s", "p", "v">>, S0("cur")>>
TmplBody(tm) == CASE tm = "cval" -> <<S0("cur")>> [] tm = "con2" -> <<S0("on2"), S0("cur")>>
                  [] tm = "cthrow" -> <<S0("cur"), S0("throw")>> [] OTHER -> <<>>
Body(p, c) == IF c = "A" THEN p.body ELSE IF c = "B" THEN BBody ELSE TmplBody(p.body[ChildSlot(c)][2])
Slot(p, c, i) == IF c = "A" THEN i ELSE IF c = "B" THEN FirstShared(p.body) ELSE 0

R(d, v) == [d |-> d, v |-> v]
RVal(n) == R("v" \o ToString(n), n)
RStop == R("stop", 0)
RExc(t) == R("exc" \o ToString(t), 0)

FutRes(p, slot) == LET oc == p.body[slot][4] IN
  CASE oc = "v" -> RVal(10 + slot) [] oc = "e" -> RStop [] OTHER -> RExc(10 + slot)
FExec(k) == IF k = "n" THEN "e2" ELSE "inline"      \* the executor of the awaited future's state

Co0(base) == [pc |-> 1, exec |-> "inline", acc |-> base, status |-> "new", res |-> R("-", 0), parent |-> "none"]

St0(p) == [p |-> p,
           co |-> [c \in CoIds |-> Co0(IF c \in {"A", "B"} THEN 0 ELSE 20)],
           q |-> [e \in Ex |-> <<>>], rej |-> RejOf(p.rej),
           sub |-> [e \in Ex |-> 0], calls |-> [e \in Ex |-> 0], drops |-> [e \in Ex |-> 0],
           fut |-> [i \in 1..Len(p.body) |->
                     [ready |-> IsFut(p.body[i]) /\ p.body[i][3] = "r", waiters |-> <<>>]],
           tres |-> [i \in 1..Len(p.body) |-> R("-", 0)],
           log |-> <<>>, begun |-> 0]

Log(st, who, what, obs, ctx) == [st EXCEPT !.log = Append(@, [who |-> who, what |-> what, obs |-> obs, ctx |-> ctx])]

Rev(s) == [i \in 1..Len(s) |-> s[Len(s) + 1 - i]]

RECURSIVE Exec(_, _, _), Finish(_, _, _, _, _), Resume(_, _, _), SubmitCo(_, _, _, _), DropCo(_, _, _),
          Complete(_, _, _), CallCo(_, _, _), Begin(_, _, _), FulfilW(_, _, _, _), StartTask(_, _, _, _, _)

TaskRes(st, i) == IF st.p.body[i][2] \in CoTmpls THEN st.co[CId(i)].res ELSE st.tres[i]

\* statement pc of coroutine c is complete: observation, next statement
Finish(st, c, ctx, obs, addv) ==
  LET i == st.co[c].pc IN
  Exec([Log(st, c, ToString(i), obs, ctx) EXCEPT !.co[c].pc = i + 1, !.co[c].acc = @ + addv, !.co[c].status = "run"],
       c, ctx)

\* a suspended coroutine is resumed (exactly where this is evaluated): it sees the outcome of what it awaited
Resume(st, c, ctx) ==
  LET p == st.p
      i == st.co[c].pc
      s == Body(p, c)[i]
      op == s[1]
      slot == Slot(p, c, i)
  IN  CASE op = "yieldx" -> Finish(st, c, ctx, st.co[c].exec, 0)
        [] op = "co"     -> Finish(st, c, ctx, FutRes(p, slot).d, FutRes(p, slot).v)
        [] op = "cot"    -> Finish(st, c, ctx, TaskRes(st, i).d, TaskRes(st, i).v)
        [] op = "awt"    -> Finish(st, c, ctx, TaskRes(st, i).d, 0)
        [] OTHER         -> Finish(st, c, ctx, "ok", 0)

Begin(st, c, ctx) ==
  Exec([Log(st, c, "begin", "", ctx) EXCEPT !.co[c].status = "run", !.begun = @ + 1], c, ctx)

CallCo(st, c, ctx) == IF st.co[c].status = "new" THEN Begin(st, c, ctx) ELSE Resume(st, c, ctx)

\* IExecutor::Submit of the coroutine's promise: Inline calls at once (nested), a stopped executor drops
SubmitCo(st, c, e, ctx) ==
  CASE e = "inline"  -> CallCo(st, c, ctx)
    [] e = "stopped" -> DropCo(st, c, ctx)
    [] OTHER -> IF st.sub[e] >= st.rej[e]
                  THEN DropCo([st EXCEPT !.sub[e] = @ + 1, !.drops[e] = @ + 1], c, ctx)
                  ELSE [st EXCEPT !.sub[e] = @ + 1, !.q[e] = Append(@, <<"co", c>>)]

\* PromiseType::Drop: the coroutine is completed with StopError where it stands
DropCo(st, c, ctx) == Complete([st EXCEPT !.co[c].status = "done", !.co[c].res = RStop], c, ctx)

\* the coroutine's Result is published: whoever awaits it (a Task awaited by A) resumes here and inherits its executor
Complete(st, c, ctx) ==
  LET par == st.co[c].parent IN
  IF par = "none" THEN st
  ELSE Resume([st EXCEPT !.co[par].exec = st.co[c].exec], par, ctx)

StartTask(st, c, ctx, i, tm) ==
  LET op == st.p.body[i][1] IN
  CASE tm \in CoTmpls ->
         \* the lazy coroutine starts right here, on the awaiting coroutine's executor
         Begin([st EXCEPT !.co[c].status = "susp", !.co[CId(i)].exec = st.co[c].exec, !.co[CId(i)].parent = c],
               CId(i), ctx)
    [] tm \in {"mkv", "mke"} ->
         LET r == IF tm = "mkv" THEN RVal(24) ELSE RStop IN
         Finish([st EXCEPT !.tres[i] = r, !.co[c].exec = "inline"], c, ctx, r.d, IF op = "cot" THEN r.v ELSE 0)
    [] tm = "schs" ->   \* Schedule(stopped inline executor, f): cancelled on the spot, f never runs
         Finish([st EXCEPT !.tres[i] = RStop, !.co[c].exec = "stopped"], c, ctx, "stop", 0)
    [] OTHER ->   \* Schedule(e2, f): the head is a job of e2
         IF st.sub["e2"] >= st.rej["e2"]
           THEN Finish([st EXCEPT !.sub["e2"] = @ + 1, !.drops["e2"] = @ + 1, !.tres[i] = RStop, !.co[c].exec = "e2"],
                       c, ctx, "stop", 0)
           ELSE [st EXCEPT !.sub["e2"] = @ + 1, !.q["e2"] = Append(@, <<"job", ToString(i)>>), !.co[c].status = "susp"]

Exec(st, c, ctx) ==
  LET p == st.p
      body == Body(p, c)
      r == st.co[c]
      i == r.pc
  IN
  IF i > Len(body)
    THEN Complete([Log(st, c, "end", "", ctx) EXCEPT !.co[c].status = "done", !.co[c].res = RVal(r.acc + 1)], c, ctx)
    ELSE
      LET s == body[i]
          op == s[1]
          slot == Slot(p, c, i)
      IN
      CASE op \in {"on1", "on2"} ->
             LET e == IF op = "on1" THEN "e1" ELSE "e2" IN
             SubmitCo([st EXCEPT !.co[c].exec = e, !.co[c].status = "susp"], c, e, ctx)
        [] op \in {"yield", "yieldx"} -> SubmitCo([st EXCEPT !.co[c].status = "susp"], c, r.exec, ctx)
        [] op = "cur" -> Finish(st, c, ctx, r.exec, 0)
        [] op = "throw" -> Complete([st EXCEPT !.co[c].status = "done", !.co[c].res = RExc(9)], c, ctx)
        [] op \in {"co", "aw", "st"} ->
             IF st.fut[slot].ready
               THEN \* already complete: the coroutine does not suspend and keeps its executor
                    Finish(st, c, ctx, IF op = "co" THEN FutRes(p, slot).d ELSE "ok",
                           IF op = "co" THEN FutRes(p, slot).v ELSE 0)
               ELSE [st EXCEPT !.co[c].status = "susp",
                               !.fut[slot].waiters = Append(@, <<c, IF op = "st" THEN "sticky" ELSE "inherit">>)]
        [] op = "ao1" ->
             LET st1 == [st EXCEPT !.co[c].exec = "e1", !.co[c].status = "susp"] IN
             IF st.fut[slot].ready THEN SubmitCo(st1, c, "e1", ctx)
             ELSE [st1 EXCEPT !.fut[slot].waiters = Append(@, <<c, "on">>)]
        [] OTHER -> StartTask(st, c, ctx, i, s[2])

\* the waiters of a completed future, most recently registered first
FulfilW(st, ws, fe, ctx) ==
  IF ws = <<>> THEN st
  ELSE LET c == Head(ws)[1] IN
       FulfilW(IF Head(ws)[2] = "inherit" THEN Resume([st EXCEPT !.co[c].exec = fe], c, ctx)
               ELSE SubmitCo(st, c, st.co[c].exec, ctx),
               Tail(ws), fe, ctx)

Fulfil(st, i, ctx) ==
  FulfilW([st EXCEPT !.fut[i].ready = TRUE, !.fut[i].waiters = <<>>], Rev(st.fut[i].waiters), FExec(st.p.body[i][2]), ctx)

CallJob(st, j, ctx) ==
  CASE j[1] = "co" -> CallCo(st, j[2], ctx)
    [] j[1] = "job" ->
         LET i == Idx(j[2])
             r == IF st.p.body[i][2] = "sch2" THEN RVal(25) ELSE RExc(8)
         IN  Resume([Log(st, "J" \o j[2], "run", "", ctx) EXCEPT !.tres[i] = r, !.co["A"].exec = "e2"], "A", ctx)
    [] OTHER -> Log(st, "P", j[2], FutRes(st.p, Idx(j[2])).d, ctx)

Pending(st) == {i \in 1..Len(st.p.body) : IsFut(st.p.body[i]) /\ ~st.fut[i].ready}
Min(S) == CHOOSE x \in S : \A y \in S : x <= y

RECURSIVE Drive(_, _)
Drive(st, fulfil) ==
  IF st.q["e1"] # <<>>
    THEN Drive(CallJob([st EXCEPT !.q["e1"] = Tail(@), !.calls["e1"] = @ + 1], Head(st.q["e1"]), "e1"), fulfil)
  ELSE IF st.q["e2"] # <<>>
    THEN Drive(CallJob([st EXCEPT !.q["e2"] = Tail(@), !.calls["e2"] = @ + 1], Head(st.q["e2"]), "e2"), fulfil)
  ELSE IF fulfil /\ Pending(st) # {} THEN Drive(Fulfil(st, Min(Pending(st)), "-"), fulfil)
  ELSE st

\* afterwards: Await / AwaitSticky / AwaitOn left the futures valid and ready, and a continuation attached without
\* an executor to the FutureOn(e2) runs on e2 (C05)
RECURSIVE PostAll(_, _)
PostAll(st, i) ==
  IF i > Len(st.p.body) THEN st
  ELSE LET s == st.p.body[i] IN
       IF s[1] \notin {"aw", "st", "ao1"} THEN PostAll(st, i + 1)
       ELSE LET st1 == Log(st, "F", ToString(i), FutRes(st.p, i).d, "-") IN
            IF s[2] # "n" THEN PostAll(st1, i + 1)
            ELSE IF st1.sub["e2"] >= st1.rej["e2"]
                   THEN PostAll(Log([st1 EXCEPT !.sub["e2"] = @ + 1, !.drops["e2"] = @ + 1], "P", ToString(i), "stop", "-"),
                                i + 1)
                   ELSE PostAll(Drive([st1 EXCEPT !.sub["e2"] = @ + 1, !.q["e2"] = Append(@, <<"post", ToString(i)>>)],
                                      TRUE), i + 1)

WithSecond(p) == p.second # "none"

StartA(st) ==
  LET s == st.p.start IN
  CASE s \in {"tf", "det"}   -> CallCo(st, "A", "-")
    [] s \in {"tf1", "det1"} -> SubmitCo([st EXCEPT !.co["A"].exec = "e1"], "A", "e1", "-")
    [] OTHER                 -> DropCo(st, "A", "-")      \* never started: cancelled on the stopped inline executor

Expected(p) ==
  LET st0 == St0(p)
      st1 == IF p.second = "before" THEN Begin(st0, "B", "-") ELSE st0
      st2 == IF p.kind # "task" THEN Begin(st1, "A", "-")
             ELSE StartA(Log(Drive(st1, FALSE), "M", "created", "", "-"))
      st3 == IF p.second = "after" THEN Begin(st2, "B", "-") ELSE st2
      st4 == PostAll(Drive(st3, TRUE), 1)
      st5 == IF WithSecond(p) THEN Log(st4, "B", "final", st4.co["B"].res.d, "-") ELSE st4
  IN  [log |-> st5.log,
       final |-> IF p.kind = "task" /\ p.start \in {"det", "det1", "drop"} THEN "detached" ELSE st5.co["A"].res.d,
       sub |-> st5.sub, calls |-> st5.calls, drops |-> st5.drops, begun |-> st5.begun,
       queues |-> st5.q, status |-> [c \in CoIds |-> st5.co[c].status]]

(***************************************************************************)
(* Programs.                                                                *)
(***************************************************************************)
Wf(p) == /\ (p.kind = "task") = (p.start # "-")
         /\ (p.second # "none") => HasShared(p.body)

\* one initial state per program (enumerated, never built as one set)
Init == \E k \in Kinds, s \in Starts \cup {"-"}, r \in Rejs, b \in Seconds, n \in 0..MaxLen :
          \E body \in [1..n -> Stmts] :
             /\ prog = [kind |-> k, start |-> s, rej |-> r, second |-> b, body |-> body]
             /\ Wf(prog)
             /\ out = <<>>
             /\ phase = "new"
Run == /\ phase = "new"
       /\ phase' = "done"
       /\ out' = Expected(prog)
       /\ UNCHANGED prog
Spec == Init /\ [][Run]_<<prog, out, phase>>

(***************************************************************************)
(* Properties of the interpreter (every program).                          *)
(***************************************************************************)
X == out
Done == phase = "done"
Entries(x) == {x.log[k] : k \in 1..Len(x.log)}
StmtOf(c, what) == Body(prog, c)[Idx(what)]
IsStmt(en) == en.who \in CoIds /\ en.what \notin {"begin", "end", "final"}

\* every job handed to e1 / e2 was Called xor Dropped and nothing is left queued
Balanced == Done => \A e \in Ex : X.sub[e] = X.calls[e] + X.drops[e] /\ X.queues[e] = <<>>
\* a coroutine resumes from each co_await at most once
ResumeOnce == Done => \A k1, k2 \in 1..Len(X.log) :
                (X.log[k1].who = X.log[k2].who /\ X.log[k1].what = X.log[k2].what) => k1 = k2
\* On(e) / AwaitOn(e1, ..) / a Schedule(e2) head: the code that follows runs inside that executor and nowhere else
WhereAsked == Done => \A en \in Entries(X) :
                /\ (IsStmt(en) /\ StmtOf(en.who, en.what)[1] = "on1") => en.ctx = "e1"
                /\ (IsStmt(en) /\ StmtOf(en.who, en.what)[1] = "on2") => en.ctx = "e2"
                /\ (IsStmt(en) /\ StmtOf(en.who, en.what)[1] = "ao1") => en.ctx = "e1"
                /\ (en.what = "run") => en.ctx = "e2"
\* a continuation attached without an executor to a FutureOn(e2) that a coroutine awaited with Await / AwaitSticky /
\* AwaitOn still runs on e2 (or sees StopError when e2 rejects); the future kept its value
FutureIntact == Done => \A en \in Entries(X) :
                  /\ (en.who = "P") => (en.ctx = "e2" \/ en.obs = "stop")
                  /\ (en.who = "F") => en.obs = FutRes(prog, Idx(en.what)).d
\* Sticky: resumption through the coroutine's own executor -- the statement right after a sticky await that suspended
\* runs in the executor the coroutine reported before it (checked on the pattern cur; st; ...)
StickyOwn == Done => \A k \in 1..Len(X.log) :
               LET en == X.log[k] IN
               (IsStmt(en) /\ StmtOf(en.who, en.what)[1] = "st" /\ Idx(en.what) > 1
                  /\ StmtOf(en.who, ToString(Idx(en.what) - 1))[1] = "cur"
                  /\ prog.body[Idx(en.what)][3] = "p" /\ en.who = "A")
                 => \E k0 \in 1..(k - 1) : /\ X.log[k0].who = "A" /\ X.log[k0].what = ToString(Idx(en.what) - 1)
                                           /\ (X.log[k0].obs = en.ctx \/ (X.log[k0].obs = "inline"))
\* a Task does nothing until it is started
NothingBeforeStart ==
  (Done /\ prog.kind = "task") => \A k1, k2 \in 1..Len(X.log) :
                          (X.log[k1].who \in ({"A", "J1", "J2", "J3", "J4"} \cup {CId(i) : i \in 1..MaxBody})
                             /\ X.log[k2].who = "M") => k2 < k1
\* ... and a never started one runs nothing at all
DroppedRunsNothing == (Done /\ prog.kind = "task" /\ prog.start = "drop") => \A en \in Entries(X) : en.who \notin {"A"}
\* ... and once started it behaves like the same coroutine written eagerly
LazyTwin ==
  (Done /\ prog.kind = "task" /\ prog.start = "tf" /\ prog.second = "none") =>
     LET t == Expected([prog EXCEPT !.kind = "future", !.start = "-"])
     IN  /\ t.final = X.final
         /\ t.log = SelectSeq(X.log, LAMBDA en : en.who # "M")
\* every coroutine that started has finished (completed or dropped) when nothing is left to do
AllDone == Done => \A c \in CoIds : X.status[c] \in {"new", "done"}

Fmt(en) == en.who \o ":" \o en.what \o "=" \o en.obs \o "@" \o en.ctx
RECURSIVE Join(_)
Join(s) == IF s = <<>> THEN "" ELSE IF Len(s) = 1 THEN Fmt(s[1]) ELSE Fmt(s[1]) \o "," \o Join(Tail(s))

Emit == Done => PrintT(<<"CPROG", ToJson([prog |-> prog,
                                    log |-> Join(X.log), final |-> X.final,
                                    sub |-> <<X.sub["e1"], X.sub["e2"]>>, calls |-> <<X.calls["e1"], X.calls["e2"]>>,
                                    drops |-> <<X.drops["e1"], X.drops["e2"]>>, begun |-> X.begun])>>)
=============================================================================
