-------------------------------- MODULE Wait --------------------------------
(***************************************************************************)
(* Wait / WaitFor / WaitUntil over n unique futures (property C11), one     *)
(* action per slice.  After the wait returns every future is consumed by a  *)
(* second operation (Get, or ThenInline), so that "each future afterwards   *)
(* still delivers its result exactly once" is part of the behaviour.        *)
(*                                                                         *)
(* Code map                                                                 *)
(*   include/yaclib/async/detail/wait_impl.hpp  WaitRange / WaitCore /      *)
(*        WaitIterator: register (SetCallback per future), SubEqual of the  *)
(*        already-ready ones, Make/Wait on the event, Reset per future      *)
(*        after a timeout, SubEqual(reset_count), final untimed Wait        *)
(*   include/yaclib/algo/detail/wait_event.hpp  CallCallback::Here = Sub(1) *)
(*   include/yaclib/util/detail/atomic_counter.hpp SubEqual (release        *)
(*        decrement + acquire fence when it reaches zero)                   *)
(*   src/util/mutex_event.cpp  Set / Wait                                   *)
(*   src/algo/base_core.cpp  SetCallbackImpl<false>, ResetImpl (relaxed),   *)
(*        SetResultImpl                                                     *)
(*                                                                         *)
(* The deadline is virtual: the action Timeout ("time" record of the        *)
(* harness: the controller advanced the fiber scheduler's clock to the      *)
(* deadline) may happen at any point while the waiter sleeps in the timed   *)
(* wait.                                                                    *)
(***************************************************************************)
EXTENDS Naturals, Sequences, FiniteSets, TLC

CONSTANTS MaxN,        \* producers P1..PMaxN exist; scen.n of them are used
          Ns, Forms, Seconds

Idx == 1..MaxN
PName(i) == "P" \o ToString(i)
Prods == {PName(i) : i \in Idx}
Proc == {"W"} \cup Prods
IdxOf(p) == CHOOSE i \in Idx : PName(i) = p

PLocs == {"ev1", "evready1"} \cup UNION {{"res" \o ToString(i), "ev2_" \o ToString(i), "evready2_" \o ToString(i),
                                          "cont" \o ToString(i), "ores" \o ToString(i)} : i \in Idx}
ALocs == {"cnt", "mtx1"} \cup UNION {{"cb" \o ToString(i), "mtx2_" \o ToString(i), "own" \o ToString(i), "gate" \o ToString(i)} : i \in Idx}

MM == INSTANCE MemModel WITH MProc <- Proc, MALoc <- ALocs, MPLoc <- PLocs

VARIABLES scen,      \* [n, form, second]
          cb,        \* callback word per future: "0" | "MAX" | "@W.stk" | "@W.a<k>"
          att,       \* what the pointer in cb[i] refers to: "none" | "first" | "second" | "cont"
          res,       \* result slot per future
          cnt,       \* counter of the first event (n >= 2)
          e1,        \* first event: [alive, ready, waiting, woken]
          mtx1,
          e2, mtx2,  \* second-phase Get events per future
          own,       \* own word of the ThenInline continuation per future
          timedout,  \* the virtual deadline has passed
          pc, wi,    \* program counters; wi = index of the future the waiter is working on
          wset, rset,\* futures the waiter attached to / reset
          ret,       \* value the wait is going to return / returned ("none" | "1" | "0")
          calls, gets, err, ev, mm

vars == <<scen, cb, att, res, cnt, e1, mtx1, e2, mtx2, own, timedout, pc, wi, wset, rset, ret, calls, gets, err, ev, mm>>

N == scen.n
Used == 1..N
Timed == scen.form # "wait"
Pay(i) == "v" \o ToString(10 + i)
CbObj(i) == "c" \o ToString(i) \o ".cb"
ContPtr(i) == "@W.a" \o ToString(i - 1)
ContObj(i) == "W.a" \o ToString(i - 1) \o ".cb"
Gate(i) == "gate" \o ToString(i)
S(i) == ToString(i)

Ob(k, v) == [k |-> k, v |-> v]
W(l) == [k |-> "W", l |-> l]
R(l) == [k |-> "R", l |-> l]

Ev(p, a, o, loc, old, new, ok, obs, done, site, post) ==
  [p |-> p, a |-> a, o |-> o, loc |-> loc, old |-> old, new |-> new, ok |-> ok, spur |-> FALSE, obs |-> obs, done |-> done,
   site |-> site, post |-> post]
NoEv == Ev("-", "-", "-", "cnt", "-", "-", TRUE, <<>>, FALSE, "-", <<>>)

Seen(i) == IF res[i] \in {"none", "moved"} THEN "garbage:" \o res[i] ELSE res[i]

I0(s) ==
  [ scen |-> s,
    cb |-> [i \in Idx |-> "0"], att |-> [i \in Idx |-> "none"], res |-> [i \in Idx |-> "none"],
    cnt |-> s.n + 1,
    e1 |-> [alive |-> TRUE, ready |-> FALSE, waiting |-> FALSE, woken |-> FALSE], mtx1 |-> "free",
    e2 |-> [i \in Idx |-> [alive |-> FALSE, ready |-> FALSE, waiting |-> FALSE, woken |-> FALSE]],
    mtx2 |-> [i \in Idx |-> "free"],
    own |-> [i \in Idx |-> "0"],
    timedout |-> FALSE,
    pc |-> [p \in Proc |-> IF p = "W" THEN "l" ELSE IF IdxOf(p) <= s.n THEN "gate" ELSE "done"],
    wi |-> 1, wset |-> {}, rset |-> {}, ret |-> "none",
    calls |-> [i \in Idx |-> <<>>], gets |-> [i \in Idx |-> <<>>], err |-> {}, ev |-> NoEv,
    mm |-> MM!PWrite(MM!PWrite(MM!MInit, "W", "ev1"), "W", "evready1") ]

InitScen(s) ==
  LET i == I0(s) IN
  /\ scen = i.scen /\ cb = i.cb /\ att = i.att /\ res = i.res /\ cnt = i.cnt /\ e1 = i.e1 /\ mtx1 = i.mtx1
  /\ e2 = i.e2 /\ mtx2 = i.mtx2 /\ own = i.own /\ timedout = i.timedout /\ pc = i.pc /\ wi = i.wi
  /\ wset = i.wset /\ rset = i.rset /\ ret = i.ret /\ calls = i.calls /\ gets = i.gets /\ err = i.err
  /\ ev = i.ev /\ mm = i.mm
ResetScen(s) ==
  LET i == I0(s) IN
  /\ scen' = i.scen /\ cb' = i.cb /\ att' = i.att /\ res' = i.res /\ cnt' = i.cnt /\ e1' = i.e1 /\ mtx1' = i.mtx1
  /\ e2' = i.e2 /\ mtx2' = i.mtx2 /\ own' = i.own /\ timedout' = i.timedout /\ pc' = i.pc /\ wi' = i.wi
  /\ wset' = i.wset /\ rset' = i.rset /\ ret' = i.ret /\ calls' = i.calls /\ gets' = i.gets /\ err' = i.err
  /\ ev' = i.ev /\ mm' = i.mm

Init == \E n \in Ns, f \in Forms, s \in Seconds : InitScen([n |-> n, form |-> f, second |-> s])

UseE1 == IF e1.alive THEN {} ELSE {<<"use-after-return", "first wait event">>}
UseE2(i) == IF e2[i].alive THEN {} ELSE {<<"use-after-return", "Get event of future " \o S(i)>>}

(***************************************************************************)
(* Producers                                                                *)
(***************************************************************************)
PGate(p) ==
  LET i == IdxOf(p) IN
  /\ pc[p] = "gate"
  /\ res' = [res EXCEPT ![i] = Pay(i)]
  /\ pc' = [pc EXCEPT ![p] = "xchg"]
  /\ ev' = Ev(p, "store", Gate(i), Gate(i), "0", "1", TRUE, <<>>, FALSE, "Harness.gate", <<W("res" \o S(i))>>)
  /\ UNCHANGED <<scen, cb, att, cnt, e1, mtx1, e2, mtx2, own, timedout, wi, wset, rset, ret, calls, gets, err>>

PXchg(p) ==
  LET i == IdxOf(p)
      old == cb[i]
      loc == "cb" \o S(i)
  IN
  /\ pc[p] = "xchg"
  /\ cb' = [cb EXCEPT ![i] = "MAX"]
  /\ att' = [att EXCEPT ![i] = "none"]
  /\ CASE old = "0" ->
            /\ pc' = [pc EXCEPT ![p] = "done"]
            /\ ev' = Ev(p, "xchg", CbObj(i), loc, "0", "MAX", TRUE, <<>>, TRUE, "SetResult.xchg", <<>>)
            /\ UNCHANGED <<calls, err>>
       [] att[i] = "first" ->
            /\ pc' = [pc EXCEPT ![p] = IF N >= 2 THEN "fsub" ELSE "s_lock"]
            /\ err' = err \cup UseE1
            /\ ev' = Ev(p, "xchg", CbObj(i), loc, old, "MAX", TRUE, <<>>, FALSE, "SetResult.xchg", <<R("ev1")>>)
            /\ UNCHANGED calls
       [] att[i] = "second" ->
            /\ pc' = [pc EXCEPT ![p] = "s2_lock"]
            /\ err' = err \cup UseE2(i)
            /\ ev' = Ev(p, "xchg", CbObj(i), loc, old, "MAX", TRUE, <<>>, FALSE, "SetResult.xchg", <<R("ev2_" \o S(i))>>)
            /\ UNCHANGED calls
       [] att[i] = "cont" ->
            /\ calls' = [calls EXCEPT ![i] = Append(@, Seen(i))]
            /\ pc' = [pc EXCEPT ![p] = "x_own"]
            /\ ev' = Ev(p, "xchg", CbObj(i), loc, old, "MAX", TRUE, <<Ob("call", S(i) \o ":" \o Seen(i))>>, FALSE,
                        "SetResult.xchg", <<R("cont" \o S(i)), R("res" \o S(i)), W("ores" \o S(i)), W("res" \o S(i))>>)
            /\ UNCHANGED err
  /\ UNCHANGED <<scen, res, cnt, e1, mtx1, e2, mtx2, own, timedout, wi, wset, rset, ret, gets>>

\* CallCallback::Here -> Sub(1) on the event's counter; the one that reaches zero Sets the event
PFsub(p) ==
  /\ pc[p] = "fsub"
  /\ cnt' = cnt - 1
  /\ LET last == cnt = 1 IN
     /\ pc' = [pc EXCEPT ![p] = IF last THEN "s_lock" ELSE "done"]
     /\ err' = err \cup UseE1
     /\ ev' = Ev(p, "fsub", "W.stk", "cnt", ToString(cnt), ToString(cnt - 1), TRUE, <<>>, ~last,
                 IF last THEN "Event.Sub.fsub+last" ELSE "Event.Sub.fsub", IF last THEN <<R("ev1")>> ELSE <<>>)
  /\ UNCHANGED <<scen, cb, att, res, e1, mtx1, e2, mtx2, own, timedout, wi, wset, rset, ret, calls, gets>>

PSLock(p) ==
  /\ pc[p] = "s_lock" /\ mtx1 = "free"
  /\ mtx1' = p /\ e1' = [e1 EXCEPT !.ready = TRUE]
  /\ err' = err \cup UseE1
  /\ pc' = [pc EXCEPT ![p] = "s_notify"]
  /\ ev' = Ev(p, "lock", "W.stk", "mtx1", "-", "-", TRUE, <<>>, FALSE, "Event.Set.lock", <<R("ev1"), W("evready1")>>)
  /\ UNCHANGED <<scen, cb, att, res, cnt, e2, mtx2, own, timedout, wi, wset, rset, ret, calls, gets>>

PSNotify(p) ==
  /\ pc[p] = "s_notify"
  /\ e1' = [e1 EXCEPT !.woken = (@ \/ e1.waiting)]
  /\ err' = err \cup UseE1
  /\ pc' = [pc EXCEPT ![p] = "s_unlock"]
  /\ ev' = Ev(p, "notify_one", "W.stk", "mtx1", "-", "-", TRUE, <<>>, FALSE, "Event.Set.notify", <<R("ev1")>>)
  /\ UNCHANGED <<scen, cb, att, res, cnt, mtx1, e2, mtx2, own, timedout, wi, wset, rset, ret, calls, gets>>

PSUnlock(p) ==
  /\ pc[p] = "s_unlock"
  /\ mtx1' = "free"
  /\ err' = err \cup UseE1
  /\ pc' = [pc EXCEPT ![p] = "done"]
  /\ ev' = Ev(p, "unlock", "W.stk", "mtx1", "-", "-", TRUE, <<>>, TRUE, "Event.Set.unlock", <<>>)
  /\ UNCHANGED <<scen, cb, att, res, cnt, e1, e2, mtx2, own, timedout, wi, wset, rset, ret, calls, gets>>

\* Set() on the event of the second-phase Get of future i
PS2(p) ==
  LET i == IdxOf(p)
      m == "mtx2_" \o S(i)
  IN
  \/ /\ pc[p] = "s2_lock" /\ mtx2[i] = "free"
     /\ mtx2' = [mtx2 EXCEPT ![i] = p] /\ e2' = [e2 EXCEPT ![i].ready = TRUE]
     /\ err' = err \cup UseE2(i)
     /\ pc' = [pc EXCEPT ![p] = "s2_notify"]
     /\ ev' = Ev(p, "lock", "W.stk", m, "-", "-", TRUE, <<>>, FALSE, "Event.Set.lock", <<R("ev2_" \o S(i)), W("evready2_" \o S(i))>>)
     /\ UNCHANGED <<scen, cb, att, res, cnt, e1, mtx1, own, timedout, wi, wset, rset, ret, calls, gets>>
  \/ /\ pc[p] = "s2_notify"
     /\ e2' = [e2 EXCEPT ![i].woken = (@ \/ e2[i].waiting)]
     /\ err' = err \cup UseE2(i)
     /\ pc' = [pc EXCEPT ![p] = "s2_unlock"]
     /\ ev' = Ev(p, "notify_one", "W.stk", m, "-", "-", TRUE, <<>>, FALSE, "Event.Set.notify", <<R("ev2_" \o S(i))>>)
     /\ UNCHANGED <<scen, cb, att, res, cnt, e1, mtx1, mtx2, own, timedout, wi, wset, rset, ret, calls, gets>>
  \/ /\ pc[p] = "s2_unlock"
     /\ mtx2' = [mtx2 EXCEPT ![i] = "free"]
     /\ err' = err \cup UseE2(i)
     /\ pc' = [pc EXCEPT ![p] = "done"]
     /\ ev' = Ev(p, "unlock", "W.stk", m, "-", "-", TRUE, <<>>, TRUE, "Event.Set.unlock", <<>>)
     /\ UNCHANGED <<scen, cb, att, res, cnt, e1, mtx1, e2, own, timedout, wi, wset, rset, ret, calls, gets>>

PXOwn(p) ==
  LET i == IdxOf(p) IN
  /\ pc[p] = "x_own"
  /\ own' = [own EXCEPT ![i] = "MAX"]
  /\ pc' = [pc EXCEPT ![p] = "done"]
  /\ ev' = Ev(p, "xchg", ContObj(i), "own" \o S(i), own[i], "MAX", TRUE, <<>>, TRUE, "Callback.SetResult.xchg", <<>>)
  /\ UNCHANGED <<scen, cb, att, res, cnt, e1, mtx1, e2, mtx2, timedout, wi, wset, rset, ret, calls, gets, err>>

(***************************************************************************)
(* Waiter, phase 1: the wait itself                                         *)
(***************************************************************************)
\* "Ready()" of every listed future as the waiter observes it right after the call returned
ReadyBitsNow == LET RECURSIVE B(_)
                    B(i) == IF i > N THEN "" ELSE (IF cb[i] = "MAX" THEN "1" ELSE "0") \o B(i + 1)
                IN  B(1)

FirstPc2 == IF scen.second = "get" THEN "g_l" ELSE "t_l"

\* the wait returns r in the tail of the current slice: the event dies, the observation is made, phase 2 begins
Returned(r) ==
  /\ ret' = r
  /\ e1' = [e1 EXCEPT !.alive = FALSE]
  /\ wi' = 1
RetObs(r) == <<Ob("waited", r \o ":" \o ReadyBitsNow)>>

\* what follows the registration loop (evaluated in the tail of its last operation), given the attached set ws
AfterReg(ws, a, o, loc, old, new, ok, site, bits) ==
  IF ws = {}
    THEN /\ Returned("1")
         /\ pc' = [pc EXCEPT !.W = FirstPc2]
         /\ ev' = Ev("W", a, o, loc, old, new, ok, <<Ob("waited", "1:" \o bits)>>, FALSE, site, <<W("ev1")>>)
    ELSE /\ pc' = [pc EXCEPT !.W = IF N >= 2 THEN "sub1" ELSE "lock"]
         /\ ev' = Ev("W", a, o, loc, old, new, ok, <<>>, FALSE, site, <<>>)
         /\ UNCHANGED <<ret, e1, wi>>

WLoad ==
  /\ pc.W = "l"
  /\ LET i == wi IN
     IF cb[i] = "0"
       THEN /\ pc' = [pc EXCEPT !.W = "c"]
            /\ ev' = Ev("W", "load", CbObj(i), "cb" \o S(i), "0", "0", TRUE, <<>>, FALSE, "SetCallback.load", <<>>)
            /\ UNCHANGED <<wi, ret, e1>>
       ELSE IF i < N
              THEN /\ wi' = i + 1
                   /\ pc' = pc
                   /\ ev' = Ev("W", "load", CbObj(i), "cb" \o S(i), cb[i], cb[i], TRUE, <<>>, FALSE, "SetCallback.load", <<>>)
                   /\ UNCHANGED <<ret, e1>>
              ELSE AfterReg(wset, "load", CbObj(i), "cb" \o S(i), cb[i], cb[i], TRUE, "SetCallback.load", ReadyBitsNow)
  /\ UNCHANGED <<scen, cb, att, res, cnt, mtx1, e2, mtx2, own, timedout, wset, rset, calls, gets, err>>

WCas ==
  /\ pc.W = "c"
  /\ LET i == wi
         ok == cb[i] = "0"
         ws == IF ok THEN wset \cup {i} ELSE wset
     IN  /\ cb' = IF ok THEN [cb EXCEPT ![i] = "@W.stk"] ELSE cb
         /\ att' = IF ok THEN [att EXCEPT ![i] = "first"] ELSE att
         /\ wset' = ws
         /\ IF i < N
              THEN /\ wi' = i + 1
                   /\ pc' = [pc EXCEPT !.W = "l"]
                   /\ ev' = Ev("W", "cas", CbObj(i), "cb" \o S(i), cb[i], cb'[i], ok, <<>>, FALSE, "SetCallback.cas", <<>>)
                   /\ UNCHANGED <<ret, e1>>
              ELSE AfterReg(ws, "cas", CbObj(i), "cb" \o S(i), cb[i], cb'[i], ok, "SetCallback.cas", ReadyBitsNow)
  /\ UNCHANGED <<scen, res, cnt, mtx1, e2, mtx2, own, timedout, rset, calls, gets, err>>

\* SubEqual(count - wait_count + 1): subtract the already ready ones and the waiter's own unit
WSub1 ==
  /\ pc.W = "sub1"
  /\ LET amt == N - Cardinality(wset) + 1
         hit == cnt = amt
     IN  /\ cnt' = cnt - amt
         /\ IF hit
              THEN /\ Returned("1")
                   /\ pc' = [pc EXCEPT !.W = FirstPc2]
                   /\ ev' = Ev("W", "fsub", "W.stk", "cnt", ToString(cnt), ToString(cnt - amt), TRUE, RetObs("1"), FALSE,
                               "WaitRange.SubEqual.fsub+last", <<W("ev1")>>)
              ELSE /\ pc' = [pc EXCEPT !.W = "lock"]
                   /\ ev' = Ev("W", "fsub", "W.stk", "cnt", ToString(cnt), ToString(cnt - amt), TRUE, <<>>, FALSE,
                               "WaitRange.SubEqual.fsub", <<>>)
                   /\ UNCHANGED <<ret, e1, wi>>
  /\ UNCHANGED <<scen, cb, att, res, mtx1, e2, mtx2, own, timedout, wset, rset, calls, gets, err>>

WLock ==
  /\ pc.W = "lock" /\ mtx1 = "free"
  /\ mtx1' = "W"
  /\ pc' = [pc EXCEPT !.W = IF e1.ready THEN "unlock" ELSE "cvw"]
  /\ ret' = IF e1.ready THEN "1" ELSE ret
  /\ ev' = Ev("W", "lock", "W.stk", "mtx1", "-", "-", TRUE, <<>>, FALSE, "Event.Make.lock", <<R("evready1")>>)
  /\ UNCHANGED <<scen, cb, att, res, cnt, e1, e2, mtx2, own, timedout, wi, wset, rset, calls, gets, err>>

\* begin of a condition-variable wait: timed in the first round of a timed form, untimed otherwise ("cvw2")
WCvWait ==
  /\ pc.W \in {"cvw", "cvw2"}
  /\ mtx1' = "free"
  /\ e1' = [e1 EXCEPT !.waiting = TRUE]
  /\ LET timed == pc.W = "cvw" /\ Timed IN
     /\ pc' = [pc EXCEPT !.W = IF pc.W = "cvw" THEN "wake" ELSE "wake2"]
     /\ ev' = Ev("W", IF timed THEN "cvwait_for" ELSE "cvwait", "W.stk", "mtx1", "-", "-", TRUE, <<>>, FALSE,
                 "Event.Wait.cvwait", <<>>)
  /\ UNCHANGED <<scen, cb, att, res, cnt, e2, mtx2, own, timedout, wi, wset, rset, ret, calls, gets, err>>

\* the virtual clock reaches the deadline while the waiter sleeps in the timed wait
Timeout ==
  /\ pc.W = "wake" /\ Timed /\ ~timedout
  /\ timedout' = TRUE
  /\ ev' = [NoEv EXCEPT !.a = "time"]
  /\ UNCHANGED <<scen, cb, att, res, cnt, e1, mtx1, e2, mtx2, own, pc, wi, wset, rset, ret, calls, gets, err>>

WWake ==
  /\ pc.W \in {"wake", "wake2"} /\ mtx1 = "free"
  /\ e1.woken \/ (pc.W = "wake" /\ timedout)
  /\ mtx1' = "W"
  /\ e1' = [e1 EXCEPT !.waiting = FALSE, !.woken = FALSE]
  /\ LET timed == pc.W = "wake" /\ Timed
         a == IF timed THEN "cvwake_for" ELSE "cvwake"
     IN  IF e1.ready
           THEN /\ pc' = [pc EXCEPT !.W = "unlock"]
                /\ ret' = IF pc.W = "wake" THEN "1" ELSE (IF rset = {} THEN "1" ELSE "0")
                /\ wi' = wi
                /\ ev' = Ev("W", a, "W.stk", "mtx1", "-", "-", TRUE, <<>>, FALSE, "Event.Wait.cvwake", <<R("evready1")>>)
           ELSE IF timed   \* timed out and still not ready: reset the callbacks
                  THEN /\ pc' = [pc EXCEPT !.W = "rl"]
                       /\ wi' = 1
                       /\ ret' = ret
                       /\ ev' = Ev("W", a, "W.stk", "mtx1", "-", "-", TRUE, <<>>, FALSE, "Event.Wait.cvwake", <<R("evready1")>>)
                  ELSE /\ pc' = [pc EXCEPT !.W = IF pc.W = "wake" THEN "cvw" ELSE "cvw2"]
                       /\ wi' = wi /\ ret' = ret
                       /\ ev' = Ev("W", a, "W.stk", "mtx1", "-", "-", TRUE, <<>>, FALSE, "Event.Wait.cvwake", <<R("evready1")>>)
  /\ UNCHANGED <<scen, cb, att, res, cnt, e2, mtx2, own, timedout, wset, rset, calls, gets, err>>

\* after the reset loop (in the tail of its last operation), rs = futures reset
AfterReset(rs, a, o, loc, old, new, ok, site) ==
  LET k == Cardinality(rs) IN
  IF k # 0 /\ k = Cardinality(wset)
    THEN /\ pc' = [pc EXCEPT !.W = "unlock"] /\ ret' = "0"
         /\ ev' = Ev("W", a, o, loc, old, new, ok, <<>>, FALSE, site, <<>>)
    ELSE IF k # 0 /\ N >= 2
      THEN /\ pc' = [pc EXCEPT !.W = "sub2"] /\ ret' = ret
           /\ ev' = Ev("W", a, o, loc, old, new, ok, <<>>, FALSE, site, <<>>)
      ELSE \* nothing was reset: every producer has fired or is about to Set the event: wait for it
           /\ pc' = [pc EXCEPT !.W = IF e1.ready THEN "unlock" ELSE "cvw2"]
           /\ ret' = IF e1.ready THEN "1" ELSE ret
           /\ ev' = Ev("W", a, o, loc, old, new, ok, <<>>, FALSE, site, <<R("evready1")>>)

WResetLoad ==
  /\ pc.W = "rl"
  /\ LET i == wi IN
     IF cb[i] # "MAX"
       THEN /\ pc' = [pc EXCEPT !.W = "rc"]
            /\ ev' = Ev("W", "load", CbObj(i), "cb" \o S(i), cb[i], cb[i], TRUE, <<>>, FALSE, "Reset.load", <<>>)
            /\ UNCHANGED <<wi, ret>>
       ELSE IF i < N
              THEN /\ wi' = i + 1 /\ pc' = pc /\ ret' = ret
                   /\ ev' = Ev("W", "load", CbObj(i), "cb" \o S(i), "MAX", "MAX", TRUE, <<>>, FALSE, "Reset.load", <<>>)
              ELSE /\ wi' = wi
                   /\ AfterReset(rset, "load", CbObj(i), "cb" \o S(i), "MAX", "MAX", TRUE, "Reset.load")
  /\ UNCHANGED <<scen, cb, att, res, cnt, e1, mtx1, e2, mtx2, own, timedout, wset, rset, calls, gets, err>>

WResetCas ==
  /\ pc.W = "rc"
  /\ LET i == wi
         ok == cb[i] = "@W.stk"
         rs == IF ok THEN rset \cup {i} ELSE rset
     IN  /\ cb' = IF ok THEN [cb EXCEPT ![i] = "0"] ELSE cb
         /\ att' = IF ok THEN [att EXCEPT ![i] = "none"] ELSE att
         /\ rset' = rs
         /\ IF i < N
              THEN /\ wi' = i + 1 /\ pc' = [pc EXCEPT !.W = "rl"] /\ ret' = ret
                   /\ ev' = Ev("W", "cas", CbObj(i), "cb" \o S(i), cb[i], cb'[i], ok, <<>>, FALSE, "Reset.cas", <<>>)
              ELSE /\ wi' = wi
                   /\ AfterReset(rs, "cas", CbObj(i), "cb" \o S(i), cb[i], cb'[i], ok, "Reset.cas")
  /\ UNCHANGED <<scen, res, cnt, e1, mtx1, e2, mtx2, own, timedout, wset, calls, gets, err>>

\* SubEqual(reset_count): if it reaches zero no producer will touch the event any more
WSub2 ==
  /\ pc.W = "sub2"
  /\ LET k == Cardinality(rset)
         hit == cnt = k
     IN  /\ cnt' = cnt - k
         /\ IF hit
              THEN /\ pc' = [pc EXCEPT !.W = "unlock"] /\ ret' = "0"
                   /\ ev' = Ev("W", "fsub", "W.stk", "cnt", ToString(cnt), ToString(cnt - k), TRUE, <<>>, FALSE,
                               "WaitRange.SubEqual2.fsub+last", <<>>)
              ELSE /\ pc' = [pc EXCEPT !.W = IF e1.ready THEN "unlock" ELSE "cvw2"]
                   /\ ret' = IF e1.ready THEN "0" ELSE ret
                   /\ ev' = Ev("W", "fsub", "W.stk", "cnt", ToString(cnt), ToString(cnt - k), TRUE, <<>>, FALSE,
                               "WaitRange.SubEqual2.fsub", <<R("evready1")>>)
  /\ UNCHANGED <<scen, cb, att, res, e1, mtx1, e2, mtx2, own, timedout, wi, wset, rset, calls, gets, err>>

WUnlock ==
  /\ pc.W = "unlock"
  /\ mtx1' = "free"
  /\ Returned(ret)
  /\ pc' = [pc EXCEPT !.W = FirstPc2]
  /\ ev' = Ev("W", "unlock", "W.stk", "mtx1", "-", "-", TRUE, RetObs(ret), FALSE, "Event.Token.unlock", <<W("ev1")>>)
  /\ UNCHANGED <<scen, cb, att, res, cnt, e2, mtx2, own, timedout, wset, rset, calls, gets, err>>

(***************************************************************************)
(* Waiter, phase 2: consume every future                                    *)
(***************************************************************************)
NextFuture(i) == IF i < N THEN FirstPc2 ELSE "done"

\* Get&& of future i finds the result (tail of the current slice)
GotFx(i) ==
  /\ gets' = [gets EXCEPT ![i] = Append(@, Seen(i))]
  /\ res' = [res EXCEPT ![i] = "moved"]
  /\ wi' = IF i < N THEN i + 1 ELSE i
GotObs(i) == <<Ob("get", S(i) \o ":" \o Seen(i))>>

WGet ==
  LET i == wi
      m == "mtx2_" \o S(i)
  IN
  \/ /\ pc.W = "g_l"
     /\ IF cb[i] = "0"
          THEN /\ pc' = [pc EXCEPT !.W = "g_c"]
               /\ ev' = Ev("W", "load", CbObj(i), "cb" \o S(i), "0", "0", TRUE, <<>>, FALSE, "SetCallback.load", <<>>)
               /\ UNCHANGED <<gets, res, wi>>
          ELSE /\ GotFx(i)
               /\ pc' = [pc EXCEPT !.W = NextFuture(i)]
               /\ ev' = Ev("W", "load", CbObj(i), "cb" \o S(i), cb[i], cb[i], TRUE, GotObs(i), i = N, "SetCallback.load",
                           <<R("res" \o S(i)), W("res" \o S(i))>>)
     /\ UNCHANGED <<cb, att, e2, mtx2>>
  \/ /\ pc.W = "g_c"
     /\ IF cb[i] = "0"
          THEN /\ cb' = [cb EXCEPT ![i] = "@W.stk"] /\ att' = [att EXCEPT ![i] = "second"]
               /\ e2' = [e2 EXCEPT ![i] = [alive |-> TRUE, ready |-> FALSE, waiting |-> FALSE, woken |-> FALSE]]
               /\ pc' = [pc EXCEPT !.W = "g_lock"]
               /\ ev' = Ev("W", "cas", CbObj(i), "cb" \o S(i), "0", "@W.stk", TRUE, <<>>, FALSE, "SetCallback.cas", <<>>)
               /\ UNCHANGED <<gets, res, wi, mtx2>>
          ELSE /\ GotFx(i)
               /\ pc' = [pc EXCEPT !.W = NextFuture(i)]
               /\ ev' = Ev("W", "cas", CbObj(i), "cb" \o S(i), cb[i], cb[i], FALSE, GotObs(i), i = N, "SetCallback.cas",
                           <<R("res" \o S(i)), W("res" \o S(i))>>)
               /\ UNCHANGED <<cb, att, e2, mtx2>>
  \/ /\ pc.W = "g_lock" /\ mtx2[i] = "free"
     /\ mtx2' = [mtx2 EXCEPT ![i] = "W"]
     /\ pc' = [pc EXCEPT !.W = IF e2[i].ready THEN "g_unlock" ELSE "g_cvw"]
     /\ ev' = Ev("W", "lock", "W.stk", m, "-", "-", TRUE, <<>>, FALSE, "Event.Make.lock", <<R("evready2_" \o S(i))>>)
     /\ UNCHANGED <<cb, att, e2, gets, res, wi>>
  \/ /\ pc.W = "g_cvw"
     /\ mtx2' = [mtx2 EXCEPT ![i] = "free"]
     /\ e2' = [e2 EXCEPT ![i].waiting = TRUE]
     /\ pc' = [pc EXCEPT !.W = "g_wake"]
     /\ ev' = Ev("W", "cvwait", "W.stk", m, "-", "-", TRUE, <<>>, FALSE, "Event.Wait.cvwait", <<>>)
     /\ UNCHANGED <<cb, att, gets, res, wi>>
  \/ /\ pc.W = "g_wake" /\ e2[i].woken /\ mtx2[i] = "free"
     /\ mtx2' = [mtx2 EXCEPT ![i] = "W"]
     /\ e2' = [e2 EXCEPT ![i].waiting = FALSE, ![i].woken = FALSE]
     /\ pc' = [pc EXCEPT !.W = IF e2[i].ready THEN "g_unlock" ELSE "g_cvw"]
     /\ ev' = Ev("W", "cvwake", "W.stk", m, "-", "-", TRUE, <<>>, FALSE, "Event.Wait.cvwake", <<R("evready2_" \o S(i))>>)
     /\ UNCHANGED <<cb, att, gets, res, wi>>
  \/ /\ pc.W = "g_unlock"
     /\ mtx2' = [mtx2 EXCEPT ![i] = "free"]
     /\ e2' = [e2 EXCEPT ![i].alive = FALSE]
     /\ GotFx(i)
     /\ pc' = [pc EXCEPT !.W = NextFuture(i)]
     /\ ev' = Ev("W", "unlock", "W.stk", m, "-", "-", TRUE, GotObs(i), i = N, "Event.Token.unlock",
                 <<W("ev2_" \o S(i)), R("res" \o S(i)), W("res" \o S(i))>>)
     /\ UNCHANGED <<cb, att>>

WGetStep == WGet /\ UNCHANGED <<scen, cnt, e1, mtx1, own, timedout, wset, rset, ret, calls, err>>

\* ThenInline on future i
RunContFx(i) == calls' = [calls EXCEPT ![i] = Append(@, Seen(i))]
RunContObs(i) == <<Ob("call", S(i) \o ":" \o Seen(i))>>
RunContPost(i) == <<R("res" \o S(i)), W("ores" \o S(i)), W("res" \o S(i))>>

WThen ==
  LET i == wi IN
  \/ /\ pc.W = "t_l"
     /\ IF cb[i] = "0"
          THEN /\ pc' = [pc EXCEPT !.W = "t_c"]
               /\ ev' = Ev("W", "load", CbObj(i), "cb" \o S(i), "0", "0", TRUE, <<>>, FALSE, "SetCallback.load", <<>>)
               /\ UNCHANGED calls
          ELSE /\ RunContFx(i)
               /\ pc' = [pc EXCEPT !.W = "t_x"]
               /\ ev' = Ev("W", "load", CbObj(i), "cb" \o S(i), cb[i], cb[i], TRUE, RunContObs(i), FALSE, "SetCallback.load",
                           RunContPost(i))
     /\ UNCHANGED <<cb, att, own, wi>>
  \/ /\ pc.W = "t_c"
     /\ IF cb[i] = "0"
          THEN /\ cb' = [cb EXCEPT ![i] = ContPtr(i)] /\ att' = [att EXCEPT ![i] = "cont"]
               /\ wi' = IF i < N THEN i + 1 ELSE i
               /\ pc' = [pc EXCEPT !.W = IF i < N THEN "t_l" ELSE "done"]
               /\ ev' = Ev("W", "cas", CbObj(i), "cb" \o S(i), "0", ContPtr(i), TRUE, <<>>, i = N, "SetCallback.cas", <<>>)
               /\ UNCHANGED <<calls, own>>
          ELSE /\ RunContFx(i)
               /\ pc' = [pc EXCEPT !.W = "t_x"]
               /\ ev' = Ev("W", "cas", CbObj(i), "cb" \o S(i), cb[i], cb[i], FALSE, RunContObs(i), FALSE, "SetCallback.cas",
                           RunContPost(i))
               /\ UNCHANGED <<cb, att, own, wi>>
  \/ /\ pc.W = "t_x"
     /\ own' = [own EXCEPT ![i] = "MAX"]
     /\ wi' = IF i < N THEN i + 1 ELSE i
     /\ pc' = [pc EXCEPT !.W = IF i < N THEN "t_l" ELSE "done"]
     /\ ev' = Ev("W", "xchg", ContObj(i), "own" \o S(i), own[i], "MAX", TRUE, <<>>, i = N, "Callback.SetResult.xchg", <<>>)
     /\ UNCHANGED <<cb, att, calls>>

WThenStep == WThen /\ UNCHANGED <<scen, res, cnt, e1, mtx1, e2, mtx2, timedout, wset, rset, ret, gets, err>>

Step == \/ \E p \in Prods : PGate(p) \/ PXchg(p) \/ PFsub(p) \/ PSLock(p) \/ PSNotify(p) \/ PSUnlock(p) \/ PS2(p) \/ PXOwn(p)
        \/ WLoad \/ WCas \/ WSub1 \/ WLock \/ WCvWait \/ WWake \/ WResetLoad \/ WResetCas \/ WSub2 \/ WUnlock
        \/ WGetStep \/ WThenStep

Quiescent == \A p \in Proc : pc[p] = "done"

(***************************************************************************)
(* Properties (C11)                                                         *)
(***************************************************************************)
\* Wait returns only when every listed future is Ready; WaitFor returns true only if all are Ready
\* the observation made at return is "<ret>:<ready bits>": checked through the history of `ev'
RetOK ==
  \A k \in 1..Len(ev.obs) :
     ev.obs[k].k = "waited" =>
        \/ ev.obs[k].v \in {"1:" \o b : b \in {"1", "11", "111"}}
        \/ (Timed /\ timedout /\ ev.obs[k].v \in {"0:" \o b : b \in {"0", "1", "00", "01", "10", "11", "000", "001", "010", "011", "100", "101", "110", "111"}})
\* false only after the deadline has passed
FalseOnlyAfterDeadline == ret = "0" => timedout
UntimedNeverFalse == ~Timed => ret # "0"
\* afterwards every future delivers exactly once, intact
DeliveredIntact == \A i \in Idx : /\ \A k \in 1..Len(gets[i]) : gets[i][k] = Pay(i)
                                  /\ \A k \in 1..Len(calls[i]) : calls[i][k] = Pay(i)
DeliveredOnce == \A i \in Idx : Len(gets[i]) + Len(calls[i]) <= 1
DeliveredAtQuiescence == Quiescent => \A i \in Used : Len(gets[i]) + Len(calls[i]) = 1
\* no completion touches the waiter after the call returned
OwnershipOK == err = {}

ExpectedFinal ==
  LET RECURSIVE F(_)
      F(i) == IF i > N THEN [live |-> "0", read_moved |-> "0"]
              ELSE IF scen.second = "then" THEN (("next" \o S(i)) :> "v1") @@ F(i + 1) ELSE F(i + 1)
  IN  F(1)
=============================================================================
