-------------------------- MODULE FiberSync_Trace --------------------------
(* Trace validation for scenario "fs": the begin / end observations of every recorded execution of the real     *)
(* yaclib_std primitives under the fiber scheduler (all scheduler choices made by the controller) must be a      *)
(* behaviour of the std contract FiberSync.                                                                      *)
EXTENDS FiberSync, Json, IOUtils

VARIABLES l, S

T == ndJsonDeserialize(IOEnv.TRACE)

Progress(n) == IF n > TLCGet(2) THEN TLCSet(2, n) ELSE TRUE

\* split "op:result"
OpOf(v) == CASE \E o \in {"l","t","f","s","y","g","u","r","n","N","z","j","W","F"} : v = o \o ":1" -> (CHOOSE o \in {"l","t","f","s","y","g","u","r","n","N","z","j","W","F"} : v = o \o ":1")
             [] \E o \in {"t","f","y","g"} : v = o \o ":0" -> (CHOOSE o \in {"t","f","y","g"} : v = o \o ":0")
             [] v \in {"w:timeout", "w:no_timeout"} -> "w"
             [] v \in {"x:ok", "x:bad"} -> "x"
             [] OTHER -> "?"
ResOf(v) == CASE \E o \in {"l","t","f","s","y","g","u","r","n","N","z","j","W","F"} : v = o \o ":1" -> "1"
              [] \E o \in {"t","f","y","g"} : v = o \o ":0" -> "0"
              [] v = "w:timeout" -> "timeout" [] v = "w:no_timeout" -> "no_timeout"
              [] v = "x:ok" -> "ok" [] v = "x:bad" -> "bad"
              [] OTHER -> "?"

ApplyOb(st, p, ob) ==
  CASE ob.k = "b" -> Begin(st, p, ob.v)
    [] ob.k = "e" -> End(st, p, OpOf(ob.v), ResOf(ob.v))
    [] ob.k = "child_fin" -> ChildFin(st, ob.v)
    [] OTHER -> st

RECURSIVE ApplyAll(_, _, _)
ApplyAll(st, p, obs) == IF obs = <<>> THEN st ELSE ApplyAll(ApplyOb(st, p, Head(obs)), p, Tail(obs))

TInit == /\ TLCSet(2, 1) /\ T[1].e = "begin" /\ S = S0(T[1].params.lt) /\ l = 2

TOp ==
  /\ l <= Len(T) /\ T[l].e = "op"
  /\ S' = IF T[l].p \in Fibers THEN ApplyAll(S, T[l].p, T[l].obs)
          ELSE ApplyAll(S, "-", T[l].obs)        \* a child thread: only its child_fin matters
  /\ l' = l + 1 /\ Progress(l')
TTime  == l <= Len(T) /\ T[l].e = "time" /\ S' = TimePassed(S) /\ l' = l + 1 /\ Progress(l')
TEnd   == l <= Len(T) /\ T[l].e = "end" /\ UNCHANGED S /\ l' = l + 1 /\ Progress(l')
TBegin == l <= Len(T) /\ T[l].e = "begin" /\ S' = S0(T[l].params.lt) /\ l' = l + 1 /\ Progress(l')
TNext == TOp \/ TTime \/ TEnd \/ TBegin
TSpec == TInit /\ [][TNext]_<<l, S>>

\* C18
ContractOK == S.bad = {}
ExclusionOK == Exclusion(S)
\* a blocked locker is woken when the lock becomes available; nobody is parked forever: the execution ended normally
NoLostWakeup == (l > 1 /\ l - 1 <= Len(T) /\ T[l - 1].e = "end") => T[l - 1].status = "ok"

Accepted ==
  /\ PrintT(<<"REACHED", TLCGet(2), Len(T) + 1>>)
  /\ TLCGet(2) = Len(T) + 1
=============================================================================
