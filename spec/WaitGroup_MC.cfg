SPECIFICATION MCSpec
CONSTANTS
  KeepHist = FALSE
  MaxS = 2
  MaxW = 2
  Srcs = {"d", "a", "c", "S", "da"}
  Wts = {"w", "t", "i", "s", "o", "wi", "tw", "ws"}
INVARIANTS
  ReleasedOnlyAtZero ReleasedAtMostOnce WaitersReleasedAtQuiescence FalseOnlyAfterDeadline AttachedValid ConsumedOnce
  ConsumedAtQuiescence CountZeroAtQuiescence HeapWaiterReleased OwnershipOK NeverNegative NoRace NoStuck
VIEW View
CHECK_DEADLOCK TRUE
