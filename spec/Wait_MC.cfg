SPECIFICATION MCSpec
CONSTANTS
  MaxN = 2
  Ns = {1, 2}
  Forms = {"wait", "wait_for"}
  Seconds = {"get", "then"}
INVARIANTS
  RetOK FalseOnlyAfterDeadline UntimedNeverFalse DeliveredIntact DeliveredOnce DeliveredAtQuiescence OwnershipOK NoRace NoStuck
VIEW View
CHECK_DEADLOCK TRUE
