SPECIFICATION TSpec
CONSTANTS
  MaxN = 3
  Ns = {1}
  Forms = {"wait"}
  Seconds = {"get"}
INVARIANTS
  RetOK FalseOnlyAfterDeadline UntimedNeverFalse DeliveredIntact DeliveredOnce DeliveredAtQuiescence OwnershipOK NoRace
  AbsWait AbsIntact AbsOnce AbsEnd AbsNoUseAfterReturn
POSTCONDITION Accepted
CHECK_DEADLOCK FALSE
