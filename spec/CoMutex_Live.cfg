SPECIFICATION FairSpec
CONSTANTS
  KeepHist = FALSE
  MaxC = 3
  MaxW = 2
  Opts = {"10", "01"}
  WorkerCounts = {1, 2}
  P1s = {"ab"}
  P2s = {"ac", "s"}
  P3s = {"", "b"}
  P4s = {""}
PROPERTY EventuallyQuiescent
CHECK_DEADLOCK FALSE
