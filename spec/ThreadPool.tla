----------------------------- MODULE ThreadPool -----------------------------
(***************************************************************************)
(* yaclib::FairThreadPool (property C08; executor clauses of C05; C04:      *)
(* Submit happens-before the job), one action per slice.  Everything the    *)
(* pool shares is protected by one mutex, so an action is one mutex /       *)
(* condition-variable operation plus the critical-section (or lock-free     *)
(* tail) code that follows it.                                              *)
(*                                                                         *)
(* Code map (src/runtime/fair_thread_pool.cpp)                              *)
(*   Submit   lock; stopped ? (unlock; Drop) : (push; count += 4; unlock;   *)
(*            notify_one)                                                   *)
(*   Loop     lock; forever { while queue: pop; unlock; Call; lock;         *)
(*            count -= 4 }; NoJobs && WantStop -> Stop; WasStop -> return;  *)
(*            wait }                                                        *)
(*   Stop     lock; count |= 1; unlock; notify_all                          *)
(*   SoftStop lock; NoJobs ? Stop : count |= 2; unlock                      *)
(*   HardStop lock; steal the queue; Stop; Drop the stolen jobs             *)
(*   Wait     join every worker                                             *)
(*                                                                         *)
(* Processes: submitters S1.., workers T1.. (threads the pool creates),     *)
(* stopper K (SoftStop is followed by Stop so that the pool always stops),  *)
(* and the root, which calls Wait once everybody else has finished.         *)
(***************************************************************************)
EXTENDS Naturals, Sequences, FiniteSets, TLC

CONSTANTS MaxSubs, MaxWorkers, SubSets, WorkerCounts, Stops

SName(i) == "S" \o ToString(i)
TName(i) == "T" \o ToString(i)
Subs == {SName(i) : i \in 1..MaxSubs}
Wrks == {TName(i) : i \in 1..MaxWorkers}
Proc == Subs \cup Wrks \cup {"K"}
SIdx(p) == CHOOSE i \in 1..MaxSubs : SName(i) = p
Counts(s) == CASE s = "1" -> <<1>> [] s = "2" -> <<2>> [] s = "11" -> <<1, 1>> [] s = "21" -> <<2, 1>> [] s = "12" -> <<1, 2>>
               [] s = "22" -> <<2, 2>> [] s = "111" -> <<1, 1, 1>> [] s = "3" -> <<3>>
JobIds == {10 * s + k : s \in 1..MaxSubs, k \in 1..3}

PLocs == {"queue"} \cup {"data" \o ToString(j) : j \in JobIds}
ALocs == {"m", "kgate"}
MM == INSTANCE MemModel WITH MProc <- Proc, MALoc <- ALocs, MPLoc <- PLocs

VARIABLES scen,      \* [subs, workers, stop]
          mtx,         \* mutex owner or "free"
          queue,     \* queued job ids
          cnt,       \* jobs queued or running (count >> 2)
          stopped, want,
          cvw, woken,    \* workers in the condition-variable wait / notified
          pc, sk, cur,   \* program counters; submitter job index; worker / stopper: job(s) in hand
          accepted, called, dropped, running,
          softOK,    \* ghost: every transition to `stopped' made on behalf of SoftStop happened with no job queued or running
          waited,    \* Wait() returned
          err, ev, mm

vars == <<scen, mtx, queue, cnt, stopped, want, cvw, woken, pc, sk, cur, accepted, called, dropped, running, softOK, waited, err, ev, mm>>

NSubs == Len(scen.subs)
UsedSubs == {SName(i) : i \in 1..NSubs}
UsedWrks == {TName(i) : i \in 1..scen.workers}
AllJobs == UNION {{10 * s + k : k \in 1..scen.subs[s]} : s \in 1..NSubs}
JobOf(p) == 10 * SIdx(p) + sk[p]

Ob(k, v) == [k |-> k, v |-> v]
W(l) == [k |-> "W", l |-> l]
R(l) == [k |-> "R", l |-> l]
Ev(p, a, o, loc, obs, done, site, post) ==
  [p |-> p, a |-> a, o |-> o, loc |-> loc, old |-> "-", new |-> "-", ok |-> TRUE, spur |-> FALSE, obs |-> obs, done |-> done,
   site |-> site, post |-> post, wake |-> "-"]     \* wake: which of several waiters a notify_one chose
NoEv == Ev("-", "-", "-", "m", <<>>, FALSE, "-", <<>>)

I0(s) ==
  [ scen |-> s, mtx |-> "free", queue |-> <<>>, cnt |-> 0, stopped |-> FALSE, want |-> FALSE, cvw |-> {}, woken |-> {},
    pc |-> [p \in Proc |-> IF p \in {SName(i) : i \in 1..Len(s.subs)} THEN "lock"
                           ELSE IF p = "K" THEN "gate"
                           ELSE IF p \in {TName(i) : i \in 1..s.workers} THEN "lock0" ELSE "off"],
    sk |-> [p \in Subs |-> 1], cur |-> [p \in Proc |-> <<>>],
    accepted |-> <<>>, called |-> <<>>, dropped |-> <<>>, running |-> {}, softOK |-> TRUE, waited |-> FALSE,
    err |-> {}, ev |-> NoEv,
    \* every submitter prepared its jobs before its first operation
    mm |-> LET RECURSIVE Prep(_, _)
               Prep(mm0, todo) == IF todo = {} THEN mm0
                                  ELSE LET j == CHOOSE x \in todo : TRUE
                                       IN  Prep(MM!PWrite(mm0, SName(j \div 10), "data" \o ToString(j)), todo \ {j})
           IN  Prep(MM!MInit, UNION {{10 * i + k : k \in 1..s.subs[i]} : i \in 1..Len(s.subs)}) ]

InitScen(s) ==
  LET i == I0(s) IN
  /\ scen = i.scen /\ mtx = i.mtx /\ queue = i.queue /\ cnt = i.cnt /\ stopped = i.stopped /\ want = i.want /\ cvw = i.cvw
  /\ woken = i.woken /\ pc = i.pc /\ sk = i.sk /\ cur = i.cur /\ accepted = i.accepted /\ called = i.called
  /\ dropped = i.dropped /\ running = i.running /\ softOK = i.softOK /\ waited = i.waited /\ err = i.err /\ ev = i.ev /\ mm = i.mm
ResetScen(s) ==
  LET i == I0(s) IN
  /\ scen' = i.scen /\ mtx' = i.mtx /\ queue' = i.queue /\ cnt' = i.cnt /\ stopped' = i.stopped /\ want' = i.want /\ cvw' = i.cvw
  /\ woken' = i.woken /\ pc' = i.pc /\ sk' = i.sk /\ cur' = i.cur /\ accepted' = i.accepted /\ called' = i.called
  /\ dropped' = i.dropped /\ running' = i.running /\ softOK' = i.softOK /\ waited' = i.waited /\ err' = i.err /\ ev' = i.ev /\ mm' = i.mm

Init == \E ss \in SubSets, w \in WorkerCounts, st \in Stops : InitScen([subs |-> Counts(ss), workers |-> w, stop |-> st])

SubNext(p) == IF sk[p] < scen.subs[SIdx(p)] THEN "lock" ELSE "done"

(***************************************************************************)
(* Submitters                                                               *)
(***************************************************************************)
SLock(p) ==
  /\ pc[p] = "lock" /\ mtx = "free"
  /\ mtx' = p
  /\ LET j == JobOf(p) IN
     IF stopped
       THEN /\ pc' = [pc EXCEPT ![p] = "unl_drop"]
            /\ UNCHANGED <<queue, cnt, accepted>>
            /\ ev' = Ev(p, "lock", "m", "m", <<>>, FALSE, "Submit.lock", <<R("queue")>>)
       ELSE /\ queue' = Append(queue, j) /\ cnt' = cnt + 1 /\ accepted' = Append(accepted, j)
            /\ pc' = [pc EXCEPT ![p] = "unl_n"]
            /\ ev' = Ev(p, "lock", "m", "m", <<>>, FALSE, "Submit.lock", <<R("queue"), W("queue")>>)
  /\ UNCHANGED <<scen, stopped, want, cvw, woken, sk, cur, called, dropped, running, softOK, waited, err>>

SUnlockDrop(p) ==
  /\ pc[p] = "unl_drop"
  /\ mtx' = "free"
  /\ dropped' = Append(dropped, JobOf(p))
  /\ pc' = [pc EXCEPT ![p] = SubNext(p)]
  /\ sk' = [sk EXCEPT ![p] = IF SubNext(p) = "lock" THEN @ + 1 ELSE @]
  /\ ev' = Ev(p, "unlock", "m", "m", <<Ob("drop", ToString(JobOf(p)))>>, SubNext(p) = "done", "Submit.unlock", <<>>)
  /\ UNCHANGED <<scen, queue, cnt, stopped, want, cvw, woken, cur, accepted, called, running, softOK, waited, err>>

SUnlock(p) ==
  /\ pc[p] = "unl_n"
  /\ mtx' = "free"
  /\ pc' = [pc EXCEPT ![p] = "n1"]
  /\ ev' = Ev(p, "unlock", "m", "m", <<>>, FALSE, "Submit.unlock", <<>>)
  /\ UNCHANGED <<scen, queue, cnt, stopped, want, cvw, woken, sk, cur, accepted, called, dropped, running, softOK, waited, err>>

SNotify(p) ==
  /\ pc[p] = "n1"
  /\ pc' = [pc EXCEPT ![p] = SubNext(p)]
  /\ sk' = [sk EXCEPT ![p] = IF SubNext(p) = "lock" THEN @ + 1 ELSE @]
  /\ LET cand == cvw \ woken
         e0 == Ev(p, "notify_one", "cv", "m", <<>>, SubNext(p) = "done", "Submit.notify", <<>>)
     IN  \/ /\ cand = {} /\ UNCHANGED woken /\ ev' = e0
         \/ \E w \in cand : /\ woken' = woken \cup {w}
                             /\ ev' = [e0 EXCEPT !.wake = IF Cardinality(cand) > 1 THEN w ELSE "-"]
  /\ UNCHANGED <<scen, mtx, queue, cnt, stopped, want, cvw, cur, accepted, called, dropped, running, softOK, waited, err>>

(***************************************************************************)
(* Workers                                                                  *)
(***************************************************************************)
\* the loop body evaluated while holding the mutex (tail of lock0 / lock_back / cvwake): what the worker does next
\* q, c, st, wt: queue, count, stopped, want as they are at that point
Decide(w, q, c, st, wt) ==
  IF q # <<>> THEN [pc |-> "unl_run", take |-> TRUE, stop |-> FALSE]
  ELSE IF c = 0 /\ wt /\ ~st THEN [pc |-> "unl_stop", take |-> FALSE, stop |-> TRUE]     \* the soft stop takes effect
  ELSE IF c = 0 /\ wt THEN [pc |-> "unl_stop", take |-> FALSE, stop |-> TRUE]
  ELSE IF st THEN [pc |-> "unl_exit", take |-> FALSE, stop |-> FALSE]
  ELSE [pc |-> "cvw", take |-> FALSE, stop |-> FALSE]

\* acquiring the mutex in the loop: at the start, after a job (count -= 4), or waking from the wait
WAcquire(w) ==
  /\ pc[w] \in {"lock0", "lock_back", "cvwk"}
  /\ mtx = "free"
  /\ pc[w] = "cvwk" => w \in woken
  /\ mtx' = w
  /\ LET c == IF pc[w] = "lock_back" THEN cnt - 1 ELSE cnt
         d == Decide(w, queue, c, stopped, want)
         a == IF pc[w] = "cvwk" THEN "cvwake" ELSE "lock"
     IN  /\ cnt' = c
         /\ queue' = IF d.take THEN Tail(queue) ELSE queue
         /\ cur' = [cur EXCEPT ![w] = IF d.take THEN <<Head(queue)>> ELSE <<>>]
         /\ stopped' = (stopped \/ d.stop)
         /\ softOK' = (softOK /\ (d.stop => c = 0 /\ queue = <<>>))
         /\ running' = IF pc[w] = "lock_back" THEN running \ {w} ELSE running
         /\ pc' = [pc EXCEPT ![w] = d.pc]
         /\ ev' = Ev(w, a, IF a = "cvwake" THEN "cv" ELSE "m", "m", <<>>, FALSE, "Loop." \o a,
                     IF d.take THEN <<R("queue"), W("queue")>> ELSE <<R("queue")>>)
  /\ cvw' = cvw \ {w} /\ woken' = woken \ {w}
  /\ UNCHANGED <<scen, want, sk, accepted, called, dropped, waited, err>>

\* unlock, then run the job outside the lock
WUnlockRun(w) ==
  /\ pc[w] = "unl_run"
  /\ mtx' = "free"
  /\ LET j == Head(cur[w]) IN
     /\ called' = Append(called, j)
     /\ running' = running \cup {w}
     /\ err' = err \cup (IF waited THEN {<<"job ran after Wait returned", j>>} ELSE {})
     /\ ev' = Ev(w, "unlock", "m", "m", <<Ob("call", ToString(j))>>, FALSE, "Loop.unlock", <<R("data" \o ToString(j))>>)
  /\ pc' = [pc EXCEPT ![w] = "lock_back"]
  /\ UNCHANGED <<scen, queue, cnt, stopped, want, cvw, woken, sk, cur, accepted, dropped, softOK, waited>>

WCvWait(w) ==
  /\ pc[w] = "cvw"
  /\ mtx' = "free"
  /\ cvw' = cvw \cup {w}
  /\ pc' = [pc EXCEPT ![w] = "cvwk"]
  /\ ev' = Ev(w, "cvwait", "cv", "m", <<>>, FALSE, "Loop.cvwait", <<>>)
  /\ UNCHANGED <<scen, queue, cnt, stopped, want, woken, sk, cur, accepted, called, dropped, running, softOK, waited, err>>

\* Stop(lock) executed by the worker that saw NoJobs && WantStop: unlock, notify_all, leave
WUnlockStop(w) ==
  /\ pc[w] = "unl_stop"
  /\ mtx' = "free"
  /\ pc' = [pc EXCEPT ![w] = "nall"]
  /\ ev' = Ev(w, "unlock", "m", "m", <<>>, FALSE, "Loop.Stop.unlock", <<>>)
  /\ UNCHANGED <<scen, queue, cnt, stopped, want, cvw, woken, sk, cur, accepted, called, dropped, running, softOK, waited, err>>

WNotifyAll(w) ==
  /\ pc[w] = "nall"
  /\ woken' = woken \cup cvw
  /\ pc' = [pc EXCEPT ![w] = "exited"]
  /\ ev' = Ev(w, "notify_all", "cv", "m", <<>>, FALSE, "Loop.Stop.notify_all", <<>>)   \* (the exit of a pool thread is not logged)
  /\ UNCHANGED <<scen, mtx, queue, cnt, stopped, want, cvw, sk, cur, accepted, called, dropped, running, softOK, waited, err>>

WUnlockExit(w) ==
  /\ pc[w] = "unl_exit"
  /\ mtx' = "free"
  /\ pc' = [pc EXCEPT ![w] = "exited"]
  /\ ev' = Ev(w, "unlock", "m", "m", <<>>, FALSE, "Loop.exit.unlock", <<>>)
  /\ UNCHANGED <<scen, queue, cnt, stopped, want, cvw, woken, sk, cur, accepted, called, dropped, running, softOK, waited, err>>

(***************************************************************************)
(* Stopper: Stop | SoftStop; Stop | HardStop                                *)
(***************************************************************************)
KGate ==
  /\ pc.K = "gate"
  /\ pc' = [pc EXCEPT !.K = IF scen.stop = "soft" THEN "soft_lock" ELSE "klock"]
  /\ ev' = [Ev("K", "store", "kgate", "kgate", <<>>, FALSE, "Harness.gate", <<>>) EXCEPT !.old = "0", !.new = "1"]
  /\ UNCHANGED <<scen, mtx, queue, cnt, stopped, want, cvw, woken, sk, cur, accepted, called, dropped, running, softOK, waited, err>>

\* SoftStop: stop now if nothing is queued or running, otherwise leave the request to the workers
KSoftLock ==
  /\ pc.K = "soft_lock" /\ mtx = "free"
  /\ mtx' = "K"
  /\ IF cnt = 0
       THEN /\ stopped' = TRUE /\ UNCHANGED want
            /\ softOK' = (softOK /\ queue = <<>>)
            /\ pc' = [pc EXCEPT !.K = "soft_unl_stop"]
       ELSE /\ want' = TRUE /\ UNCHANGED <<stopped, softOK>>
            /\ pc' = [pc EXCEPT !.K = "soft_unl"]
  /\ ev' = Ev("K", "lock", "m", "m", <<>>, FALSE, "SoftStop.lock", <<R("queue")>>)
  /\ UNCHANGED <<scen, queue, cnt, cvw, woken, sk, cur, accepted, called, dropped, running, waited, err>>

KSoftUnlock ==
  /\ pc.K \in {"soft_unl", "soft_unl_stop"}
  /\ mtx' = "free"
  /\ IF pc.K = "soft_unl"
       THEN /\ pc' = [pc EXCEPT !.K = "klock"]
            /\ ev' = Ev("K", "unlock", "m", "m", <<Ob("soft_returned", "")>>, FALSE, "SoftStop.unlock", <<>>)
       ELSE /\ pc' = [pc EXCEPT !.K = "soft_nall"]
            /\ ev' = Ev("K", "unlock", "m", "m", <<>>, FALSE, "SoftStop.unlock", <<>>)
  /\ UNCHANGED <<scen, queue, cnt, stopped, want, cvw, woken, sk, cur, accepted, called, dropped, running, softOK, waited, err>>

KSoftNotifyAll ==
  /\ pc.K = "soft_nall"
  /\ woken' = woken \cup cvw
  /\ pc' = [pc EXCEPT !.K = "klock"]
  /\ ev' = Ev("K", "notify_all", "cv", "m", <<Ob("soft_returned", "")>>, FALSE, "SoftStop.notify_all", <<>>)
  /\ UNCHANGED <<scen, mtx, queue, cnt, stopped, want, cvw, sk, cur, accepted, called, dropped, running, softOK, waited, err>>

\* Stop / HardStop (and the Stop that follows SoftStop)
KLock ==
  /\ pc.K = "klock" /\ mtx = "free"
  /\ mtx' = "K"
  /\ stopped' = TRUE
  /\ IF scen.stop = "hard"
       THEN /\ cur' = [cur EXCEPT !.K = queue] /\ queue' = <<>>
            /\ ev' = Ev("K", "lock", "m", "m", <<>>, FALSE, "Stop.lock", <<R("queue"), W("queue")>>)
       ELSE /\ UNCHANGED <<cur, queue>>
            /\ ev' = Ev("K", "lock", "m", "m", <<>>, FALSE, "Stop.lock", <<>>)
  /\ pc' = [pc EXCEPT !.K = "kunl"]
  /\ UNCHANGED <<scen, cnt, want, cvw, woken, sk, accepted, called, dropped, running, softOK, waited, err>>

KUnlock ==
  /\ pc.K = "kunl"
  /\ mtx' = "free"
  /\ pc' = [pc EXCEPT !.K = "knall"]
  /\ ev' = Ev("K", "unlock", "m", "m", <<>>, FALSE, "Stop.unlock", <<>>)
  /\ UNCHANGED <<scen, queue, cnt, stopped, want, cvw, woken, sk, cur, accepted, called, dropped, running, softOK, waited, err>>

KNotifyAll ==
  /\ pc.K = "knall"
  /\ woken' = woken \cup cvw
  /\ dropped' = dropped \o cur.K          \* HardStop Drops what it stole, outside the lock
  /\ cur' = [cur EXCEPT !.K = <<>>]
  /\ pc' = [pc EXCEPT !.K = "done"]
  /\ ev' = Ev("K", "notify_all", "cv", "m",
              [k \in 1..Len(cur.K) |-> Ob("drop", ToString(cur.K[k]))] \o <<Ob("stop_returned", "")>>, TRUE, "Stop.notify_all", <<>>)
  /\ UNCHANGED <<scen, mtx, queue, cnt, stopped, want, cvw, sk, accepted, called, running, softOK, waited, err>>

\* the root: Wait() returns once every worker has left its loop
RootWait ==
  /\ ~waited
  /\ \A p \in UsedSubs \cup {"K"} : pc[p] = "done"
  /\ \A w \in UsedWrks : pc[w] = "exited"
  /\ waited' = TRUE
  /\ ev' = Ev("root", "robs", "-", "m", <<Ob("wait_returned", "")>>, FALSE, "-", <<>>)
  /\ UNCHANGED <<scen, mtx, queue, cnt, stopped, want, cvw, woken, pc, sk, cur, accepted, called, dropped, running, softOK, err>>

Step == \/ \E p \in Subs : SLock(p) \/ SUnlockDrop(p) \/ SUnlock(p) \/ SNotify(p)
        \/ \E w \in Wrks : WAcquire(w) \/ WUnlockRun(w) \/ WCvWait(w) \/ WUnlockStop(w) \/ WNotifyAll(w) \/ WUnlockExit(w)
        \/ KGate \/ KSoftLock \/ KSoftUnlock \/ KSoftNotifyAll \/ KLock \/ KUnlock \/ KNotifyAll

Quiescent == waited

(***************************************************************************)
(* Properties (C08)                                                         *)
(***************************************************************************)
Count(s, x) == Cardinality({k \in 1..Len(s) : s[k] = x})
AtMostOnce == \A j \in JobIds : Count(called, j) + Count(dropped, j) <= 1
\* accepted => Called exactly once unless HardStop removed it (then Dropped); rejected => Dropped exactly once
ExactlyOnceAtQuiescence ==
  Quiescent => \A j \in AllJobs :
     /\ Count(called, j) + Count(dropped, j) = 1
     /\ Count(accepted, j) = 0 => Count(dropped, j) = 1
     /\ (Count(accepted, j) = 1 /\ scen.stop # "hard") => Count(called, j) = 1
\* a rejected job was submitted after the pool had stopped
DropOnlyWhenStopped == dropped # <<>> => stopped
\* SoftStop stops only when no job is queued or running
SoftStopOnlyWhenIdle == softOK
\* after Wait returns no job is running or will run
WaitMeansDone == (waited => running = {}) /\ err = {}
\* with a single worker jobs start in submission (acceptance) order
RECURSIVE IsPrefixOrder(_, _)
IsPrefixOrder(a, b) == \* a is obtained from b by deleting elements
  IF a = <<>> THEN TRUE ELSE IF b = <<>> THEN FALSE
  ELSE IF Head(a) = Head(b) THEN IsPrefixOrder(Tail(a), Tail(b)) ELSE IsPrefixOrder(a, Tail(b))
SingleWorkerFIFO == scen.workers = 1 => IsPrefixOrder(called, accepted)
MutexOK == mtx \in Proc \cup {"free"}
=============================================================================
