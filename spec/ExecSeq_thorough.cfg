SPECIFICATION Spec
CONSTANTS
  Jobs = {"1", "2", "3"}
  Execs = {"M", "S", "T", "R", "I", "J"}
  Chains = {"none", "1S2", "1M2", "1T2", "1R2", "1I2"}
  MaxLen = 6
INVARIANTS CalledXorDropped DropOnlyWhenRefused Emit
CHECK_DEADLOCK FALSE
