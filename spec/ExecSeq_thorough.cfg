SPECIFICATION Spec
CONSTANTS
  Jobs = {"1", "2", "3"}
  Execs = {"M", "S", "T", "R", "I", "J"}
  Chains = {"none", "1S2", "1I2"}
  MaxLen = 5
INVARIANTS CalledXorDropped DropOnlyWhenRefused Emit
CHECK_DEADLOCK FALSE
