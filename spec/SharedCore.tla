----------------------------- MODULE SharedCore -----------------------------
(***************************************************************************)
(* One SharedPromise and its SharedFuture copies (property C06, ownership   *)
(* clauses of C03, happens-before clauses of C04), one action per slice     *)
(* (visible yaclib_std operation + the plain code that follows it).         *)
(*                                                                         *)
(* Code map                                                                 *)
(*   src/algo/base_core.cpp SetCallbackImpl<true>  -> OLoad, OCasw          *)
(*        (lock-free push: load; loop {next = head; weak CAS})              *)
(*   src/algo/base_core.cpp SetResultImpl<.,true>  -> PXchg, walk, PDec     *)
(*        (exchange kResult; LIFO walk reading next before running;         *)
(*         DecRef before the last callback, two more at the end)            *)
(*   include/yaclib/algo/detail/result_core.hpp Impl (copy / move decision  *)
(*        on GetRef()) -> PGetRef (Share callback run by the fulfiller)     *)
(*   include/yaclib/algo/detail/core.hpp Core::Impl / Done (FromShared)     *)
(*   include/yaclib/async/shared_future.hpp Get&&, Get const&, Ready,       *)
(*        Then, ThenInline, SubscribeInline; share.hpp / connect.hpp Share  *)
(*   include/yaclib/util/detail/atomic_counter.hpp Add / SubEqual           *)
(*                                                                         *)
(* Threads are processes ("P" fulfils, observers O1..On each perform one    *)
(* observer operation on their own copy and then drop the copy); callback   *)
(* cores are passive objects run by whoever completes the shared state.     *)
(***************************************************************************)
EXTENDS Naturals, Sequences, FiniteSets, TLC

CONSTANTS Obs,         \* observer threads, e.g. {"O1", "O2"}
          ObsOps,      \* observer operations explored
          ProdKinds,
          WeakBudget   \* spurious weak-CAS failures allowed per execution

Proc == {"P"} \cup Obs

AttachOps == {"then_inline", "then_exec", "subscribe", "share", "get", "get_const"}
WaitOps   == {"get", "get_const"}
AllOps    == AttachOps \cup {"copy_drop", "ready", "none"}

PLocs == {"res", "score"} \cup UNION {{"cbk:" \o i, "ores:" \o i, "evobj:" \o i, "evready:" \o i} : i \in Obs}
ALocs == {"sc.cb", "sc.rc", "gate"} \cup UNION {{"own:" \o i, "mtx:" \o i} : i \in Obs}

MM == INSTANCE MemModel WITH MProc <- Proc, MALoc <- ALocs, MPLoc <- PLocs

VARIABLES scen,    \* [prod, ops : Obs -> op, weak]
          word,    \* callback word of the shared core: [st : "E"|"R"|"S", s : stack of observers, head first]
          rc,      \* reference counter
          res,     \* "none" | payload | "moved"
          salive,  \* shared core allocated
          cb,      \* per observer: its callback object [own, alive, nxt, val]
          q,       \* jobs in the recording executor (observer ids)
          evt,     \* per observer: stack event of Get [ready, waiting, woken]
          mtx,     \* per observer: event mutex owner
          pc, exp, \* per process program counter; per observer the `next' local of the push loop
          walk,    \* fulfiller: callbacks still to run, current first
          weak,    \* remaining spurious failures
          calls, gets,   \* per observer: values the callback / Get / Touch reported
          err, ev, mm

vars == <<scen, word, rc, res, salive, cb, q, evt, mtx, pc, exp, walk, weak, calls, gets, err, ev, mm>>

Payload == CASE scen.prod = "val" -> "v7" [] OTHER -> "stop"
Op(i) == scen.ops[i]
Live == {i \in Obs : Op(i) # "none"}

EW == [st |-> "E", s |-> <<>>]
RW == [st |-> "R", s |-> <<>>]
PtrOf(i) == IF Op(i) \in WaitOps THEN "@" \o i \o ".stk" ELSE "@" \o i \o ".a0"
WStr(w) == IF w.st = "E" THEN "0" ELSE IF w.st = "R" THEN "MAX" ELSE PtrOf(Head(w.s))
OwnObj(i) == i \o ".a0.cb"

Ob(k, v) == [k |-> k, v |-> v]
W(l) == [k |-> "W", l |-> l]
R(l) == [k |-> "R", l |-> l]

Ev(p, a, o, old, new, ok, spur, obs, done, site, fences, post) ==
  [p |-> p, a |-> a, o |-> o, old |-> old, new |-> new, ok |-> ok, spur |-> spur, obs |-> obs, done |-> done,
   site |-> site, nf |-> fences, post |-> post]
NoEv == Ev("-", "-", "-", "-", "-", TRUE, FALSE, <<>>, FALSE, "-", 0, <<>>)

\* what a reader of the result slot sees
Seen == IF res \in {"none", "moved"} THEN "garbage:" \o res ELSE res

InitMM(s) ==
  LET RECURSIVE Prep(_, _)
      Prep(m, todo) ==
        IF todo = {} THEN m
        ELSE LET i == CHOOSE x \in todo : TRUE
                 m1 == IF s.ops[i] \in AttachOps \ WaitOps THEN MM!PWrite(MM!PWrite(m, i, "cbk:" \o i), i, "ores:" \o i)
                       ELSE IF s.ops[i] \in WaitOps THEN MM!PWrite(MM!PWrite(MM!PWrite(m, i, "cbk:" \o i), i, "evobj:" \o i), i, "evready:" \o i)
                       ELSE m
             IN  Prep(m1, todo \ {i})
  IN  Prep(MM!MInit, Obs)

I0(s) ==
  [ scen |-> s, word |-> EW,
    rc |-> 3 + Cardinality({i \in Obs : s.ops[i] # "none"}),
    res |-> "none", salive |-> TRUE,
    cb |-> [i \in Obs |-> [own |-> "0", alive |-> IF s.ops[i] \in AttachOps THEN "yes" ELSE "no", nxt |-> "-", val |-> "none"]],
    q |-> <<>>,
    evt |-> [i \in Obs |-> [ready |-> FALSE, waiting |-> FALSE, woken |-> FALSE]],
    mtx |-> [i \in Obs |-> "free"],
    pc |-> [p \in Proc |-> IF p = "P" THEN "gate"
                           ELSE CASE s.ops[p] = "none" -> "done" [] s.ops[p] = "subscribe" -> "store"
                                  [] s.ops[p] = "copy_drop" -> "inc" [] s.ops[p] = "ready" -> "rdy" [] OTHER -> "load"],
    exp |-> [i \in Obs |-> EW], walk |-> <<>>, weak |-> s.weak,
    calls |-> [i \in Obs |-> <<>>], gets |-> [i \in Obs |-> <<>>],
    err |-> {}, ev |-> NoEv, mm |-> InitMM(s) ]

InitScen(s) ==
  LET i == I0(s) IN
  /\ scen = i.scen /\ word = i.word /\ rc = i.rc /\ res = i.res /\ salive = i.salive /\ cb = i.cb /\ q = i.q
  /\ evt = i.evt /\ mtx = i.mtx /\ pc = i.pc /\ exp = i.exp /\ walk = i.walk /\ weak = i.weak
  /\ calls = i.calls /\ gets = i.gets /\ err = i.err /\ ev = i.ev /\ mm = i.mm

ResetScen(s) ==
  LET i == I0(s) IN
  /\ scen' = i.scen /\ word' = i.word /\ rc' = i.rc /\ res' = i.res /\ salive' = i.salive /\ cb' = i.cb /\ q' = i.q
  /\ evt' = i.evt /\ mtx' = i.mtx /\ pc' = i.pc /\ exp' = i.exp /\ walk' = i.walk /\ weak' = i.weak
  /\ calls' = i.calls /\ gets' = i.gets /\ err' = i.err /\ ev' = i.ev /\ mm' = i.mm

Scens == {s \in [prod : ProdKinds, ops : [Obs -> ObsOps], weak : {WeakBudget}] : \E i \in Obs : s.ops[i] # "none"}
Init == \E s \in Scens : InitScen(s)

UseS == IF salive THEN {} ELSE {<<"use-after-free", "shared core">>}
UseC(i) == IF cb[i].alive = "yes" THEN {} ELSE {<<"use-after-free", "callback of " \o i>>}

(***************************************************************************)
(* Running a callback.  Kinds whose Here() starts with plain code (the user *)
(* functor of ThenInline / SubscribeInline) produce their observation in    *)
(* the slice in which they are started; the others start with a visible     *)
(* operation.  First program counter of the runner per kind:                *)
(***************************************************************************)
HasPrefix(i) == Op(i) \in {"then_inline", "subscribe"}
FirstPc(i) == CASE Op(i) \in {"then_inline", "subscribe"} -> "x_own"
                [] Op(i) = "then_exec" -> "incref"
                [] Op(i) = "share" -> "getref"
                [] Op(i) \in WaitOps -> "elock"
PrefixObs(i, v) == IF HasPrefix(i) THEN <<Ob("call", i \o ":" \o v)>> ELSE <<>>
PrefixPost(i) == IF HasPrefix(i) THEN <<R("cbk:" \o i), R("res"), W("ores:" \o i)>> ELSE <<R("cbk:" \o i)>>

(***************************************************************************)
(* Fulfiller                                                                *)
(* pc.P: "xchg" | runner pcs ("x_own","incref","getref","elock","enotify",  *)
(*        "eunlock") on Head(walk) | "d1" "d2" "d3" | "done"                *)
(***************************************************************************)
\* After the current step of the fulfiller: `rest' are the callbacks still to run (first = next to start).
\* Returns what starts in the tail of this slice: [pc, start] where start is the observer whose callback begins.
PNextAfter(rest, decs) ==
  IF Len(rest) >= 2 THEN [pc |-> FirstPc(Head(rest)), start |-> Head(rest)]
  ELSE IF Len(rest) = 1 /\ decs = 0 THEN [pc |-> "d1", start |-> "-"]         \* DecRef before the last callback
  ELSE IF Len(rest) = 1 THEN [pc |-> FirstPc(Head(rest)), start |-> Head(rest)]
  ELSE [pc |-> IF decs = 0 THEN "d1" ELSE IF decs = 1 THEN "d2" ELSE "d3", start |-> "-"]

\* ghost: number of DecRefs the fulfiller has performed is encoded in pc / walk: after d1 the last callback runs
PDecsDone == IF pc.P \in {"d2", "d3"} THEN 1 ELSE 0

\* common tail: begin callback `st' (or none) with the result value v
StartFx(st, v) ==
  /\ calls' = IF st # "-" /\ HasPrefix(st) THEN [calls EXCEPT ![st] = Append(@, v)] ELSE calls
  /\ cb' = IF st # "-" /\ HasPrefix(st) THEN [cb EXCEPT ![st].val = "set"] ELSE cb
StartObs(st, v) == IF st = "-" THEN <<>> ELSE PrefixObs(st, v)
StartPost(st) == IF st = "-" THEN <<>> ELSE PrefixPost(st)
StartErr(st) == IF st = "-" THEN {} ELSE UseC(st)

\* the fulfiller's first visible operation (a flag of the harness); in its tail SharedPromise::Set stores the result
PGate ==
  /\ pc.P = "gate"
  /\ pc' = [pc EXCEPT !.P = "xchg"]
  /\ res' = Payload
  /\ ev' = Ev("P", "store", "gate", "0", "1", TRUE, FALSE, <<>>, FALSE, "Harness.gate", 0, <<W("res")>>)
  /\ UNCHANGED <<scen, word, rc, salive, cb, q, evt, mtx, exp, walk, weak, calls, gets, err>>

PXchg ==
  /\ pc.P = "xchg"
  /\ word' = RW /\ UNCHANGED res
  /\ LET stack == word.s
         nx == PNextAfter(stack, 0)
     IN  /\ walk' = stack
         /\ pc' = [pc EXCEPT !.P = nx.pc]
         /\ StartFx(nx.start, Payload)
         /\ err' = err \cup UseS \cup StartErr(nx.start)
         /\ ev' = Ev("P", "xchg", "sc.cb", WStr(word), "MAX", TRUE, FALSE, StartObs(nx.start, Payload), FALSE,
                     "SetResult.xchg", 0, StartPost(nx.start))
  /\ UNCHANGED <<scen, rc, salive, q, evt, mtx, exp, weak, gets>>

\* the fulfiller finished the callback at Head(walk); `decs' = DecRefs done so far (0 before d1)
PAdvance(a, o, old, new, site, extraObs, extraPost, decs) ==
  LET rest == Tail(walk)
      nx == PNextAfter(rest, decs)
  IN  /\ walk' = rest
      /\ pc' = [pc EXCEPT !.P = nx.pc]
      /\ calls' = IF nx.start # "-" /\ HasPrefix(nx.start) THEN [calls EXCEPT ![nx.start] = Append(@, Seen)] ELSE calls
      /\ ev' = Ev("P", a, o, old, new, TRUE, FALSE, extraObs \o StartObs(nx.start, Seen), FALSE, site, 0,
                  extraPost \o StartPost(nx.start))

\* DecRefs done by the fulfiller when the callback at Head(walk) is running: 0 if others follow, 1 if it is the last
DecsNow == IF Len(walk) = 1 /\ Len(word.s) >= 0 THEN 1 ELSE 0

\* SetResult of the callback's own core (ThenInline / SubscribeInline / Share target), run by the fulfiller
PXOwn ==
  /\ pc.P = "x_own" /\ walk # <<>>
  /\ LET i == Head(walk)
         old == cb[i].own
         freed == old = "@drop"
     IN  /\ PAdvance("xchg", OwnObj(i), old, "MAX", "Callback.SetResult.xchg", <<>>,
                     IF freed THEN <<W("cbk:" \o i)>> ELSE <<>>, DecsNow)
         /\ cb' = [cb EXCEPT ![i].own = "MAX", ![i].alive = IF freed THEN "freed" ELSE @,
                              ![i].val = IF Op(i) = "share" THEN cb[i].val ELSE @]
         /\ err' = err \cup UseC(i)
  /\ UNCHANGED <<scen, word, rc, res, salive, q, evt, mtx, exp, weak, gets>>

\* Then(e, f): the callback takes a reference on the shared state and submits itself
PIncRef ==
  /\ pc.P = "incref" /\ walk # <<>>
  /\ LET i == Head(walk) IN
     /\ rc' = rc + 1
     /\ q' = Append(q, i)
     /\ PAdvance("fadd", "sc.rc", ToString(rc), ToString(rc + 1), "Callback.IncRef.fadd", <<Ob("submit", "q")>>,
                 <<W("cbk:" \o i)>>, DecsNow)
     /\ err' = err \cup UseC(i) \cup UseS
  /\ UNCHANGED <<scen, word, res, salive, cb, evt, mtx, exp, weak, gets>>

\* Share: the unique core reads the reference count to decide copy / move, stores, then publishes itself
PGetRef ==
  /\ pc.P = "getref" /\ walk # <<>>
  /\ LET i == Head(walk)
         move == rc < 3
     IN  /\ cb' = [cb EXCEPT ![i].val = Seen]
         /\ res' = IF move THEN "moved" ELSE res
         /\ pc' = [pc EXCEPT !.P = "x_own"]
         /\ err' = err \cup UseC(i) \cup UseS
         /\ ev' = Ev("P", "load", "sc.rc", ToString(rc), ToString(rc), TRUE, FALSE, <<>>, FALSE, "Impl.GetRef.load", 0,
                     IF move THEN <<R("res"), W("res"), W("ores:" \o i)>> ELSE <<R("res"), W("ores:" \o i)>>)
  /\ UNCHANGED <<scen, word, rc, salive, q, evt, mtx, exp, walk, weak, calls, gets>>

\* Get / Get const&: the callback is the waiter's stack event: Set() = lock, ready, notify, unlock
PELock ==
  /\ pc.P = "elock" /\ walk # <<>>
  /\ LET i == Head(walk) IN
     /\ mtx[i] = "free"
     /\ mtx' = [mtx EXCEPT ![i] = "P"]
     /\ evt' = [evt EXCEPT ![i].ready = TRUE]
     /\ pc' = [pc EXCEPT !.P = "enotify"]
     /\ ev' = Ev("P", "lock", i \o ".stk", "-", "-", TRUE, FALSE, <<>>, FALSE, "Event.Set.lock", 0,
                 <<R("evobj:" \o i), W("evready:" \o i)>>)
  /\ UNCHANGED <<scen, word, rc, res, salive, cb, q, exp, walk, weak, calls, gets, err>>

PENotify ==
  /\ pc.P = "enotify" /\ walk # <<>>
  /\ LET i == Head(walk) IN
     /\ evt' = [evt EXCEPT ![i].woken = (@ \/ evt[i].waiting)]
     /\ pc' = [pc EXCEPT !.P = "eunlock"]
     /\ ev' = Ev("P", "notify_one", i \o ".stk", "-", "-", TRUE, FALSE, <<>>, FALSE, "Event.Set.notify", 0,
                 <<R("evobj:" \o i)>>)
  /\ UNCHANGED <<scen, word, rc, res, salive, cb, q, mtx, exp, walk, weak, calls, gets, err>>

PEUnlock ==
  /\ pc.P = "eunlock" /\ walk # <<>>
  /\ LET i == Head(walk) IN
     /\ mtx' = [mtx EXCEPT ![i] = "free"]
     /\ PAdvance("unlock", i \o ".stk", "-", "-", "Event.Set.unlock", <<>>, <<>>, DecsNow)
  /\ UNCHANGED <<scen, word, rc, res, salive, cb, q, evt, exp, weak, gets, err>>

\* DecRef: d1 before the last callback, d2 and d3 at the end
PDec ==
  /\ pc.P \in {"d1", "d2", "d3"}
  /\ rc' = rc - 1
  /\ LET last == rc = 1
         st == IF pc.P = "d1" /\ walk # <<>> THEN Head(walk) ELSE "-"
         npc == IF pc.P = "d1" THEN (IF walk # <<>> THEN FirstPc(Head(walk)) ELSE "d2")
                ELSE IF pc.P = "d2" THEN "d3" ELSE "done"
     IN  /\ pc' = [pc EXCEPT !.P = npc]
         /\ salive' = IF last THEN FALSE ELSE salive
         /\ calls' = IF st # "-" /\ HasPrefix(st) THEN [calls EXCEPT ![st] = Append(@, Seen)] ELSE calls
         /\ err' = err \cup UseS \cup StartErr(st)
         /\ ev' = Ev("P", "fsub", "sc.rc", ToString(rc), ToString(rc - 1), TRUE, FALSE, StartObs(st, Seen), pc.P = "d3",
                     "SetResult.DecRef.fsub", IF last THEN 1 ELSE 0,
                     (IF last THEN <<W("res"), W("score")>> ELSE <<>>) \o StartPost(st))
  /\ UNCHANGED <<scen, word, res, cb, q, evt, mtx, exp, walk, weak, gets>>

(***************************************************************************)
(* Observers                                                                *)
(***************************************************************************)
OStore(i) ==
  /\ pc[i] = "store"
  /\ cb' = [cb EXCEPT ![i].own = "@drop"]
  /\ pc' = [pc EXCEPT ![i] = "load"]
  /\ ev' = Ev(i, "store", OwnObj(i), "0", "@drop", TRUE, FALSE, <<>>, FALSE, "Subscribe.store", 0, <<>>)
  /\ UNCHANGED <<scen, word, rc, res, salive, q, evt, mtx, exp, walk, weak, calls, gets, err>>

\* tail of the slice in which observer i learned that the result is already there
OReady(i, a, old, new, ok, spur, site) ==
  CASE Op(i) \in {"then_inline", "subscribe"} ->
         /\ calls' = [calls EXCEPT ![i] = Append(@, Seen)]
         /\ pc' = [pc EXCEPT ![i] = "x_own"]
         /\ err' = err \cup UseS
         /\ ev' = Ev(i, a, "sc.cb", old, new, ok, spur, <<Ob("call", i \o ":" \o Seen)>>, FALSE, site, 0,
                     <<R("res"), W("ores:" \o i)>>)
         /\ UNCHANGED <<rc, res, cb, q, gets>>
    [] Op(i) = "then_exec" ->
         /\ pc' = [pc EXCEPT ![i] = "incref"]
         /\ ev' = Ev(i, a, "sc.cb", old, new, ok, spur, <<>>, FALSE, site, 0, <<>>)
         /\ UNCHANGED <<rc, res, cb, q, calls, gets, err>>
    [] Op(i) = "share" ->
         /\ cb' = [cb EXCEPT ![i].val = Seen]
         /\ pc' = [pc EXCEPT ![i] = "x_own"]
         /\ err' = err \cup UseS
         /\ ev' = Ev(i, a, "sc.cb", old, new, ok, spur, <<>>, FALSE, site, 0, <<R("res"), W("ores:" \o i)>>)
         /\ UNCHANGED <<rc, res, q, calls, gets>>
    [] Op(i) = "get" ->
         /\ pc' = [pc EXCEPT ![i] = "getref"]
         /\ ev' = Ev(i, a, "sc.cb", old, new, ok, spur, <<>>, FALSE, site, 0, <<W("evobj:" \o i)>>)
         /\ UNCHANGED <<rc, res, cb, q, calls, gets, err>>
    [] Op(i) = "get_const" ->
         /\ gets' = [gets EXCEPT ![i] = Append(@, Seen)]
         /\ pc' = [pc EXCEPT ![i] = "drop"]
         /\ err' = err \cup UseS
         /\ ev' = Ev(i, a, "sc.cb", old, new, ok, spur, <<Ob("get", i \o ":" \o Seen)>>, FALSE, site, 0,
                     <<W("evobj:" \o i), R("res")>>)
         /\ UNCHANGED <<rc, res, cb, q, calls>>

OLoad(i) ==
  /\ pc[i] = "load"
  /\ exp' = [exp EXCEPT ![i] = word]
  /\ IF word.st = "R"
       THEN OReady(i, "load", "MAX", "MAX", TRUE, FALSE, "SetCallback.load")
       ELSE /\ pc' = [pc EXCEPT ![i] = "casw"]
            /\ ev' = Ev(i, "load", "sc.cb", WStr(word), WStr(word), TRUE, FALSE, <<>>, FALSE, "SetCallback.load", 0,
                        <<W("cbk:" \o i)>>)
            /\ UNCHANGED <<rc, res, cb, q, calls, gets, err>>
  /\ UNCHANGED <<scen, word, salive, evt, mtx, walk, weak>>

\* the weak CAS of the push loop; a spurious failure is the fault layer's load(failure order) of the current value
OCasw(i) ==
  /\ pc[i] = "casw"
  /\ \/ /\ word = exp[i]                         \* success: pushed
        /\ word' = [st |-> "S", s |-> <<i>> \o word.s]
        /\ pc' = [pc EXCEPT ![i] = IF Op(i) \in WaitOps THEN "evlock" ELSE "drop"]
        /\ ev' = Ev(i, "casw", "sc.cb", WStr(word), PtrOf(i), TRUE, FALSE, <<>>, FALSE, "SetCallback.casw", 0, <<>>)
        /\ UNCHANGED <<rc, res, cb, q, calls, gets, err, exp, weak>>
     \/ /\ word # exp[i]                         \* failure: expected := current
        /\ exp' = [exp EXCEPT ![i] = word]
        /\ UNCHANGED <<word, weak>>
        /\ IF word.st = "R"
             THEN OReady(i, "casw", "MAX", "MAX", FALSE, FALSE, "SetCallback.casw")
             ELSE /\ pc' = pc
                  /\ ev' = Ev(i, "casw", "sc.cb", WStr(word), WStr(word), FALSE, FALSE, <<>>, FALSE, "SetCallback.casw", 0,
                              <<W("cbk:" \o i)>>)
                  /\ UNCHANGED <<rc, res, cb, q, calls, gets, err>>
     \/ /\ weak > 0                              \* spurious failure
        /\ weak' = weak - 1
        /\ exp' = [exp EXCEPT ![i] = word]
        /\ UNCHANGED word
        /\ IF word.st = "R"
             THEN OReady(i, "load", "MAX", "MAX", TRUE, TRUE, "SetCallback.casw.spurious")
             ELSE /\ pc' = pc
                  /\ ev' = Ev(i, "load", "sc.cb", WStr(word), WStr(word), TRUE, TRUE, <<>>, FALSE, "SetCallback.casw.spurious", 0,
                              <<W("cbk:" \o i)>>)
                  /\ UNCHANGED <<rc, res, cb, q, calls, gets, err>>
  /\ UNCHANGED <<scen, salive, evt, mtx, walk>>

\* SetResult of the observer's own core when the observer itself ran the callback
OXOwn(i) ==
  /\ pc[i] = "x_own"
  /\ LET old == cb[i].own
         freed == old = "@drop"
     IN  /\ cb' = [cb EXCEPT ![i].own = "MAX", ![i].alive = IF freed THEN "freed" ELSE @,
                              ![i].val = IF Op(i) = "share" THEN @ ELSE "set"]
         /\ err' = err \cup UseC(i)
         /\ pc' = [pc EXCEPT ![i] = "drop"]
         /\ ev' = Ev(i, "xchg", OwnObj(i), old, "MAX", TRUE, FALSE, <<>>, FALSE, "Callback.SetResult.xchg", 0,
                     IF freed THEN <<W("cbk:" \o i)>> ELSE <<>>)
  /\ UNCHANGED <<scen, word, rc, res, salive, q, evt, mtx, exp, walk, weak, calls, gets>>

OIncRef(i) ==
  /\ pc[i] = "incref"
  /\ rc' = rc + 1
  /\ q' = Append(q, i)
  /\ pc' = [pc EXCEPT ![i] = "drop"]
  /\ err' = err \cup UseS
  /\ ev' = Ev(i, "fadd", "sc.rc", ToString(rc), ToString(rc + 1), TRUE, FALSE, <<Ob("submit", "q")>>, FALSE,
              "Callback.IncRef.fadd", 0, <<W("cbk:" \o i)>>)
  /\ UNCHANGED <<scen, word, res, salive, cb, evt, mtx, exp, walk, weak, calls, gets>>

OEvLock(i) ==
  /\ pc[i] = "evlock" /\ mtx[i] = "free"
  /\ mtx' = [mtx EXCEPT ![i] = i]
  /\ pc' = [pc EXCEPT ![i] = IF evt[i].ready THEN "evunlock" ELSE "cvwait"]
  /\ ev' = Ev(i, "lock", i \o ".stk", "-", "-", TRUE, FALSE, <<>>, FALSE, "Event.Wait.lock", 0, <<R("evready:" \o i)>>)
  /\ UNCHANGED <<scen, word, rc, res, salive, cb, q, evt, exp, walk, weak, calls, gets, err>>

OCvWait(i) ==
  /\ pc[i] = "cvwait"
  /\ mtx' = [mtx EXCEPT ![i] = "free"]
  /\ evt' = [evt EXCEPT ![i].waiting = TRUE]
  /\ pc' = [pc EXCEPT ![i] = "cvwake"]
  /\ ev' = Ev(i, "cvwait", i \o ".stk", "-", "-", TRUE, FALSE, <<>>, FALSE, "Event.Wait.cvwait", 0, <<>>)
  /\ UNCHANGED <<scen, word, rc, res, salive, cb, q, exp, walk, weak, calls, gets, err>>

OCvWake(i) ==
  /\ pc[i] = "cvwake" /\ evt[i].woken /\ mtx[i] = "free"
  /\ mtx' = [mtx EXCEPT ![i] = i]
  /\ evt' = [evt EXCEPT ![i].waiting = FALSE, ![i].woken = FALSE]
  /\ pc' = [pc EXCEPT ![i] = IF evt[i].ready THEN "evunlock" ELSE "cvwait"]
  /\ ev' = Ev(i, "cvwake", i \o ".stk", "-", "-", TRUE, FALSE, <<>>, FALSE, "Event.Wait.cvwake", 0, <<R("evready:" \o i)>>)
  /\ UNCHANGED <<scen, word, rc, res, salive, cb, q, exp, walk, weak, calls, gets, err>>

OEvUnlock(i) ==
  /\ pc[i] = "evunlock"
  /\ mtx' = [mtx EXCEPT ![i] = "free"]
  /\ IF Op(i) = "get"
       THEN /\ pc' = [pc EXCEPT ![i] = "getref"]
            /\ ev' = Ev(i, "unlock", i \o ".stk", "-", "-", TRUE, FALSE, <<>>, FALSE, "Event.Wait.unlock", 0, <<W("evobj:" \o i)>>)
            /\ UNCHANGED <<gets, err>>
       ELSE /\ gets' = [gets EXCEPT ![i] = Append(@, Seen)]
            /\ pc' = [pc EXCEPT ![i] = "drop"]
            /\ err' = err \cup UseS
            /\ ev' = Ev(i, "unlock", i \o ".stk", "-", "-", TRUE, FALSE, <<Ob("get", i \o ":" \o Seen)>>, FALSE,
                        "Event.Wait.unlock", 0, <<W("evobj:" \o i), R("res")>>)
  /\ UNCHANGED <<scen, word, rc, res, salive, cb, q, evt, exp, walk, weak, calls>>

\* SharedFuture::Get() && : move out iff this is the only reference
OGetRef(i) ==
  /\ pc[i] = "getref"
  /\ LET move == rc = 1 IN
     /\ gets' = [gets EXCEPT ![i] = Append(@, Seen)]
     /\ res' = IF move THEN "moved" ELSE res
     /\ pc' = [pc EXCEPT ![i] = "drop"]
     /\ err' = err \cup UseS
     /\ ev' = Ev(i, "load", "sc.rc", ToString(rc), ToString(rc), TRUE, FALSE, <<Ob("get", i \o ":" \o Seen)>>, FALSE,
                 "Get.GetRef.load", 0, IF move THEN <<R("res"), W("res")>> ELSE <<R("res")>>)
  /\ UNCHANGED <<scen, word, rc, salive, cb, q, evt, mtx, exp, walk, weak, calls>>

OInc(i) ==
  /\ pc[i] = "inc"
  /\ rc' = rc + 1
  /\ pc' = [pc EXCEPT ![i] = "dec"]
  /\ err' = err \cup UseS
  /\ ev' = Ev(i, "fadd", "sc.rc", ToString(rc), ToString(rc + 1), TRUE, FALSE, <<>>, FALSE, "Copy.fadd", 0, <<>>)
  /\ UNCHANGED <<scen, word, res, salive, cb, q, evt, mtx, exp, walk, weak, calls, gets>>

\* dropping a reference: the copy ("dec") or the observer's own handle ("drop")
ODec(i) ==
  /\ pc[i] \in {"dec", "drop"}
  /\ rc' = rc - 1
  /\ LET last == rc = 1 IN
     /\ salive' = IF last THEN FALSE ELSE salive
     /\ pc' = [pc EXCEPT ![i] = IF pc[i] = "dec" THEN "drop" ELSE "done"]
     /\ err' = err \cup UseS
     /\ ev' = Ev(i, "fsub", "sc.rc", ToString(rc), ToString(rc - 1), TRUE, FALSE, <<>>, pc[i] = "drop",
                 IF pc[i] = "dec" THEN "Copy.DecRef.fsub" ELSE "Handle.DecRef.fsub", IF last THEN 1 ELSE 0,
                 IF last THEN <<W("res"), W("score")>> ELSE <<>>)
  /\ UNCHANGED <<scen, word, res, cb, q, evt, mtx, exp, walk, weak, calls, gets>>

\* SharedFuture::Ready() followed, when true, by Touch() const&
ORdy(i) ==
  /\ pc[i] = "rdy"
  /\ pc' = [pc EXCEPT ![i] = "drop"]
  /\ LET ready == word.st = "R" IN          \* Ready() is "the callback word holds kResult"
     /\ gets' = IF ready THEN [gets EXCEPT ![i] = Append(@, Seen)] ELSE gets
     /\ err' = err \cup UseS
     /\ ev' = Ev(i, "load", "sc.cb", WStr(word), WStr(word), TRUE, FALSE,
                 IF ready THEN <<Ob("ready", "1"), Ob("read", i \o ":" \o Seen)>> ELSE <<Ob("ready", "0")>>,
                 FALSE, "Ready.load", 0, IF ready THEN <<R("res")>> ELSE <<>>)
  /\ UNCHANGED <<scen, word, rc, res, salive, cb, q, evt, mtx, exp, walk, weak, calls>>

\* the root drains the recording executor after all threads have finished: runs Then(e, f) jobs
RootDrain ==
  /\ \A p \in Proc : pc[p] = "done"
  /\ q # <<>>
  /\ LET i == Head(q)
         last == rc = 1
     IN  /\ q' = Tail(q)
         /\ calls' = [calls EXCEPT ![i] = Append(@, Seen)]
         /\ cb' = [cb EXCEPT ![i].own = "MAX", ![i].val = "set"]
         /\ rc' = rc - 1
         /\ salive' = IF last THEN FALSE ELSE salive
         /\ err' = err \cup UseS \cup UseC(i)
         /\ ev' = Ev("root", "robs", "-", "-", "-", TRUE, FALSE, <<Ob("call", i \o ":" \o Seen)>>, FALSE, "-", 0, <<>>)
  /\ UNCHANGED <<scen, word, res, evt, mtx, pc, exp, walk, weak, gets>>

ObsStep(i) == \/ OStore(i) \/ OLoad(i) \/ OCasw(i) \/ OXOwn(i) \/ OIncRef(i) \/ OEvLock(i) \/ OCvWait(i) \/ OCvWake(i)
              \/ OEvUnlock(i) \/ OGetRef(i) \/ OInc(i) \/ ODec(i) \/ ORdy(i)

Step == \/ PGate \/ PXchg \/ PXOwn \/ PIncRef \/ PGetRef \/ PELock \/ PENotify \/ PEUnlock \/ PDec
        \/ \E i \in Obs : ObsStep(i)

Quiescent == (\A p \in Proc : pc[p] = "done") /\ q = <<>>

(***************************************************************************)
(* Properties                                                               *)
(***************************************************************************)
\* C06: every attached callback fires exactly once (at most once always), only with the value that was set
FiresAtMostOnce == \A i \in Obs : Len(calls[i]) <= 1
NeverGarbage == \A i \in Obs : /\ \A k \in 1..Len(calls[i]) : calls[i][k] = Payload
                               /\ \A k \in 1..Len(gets[i])  : gets[i][k] = Payload
FiresAtQuiescence ==
  Quiescent => \A i \in Obs :
     /\ Op(i) \in {"then_inline", "then_exec", "subscribe"} => calls[i] = <<Payload>>
     /\ Op(i) \in WaitOps => gets[i] = <<Payload>>
     /\ Op(i) = "share" => (cb[i].val = Payload /\ cb[i].own = "MAX")
\* C03
OwnershipOK == err = {}
ReleasedAtQuiescence == Quiescent => (~salive /\ rc = 0)
RefCountSane == rc >= 0 /\ (salive => rc > 0)

\* ---------------- binding to the harness ----------------
Loc(o) == CASE o = "sc.cb" -> "sc.cb" [] o = "sc.rc" -> "sc.rc" [] o = "gate" -> "gate"
            [] \E i \in Obs : o = OwnObj(i) -> "own:" \o (CHOOSE i \in Obs : o = OwnObj(i))
            [] OTHER -> "mtx:" \o (CHOOSE i \in Obs : o = i \o ".stk")

FinalOf(i) ==
  CASE Op(i) \in {"then_inline", "then_exec"} -> (i \o "_next") :> "v1"
    [] Op(i) = "share" -> (i \o "_share") :> Payload
    [] Op(i) = "whenall" -> (i \o "_when") :> Payload      \* the copy WhenAll retired from the shared state (monitors only)
    [] Op(i) = "await2" -> (i \o "_await") :> "ready"      \* a coroutine awaiting this copy + a ready SharedFuture (monitors only)
    [] OTHER -> <<>>
RECURSIVE FinalAll(_)
FinalAll(S) == IF S = {} THEN [live |-> "0", read_moved |-> "0"]
               ELSE LET i == CHOOSE x \in S : TRUE
                    IN  IF Op(i) \in {"then_inline", "then_exec", "share", "whenall", "await2"} THEN FinalOf(i) @@ FinalAll(S \ {i})
                        ELSE FinalAll(S \ {i})
ExpectedFinal == FinalAll(Obs)
=============================================================================
