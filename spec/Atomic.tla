------------------------------- MODULE Atomic -------------------------------
(***************************************************************************)
(* Reference semantics of std::atomic<T> for one thread (property C19),     *)
(* transcribed operation by operation from [atomics.types.operations],      *)
(* [atomics.types.int], [atomics.types.float], [atomics.types.pointer].     *)
(*                                                                         *)
(* A value of an integral type of width w is a little-endian sequence of    *)
(* NL limbs in base B (8 bit: 1 limb base 256; 16/32/64 bit: 1/2/4 limbs    *)
(* base 65536) so that all arithmetic is exact inside TLC's 32-bit          *)
(* integers; arithmetic is modulo 2^w (signed and unsigned types have the   *)
(* same bit patterns: atomic arithmetic on signed types wraps, it is not    *)
(* undefined).  bool uses base 2, pointers are element indices and          *)
(* floating types are restricted to small integer values, where IEEE        *)
(* arithmetic is exact (stated limit of the check).                         *)
(*                                                                         *)
(* TLC explores all operation sequences up to MaxDepth from every initial   *)
(* value and prints each maximal sequence with the value every operation    *)
(* must return, the stored value afterwards and the updated `expected' of   *)
(* compare_exchange; the harness executes the sequences on                  *)
(* yaclib_std::atomic<T> in both fault-injection backends and on            *)
(* std::atomic<T> itself (cross-check of this transcription).               *)
(***************************************************************************)
EXTENDS Naturals, Sequences, TLC, Bitwise, Json, Atomic_fgen

CONSTANTS Kind,       \* "int" | "bool" | "ptr" | "float" | "flag" (atomic_flag: test_and_set / clear, with fences in between)
                      \* | "fx32" | "fx64": floating values whose sums are ROUNDED, absorbed or overflow.  A value is an index
                      \* into the value table of Atomic_fgen; the one arithmetic fact the reference semantics needs -- the
                      \* correctly rounded IEEE-754 sum / difference of two values -- is tabulated there (FxAdd / FxSub),
                      \* computed independently of the library.  fetch_add returns the OLD value and stores FxAdd[old, arg].
          NL, B,      \* limbs and limb base
          MaxDepth,
          FullOps     \* TRUE: whole operation alphabet at every depth; FALSE: reduced operand set below depth 1

Limbs == 1..NL
Zero == [i \in Limbs |-> 0]
Max  == [i \in Limbs |-> B - 1]
Num(n) == [i \in Limbs |-> IF i = 1 THEN n ELSE 0]          \* small constants
Sign   == [i \in Limbs |-> IF i = NL THEN B \div 2 ELSE 0]
SignM1 == [i \in Limbs |-> IF i = NL THEN B \div 2 - 1 ELSE B - 1]
MaxM1  == [i \in Limbs |-> IF i = 1 THEN B - 2 ELSE B - 1]

RECURSIVE AddC(_, _, _, _)
AddC(a, b, i, c) == IF i > NL THEN <<>>
                    ELSE LET s == a[i] + b[i] + c IN <<s % B>> \o AddC(a, b, i + 1, s \div B)
Add(a, b) == AddC(a, b, 1, 0)
NotL(a) == [i \in Limbs |-> B - 1 - a[i]]
Neg(a) == Add(NotL(a), Num(1))
Sub(a, b) == Add(a, Neg(b))
Fx == Kind \in {"fx32", "fx64"}
\* row = value index + 1, column = position of the operand in the delta sequence
DPos(sq, j) == CHOOSE k \in 1..Len(sq) : sq[k] = j
Look(rows, dseq, a, b) == LET r == rows[a[1] + 1][DPos(dseq, b[1])] IN IF r = 9999 THEN Assert(FALSE, <<"sum not tabulated", a, b>>) ELSE Num(r)
AddK(a, b) == IF Kind = "fx32" THEN Look(FxAddRows32, FxDeltaSeq32, a, b)
              ELSE IF Kind = "fx64" THEN Look(FxAddRows64, FxDeltaSeq64, a, b) ELSE Add(a, b)
SubK(a, b) == IF Kind = "fx32" THEN Look(FxSubRows32, FxDeltaSeq32, a, b)
              ELSE IF Kind = "fx64" THEN Look(FxSubRows64, FxDeltaSeq64, a, b) ELSE Sub(a, b)

AndL(a, b) == [i \in Limbs |-> a[i] & b[i]]
OrL(a, b)  == [i \in Limbs |-> a[i] | b[i]]
XorL(a, b) == [i \in Limbs |-> a[i] ^^ b[i]]

Operands ==
  CASE Kind = "int"   -> {Zero, Num(1), Num(2), Max, MaxM1, Sign, SignM1}
    [] Kind = "bool"  -> {Zero, Num(1)}
    [] Kind = "ptr"   -> {Num(100), Num(101), Num(103)}       \* element indices into the harness' array
    [] Kind = "float" -> {Num(7), Num(8), Num(9)}     \* never driven negative within the depth bound
    [] Kind = "flag"  -> {}
    [] Kind = "fx32"  -> {Num(i) : i \in FxOperands32}
    [] Kind = "fx64"  -> {Num(i) : i \in FxOperands64}
Deltas ==   \* second operand of arithmetic operations
  CASE Kind = "int"   -> Operands
    [] Kind = "ptr"   -> {Num(0), Num(1), Num(3)}
    [] Kind = "float" -> {Num(0), Num(1), Num(2)}
    [] Kind = "fx32"  -> {Num(i) : i \in FxDeltas32}
    [] Kind = "fx64"  -> {Num(i) : i \in FxDeltas64}
    [] OTHER          -> {}
Inits == CASE Kind = "int" -> {Zero, Num(1), Max, Sign, SignM1} [] Kind = "bool" -> {Zero, Num(1)}
           [] Kind = "ptr" -> {Num(100)} [] Kind = "float" -> {Num(8)} [] Kind = "flag" -> {Zero}
           [] Kind = "fx32" -> {Num(i) : i \in FxInits32} [] Kind = "fx64" -> {Num(i) : i \in FxInits64}

NoArg == <<>>

ValueOps   == IF Kind = "flag" THEN {} ELSE {"store", "xchg", "assign"}
ArithOps   == CASE Kind \in {"int", "ptr", "float", "fx32", "fx64"} -> {"fadd", "fsub", "add_assign", "sub_assign"} [] OTHER -> {}
BitOps     == IF Kind = "int" THEN {"fand", "for", "fxor", "and_assign", "or_assign", "xor_assign"} ELSE {}
StepOps    == IF Kind \in {"int", "ptr"} THEN {"pre_inc", "post_inc", "pre_dec", "post_dec"} ELSE {}
ReadOps    == IF Kind = "flag" THEN {"tas", "clear", "fence"} ELSE IF Kind = "bool" THEN {"load", "conv", "fence"} ELSE {"load", "conv"}

\* operation instances: [op, arg, exp, spur]
Instances(v) ==
       {[op |-> o, arg |-> NoArg, exp |-> NoArg, spur |-> FALSE] : o \in ReadOps \cup StepOps}
  \cup {[op |-> o, arg |-> a, exp |-> NoArg, spur |-> FALSE] : o \in ValueOps, a \in Operands}
  \cup {[op |-> o, arg |-> a, exp |-> NoArg, spur |-> FALSE] : o \in ArithOps \cup BitOps, a \in Deltas}
  \cup {[op |-> "cas_strong", arg |-> a, exp |-> e, spur |-> FALSE] : a \in Operands, e \in (IF Kind = "flag" \/ Fx THEN {} ELSE Operands \cup {v})}
  \cup {[op |-> "cas_weak", arg |-> a, exp |-> e, spur |-> s] : a \in Operands, e \in (IF Kind = "flag" \/ Fx THEN {} ELSE Operands \cup {v}), s \in BOOLEAN}

One == Num(1)
T == "true"
F == "false"

\* reference semantics: [ret, val, exp]
Apply(v, i) ==
  LET R(ret, val, exp) == [ret |-> ret, val |-> val, exp |-> exp] IN
  CASE i.op \in {"load", "conv"} -> R(v, v, NoArg)
    [] i.op = "tas"        -> R(v, Num(1), NoArg)          \* atomic_flag::test_and_set: returns the old value, sets
    [] i.op = "clear"      -> R(NoArg, Zero, NoArg)
    [] i.op = "fence"      -> R(NoArg, v, NoArg)           \* atomic_thread_fence / atomic_signal_fence: no value effect
    [] i.op = "store"      -> R(NoArg, i.arg, NoArg)
    [] i.op = "xchg"       -> R(v, i.arg, NoArg)
    [] i.op = "assign"     -> R(i.arg, i.arg, NoArg)
    [] i.op = "cas_strong" -> IF v = i.exp THEN R(T, i.arg, i.exp) ELSE R(F, v, v)
    [] i.op = "cas_weak"   -> IF i.spur THEN R(F, v, v)          \* spurious failure: false, expected := current, no change
                              ELSE IF v = i.exp THEN R(T, i.arg, i.exp) ELSE R(F, v, v)
    [] i.op = "fadd"       -> R(v, AddK(v, i.arg), NoArg)
    [] i.op = "fsub"       -> R(v, SubK(v, i.arg), NoArg)
    [] i.op = "fand"       -> R(v, AndL(v, i.arg), NoArg)
    [] i.op = "for"        -> R(v, OrL(v, i.arg), NoArg)
    [] i.op = "fxor"       -> R(v, XorL(v, i.arg), NoArg)
    [] i.op = "pre_inc"    -> R(Add(v, One), Add(v, One), NoArg)
    [] i.op = "post_inc"   -> R(v, Add(v, One), NoArg)
    [] i.op = "pre_dec"    -> R(Sub(v, One), Sub(v, One), NoArg)
    [] i.op = "post_dec"   -> R(v, Sub(v, One), NoArg)
    [] i.op = "add_assign" -> R(AddK(v, i.arg), AddK(v, i.arg), NoArg)
    [] i.op = "sub_assign" -> R(SubK(v, i.arg), SubK(v, i.arg), NoArg)
    [] i.op = "and_assign" -> R(AndL(v, i.arg), AndL(v, i.arg), NoArg)
    [] i.op = "or_assign"  -> R(OrL(v, i.arg), OrL(v, i.arg), NoArg)
    [] i.op = "xor_assign" -> R(XorL(v, i.arg), XorL(v, i.arg), NoArg)

VARIABLES init, val, hist

Init == /\ init \in Inits /\ val = init /\ hist = <<>>

\* Below the first level the operand set is reduced (FullOps = FALSE): every (value, operation) pair is still
\* exercised at level 1 from every initial value, deeper levels add sequencing.
Small(x) == x = NoArg \/ x = Num(1) \/ x = Max \/ (Kind # "int" /\ x \in Operands \cup Deltas)
Follow(i) ==
  \/ FullOps \/ Len(hist) = 0
  \/ /\ i.op \notin {"conv", "assign", "and_assign", "or_assign", "xor_assign", "sub_assign"}
     /\ Small(i.arg)
     /\ (i.exp = NoArg \/ i.exp = val \/ i.exp = Num(1))

Next ==
  /\ Len(hist) < MaxDepth
  /\ \E i \in Instances(val) :
       /\ Follow(i)
       /\ LET r == Apply(val, i) IN
          /\ val' = r.val
          /\ hist' = Append(hist, [op |-> i.op, arg |-> i.arg, exp |-> i.exp, spur |-> i.spur,
                                   ret |-> r.ret, val |-> r.val, expout |-> r.exp])
  /\ UNCHANGED init

Spec == Init /\ [][Next]_<<init, val, hist>>

(***************************************************************************)
(* Sanity of the transcription, checked by TLC on every reachable state     *)
(***************************************************************************)
TypeOK == \A i \in Limbs : val[i] \in 0..(B - 1)
\* a failed compare_exchange changes nothing and reports the current value; the strong form never fails spuriously
CasContract ==
  \A k \in 1..Len(hist) :
     LET h == hist[k]
         before == IF k = 1 THEN init ELSE hist[k - 1].val
     IN  h.op \in {"cas_strong", "cas_weak"} =>
           /\ h.ret = F => (h.val = before /\ h.expout = before)
           /\ h.ret = T => (h.val = h.arg /\ before = h.exp)
           /\ (h.op = "cas_strong" /\ before = h.exp) => h.ret = T
\* x op= a returns the new value, fetch_op returns the old one, and both store the same value
FetchVsAssign ==
  \A k \in 1..Len(hist) :
     LET h == hist[k]
         before == IF k = 1 THEN init ELSE hist[k - 1].val
     IN  /\ h.op \in {"fadd", "fsub", "fand", "for", "fxor", "post_inc", "post_dec", "xchg"} => h.ret = before
         /\ h.op \in {"add_assign", "sub_assign", "and_assign", "or_assign", "xor_assign", "pre_inc", "pre_dec"} => h.ret = h.val

Emit == (Len(hist) = MaxDepth) => PrintT(<<"SEQ", ToJson([init |-> init, ops |-> hist])>>)
=============================================================================
