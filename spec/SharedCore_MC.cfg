SPECIFICATION MCSpec
CONSTANTS
  Obs = {"O1", "O2"}
  ObsOps = {"none", "then_inline", "then_exec", "subscribe", "share", "copy_drop", "ready", "get", "get_const"}
  ProdKinds = {"val"}
  WeakBudget = 0
INVARIANTS
  FiresAtMostOnce NeverGarbage FiresAtQuiescence OwnershipOK ReleasedAtQuiescence RefCountSane NoRace NoStuck
VIEW View
CHECK_DEADLOCK TRUE
