---------------------------- MODULE CoSharedMutex_Trace ----------------------------
(* Trace validation for scenario "sm" of the conformance harness (scheme: see UniqueCore_Trace). *)
EXTENDS CoSharedMutex, Json, IOUtils

VARIABLES l, seen, drift, omap

T == ndJsonDeserialize(IOEnv.TRACE)

\* the spinlock and the readers_wait word are named logically; `omap' binds each to the field of the mutex object the
\* harness logged the first time it is used (their offsets depend on the option set)
Logical == {"lock", "rwait"}
Bind(m, lg, act) ==
  IF lg \notin Logical THEN <<lg = act, m>>
  ELSE IF lg \in DOMAIN m THEN <<m[lg] = act, m>>
  ELSE <<act \notin {m[x] : x \in DOMAIN m} /\ act \notin {"state", "scratch"}, m @@ (lg :> act)>>

Match(e, t) ==
  /\ e.p = t.p /\ e.a = t.a /\ Bind(omap, e.o, t.o)[1] /\ e.old = t.old /\ e.new = t.new /\ e.ok = t.ok
  /\ e.obs = t.obs /\ e.spur = t.spur

Progress(n) == IF n > TLCGet(2) THEN TLCSet(2, n) ELSE TRUE
Note(e, t) == TLCSet(1, TLCGet(1) \cup {<<e.site, t.ord, t.ford, t.fences>>})
NoteDrift(n) == TLCSet(3, TLCGet(3) \cup {n})
See(p, obs) == seen \o [i \in 1..Len(obs) |-> [p |-> p, k |-> obs[i].k, v |-> obs[i].v]]

Par(t, k, d) == IF k \in DOMAIN t.params THEN t.params[k] ELSE d
PInt(x, d) == IF x = "1" THEN 1 ELSE IF x = "2" THEN 2 ELSE IF x = "3" THEN 3 ELSE d
ScenOf(t) == MkScen(Par(t, "opts", "10"), PInt(Par(t, "workers", "2"), 2),
                    ProgSeq(Par(t, "p1", ""), Par(t, "p2", ""), Par(t, "p3", ""), Par(t, "p4", "")))

TInit ==
  /\ TLCSet(1, {}) /\ TLCSet(2, 1) /\ TLCSet(3, {})
  /\ T[1].e = "begin"
  /\ InitScen(ScenOf(T[1]))
  /\ l = 2 /\ seen = <<>> /\ drift = FALSE /\ omap = <<>>

Conform(t) ==
  /\ Step
  /\ Match(ev', t)
  /\ mm' = MM!MStep(mm, ev'.p, ev'.a, ev'.loc, ev'.ok, t.ord, t.ford, t.fences, ev'.post)

TOp ==
  /\ l <= Len(T) /\ T[l].e = "op" /\ ~drift
  /\ Conform(T[l])
  /\ omap' = Bind(omap, ev'.o, T[l].o)[2]
  /\ Note(ev', T[l])
  /\ seen' = See(T[l].p, T[l].obs)
  /\ l' = l + 1 /\ Progress(l') /\ UNCHANGED drift

\* the root starts the coroutines: each runs up to `co_await On(pool)' and is submitted (the initial queue of the model)
TRobs ==
  /\ l <= Len(T) /\ T[l].e = "robs"
  /\ UNCHANGED <<vars, drift, omap>>
  /\ seen' = See("root", T[l].obs)
  /\ l' = l + 1 /\ Progress(l')

TDrift ==
  /\ l <= Len(T) /\ T[l].e = "op"
  /\ drift \/ ~ENABLED Conform(T[l])
  /\ drift' = TRUE /\ NoteDrift(l)
  /\ seen' = See(T[l].p, T[l].obs)
  /\ UNCHANGED <<vars, omap>>
  /\ l' = l + 1 /\ Progress(l')

TEnd ==
  /\ l <= Len(T) /\ T[l].e = "end"
  /\ drift' = (drift \/ ~Quiescent)
  /\ IF drift' /\ ~drift THEN NoteDrift(l) ELSE TRUE
  /\ UNCHANGED <<vars, seen, omap>>
  /\ l' = l + 1 /\ Progress(l')

TBegin ==
  /\ l <= Len(T) /\ T[l].e = "begin"
  /\ ResetScen(ScenOf(T[l]))
  /\ seen' = <<>> /\ drift' = FALSE /\ omap' = <<>>
  /\ l' = l + 1 /\ Progress(l')

TNext == TOp \/ TRobs \/ TDrift \/ TEnd \/ TBegin
TSpec == TInit /\ [][TNext]_<<vars, l, seen, drift, omap>>

NoRace == MM!NoRace(mm)

\* ---------------- abstract monitor of C15 (observations only) ----------------
Enter(n) == seen[n].k = "enter"
Leave(n) == seen[n].k = "leave"
Ids == {S(c) : c \in CIdx}
Kinds == {"s", "x"}
\* "enter" reports "<id><s|x>:<last writer>"
IdOf(n) == CHOOSE i \in Ids : \E k \in Kinds, d \in Ids \cup {"0"} : seen[n].v = i \o k \o ":" \o d
KindOf(n) == CHOOSE k \in Kinds : \E i \in Ids, d \in Ids \cup {"0"} : seen[n].v = i \o k \o ":" \o d
SawOf(n) == CHOOSE d \in Ids \cup {"0"} : \E i \in Ids, k \in Kinds : seen[n].v = i \o k \o ":" \o d
Enters == {n \in 1..Len(seen) : Enter(n)}
Left(a, b) == \E c \in (a + 1)..(b - 1) : Leave(c) /\ seen[c].v = IdOf(a)
\* an exclusive holder overlaps with nobody; shared holders overlap only with each other
AbsExclusion == \A a, b \in Enters : (a < b /\ (KindOf(a) = "x" \/ KindOf(b) = "x")) => Left(a, b)
\* every section reads what the last exclusive section wrote
AbsVisible == \A b \in Enters :
                LET prev == {a \in Enters : a < b /\ KindOf(a) = "x"} IN
                IF prev = {} THEN SawOf(b) = "0" ELSE SawOf(b) = IdOf(CHOOSE a \in prev : \A x \in prev : x <= a)
EnterCount(c) == Cardinality({n \in Enters : IdOf(n) = S(c)})
FailCount(c) == Len(SelectSeq(seen, LAMBDA s : s.k = "tryfail" /\ s.v = S(c)))
FinishCount(c) == Len(SelectSeq(seen, LAMBDA s : s.k = "finish" /\ s.v = S(c)))
AbsGrantedAtMostOnce == \A c \in UsedC : EnterCount(c) + FailCount(c) <= Rounds(c) /\ FinishCount(c) <= 1
XEnters == {n \in Enters : KindOf(n) = "x"}
LastWriter == IF XEnters = {} THEN "0" ELSE IdOf(CHOOSE a \in XEnters : \A x \in XEnters : x <= a)
AbsEndOK(t) ==
  /\ t.status = "ok"
  /\ \A c \in UsedC : /\ EnterCount(c) + FailCount(c) = Rounds(c) /\ FinishCount(c) = 1
                      /\ ("co" \o S(c)) \in DOMAIN t.final /\ t.final[("co" \o S(c))] = "ready"
  /\ t.final.free = "1"
  /\ t.final.data = LastWriter
AbsEnd == (l > 1 /\ l - 1 <= Len(T) /\ T[l - 1].e = "end") => AbsEndOK(T[l - 1])

Accepted ==
  /\ PrintT(<<"SITES", ToJson(TLCGet(1))>>)
  /\ PrintT(<<"DRIFT", ToJson(TLCGet(3))>>)
  /\ PrintT(<<"REACHED", TLCGet(2), Len(T) + 1>>)
  /\ TLCGet(2) = Len(T) + 1
=============================================================================
