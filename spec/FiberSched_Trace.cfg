SPECIFICATION TSpec
CONSTANTS
  MaxLen = 4
  MaxW = 4
INVARIANT Deterministic
POSTCONDITION Accepted
CHECK_DEADLOCK FALSE
