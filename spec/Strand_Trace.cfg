SPECIFICATION TSpec
CONSTANTS
  MaxSubs = 3
  MaxWorkers = 2
  SubSets = {"11"}
  WorkerCounts = {1}
  Stops = {"none"}
  WeakBudgets = {0}
INVARIANTS
  NoOverlap InPushOrder AtMostOnce ExactlyOnceAtQuiescence DropOnlyWhenRefused OwnershipOK BalancedAtQuiescence NoRace
  AbsNoOverlap AbsProgramOrder AbsAtMostOnce AbsDropOnlyAfterStop AbsEnd AbsNoUseAfterReturn
POSTCONDITION Accepted
CHECK_DEADLOCK FALSE
