------------------------------ MODULE Strand_MC ------------------------------
(* Bounded model of Strand.tla; memory orders from Strand_gen (extracted from the running code). *)
EXTENDS Strand, Strand_gen

O(site) == IF site \in DOMAIN OrdTable THEN OrdTable[site] ELSE [o |-> "sc", f |-> "sc", fences |-> <<>>]

MCStep ==
  /\ Step
  /\ mm' = MM!MStep(mm, ev'.p, ev'.a, ev'.loc, ev'.ok, O(ev'.site).o, O(ev'.site).f, O(ev'.site).fences, ev'.post)

MCNext == MCStep \/ (Quiescent /\ UNCHANGED vars)
MCSpec == Init /\ [][MCNext]_vars

NoRace == MM!NoRace(mm)
NoStuck == (~ENABLED MCStep) => Quiescent
View == vars
=============================================================================
