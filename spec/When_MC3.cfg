SPECIFICATION MCSpec
CONSTANTS
  MaxN = 3
  Strats = {"all_none", "all_ff", "join_ff", "any_none", "any_ff", "any_lf"}
  Forms = {"static"}
  OutSets = {"vvv", "xvx", "xxx", "vxv", "exv"}
INVARIANTS
  OutputAtMostOnce RightValue CompletesAtQuiescence NotBeforeAllInputs AsSoonAsDecided FirstWins LastFailIsLast ReleasedOnce ReleasedAtQuiescence NoRace NoStuck
VIEW View
CHECK_DEADLOCK TRUE
