-------------------------------- MODULE When --------------------------------
(***************************************************************************)
(* WhenAll / Join / WhenAny over n unique futures (properties C09, C10;     *)
(* ownership and happens-before clauses of C03 / C04), one action per       *)
(* slice.                                                                   *)
(*                                                                         *)
(* Code map                                                                 *)
(*   include/yaclib/async/when/when.hpp  When(): MakeContract, combinator   *)
(*        with counter n; Set(): per input Register / SetCallback, and for  *)
(*        an already completed input Consume + DecRef inline;               *)
(*        CombinatorCallback::Here = Consume + DecRef                       *)
(*   include/yaclib/async/when/all.hpp   All<None> (destructor builds the   *)
(*        vector), All<FirstFail> (_done flag, destructor)                  *)
(*   include/yaclib/async/when/join.hpp  Join<None|FirstFail>               *)
(*   include/yaclib/async/when/any.hpp   Any<None> (_done), Any<FirstFail>  *)
(*        (3-state word, saved error published by the destructor),          *)
(*        Any<LastFail> (2*remaining | done: the parity trick)              *)
(*   include/yaclib/util/detail/atomic_counter.hpp  SubEqual                *)
(*                                                                         *)
(* Objects are named logically ("cnt" = the combinator's reference counter, *)
(* "st" = the strategy's word, "out.cb" = the output core's callback word,  *)
(* "@cbk" = pointer to a combinator callback); the trace specification      *)
(* binds them to the addresses the harness logs (the layout of the          *)
(* combinator is not part of the specification).                            *)
(***************************************************************************)
EXTENDS Integers, Sequences, FiniteSets, TLC

CONSTANTS MaxN, Strats, Forms, OutSets     \* OutSets: set of outcome sequences, e.g. {<<"v","x">>}

Idx == 1..MaxN
PName(i) == "P" \o ToString(i)
Prods == {PName(i) : i \in Idx}
Proc == {"R"} \cup Prods
IdxOf(p) == CHOOSE i \in Idx : PName(i) = p

AllK  == {"all_none", "all_ff"}
JoinK == {"join_none", "join_ff"}
AnyK  == {"any_none", "any_ff", "any_lf"}
FlagK == {"all_ff", "join_ff", "any_none"}     \* strategies with a boolean _done flag

\* plain locations: the strategy's promise `_p`, Any<FirstFail>'s saved error, All's `_cores[i]`, the inputs' Results
PLocs == {"comb.p", "comb.err", "outres"} \cup UNION {{"res" \o ToString(i), "cores" \o ToString(i)} : i \in Idx}
ALocs == {"cnt", "st", "out"} \cup UNION {{"cb" \o ToString(i), "gate" \o ToString(i)} : i \in Idx}
MM == INSTANCE MemModel WITH MProc <- Proc, MALoc <- ALocs, MPLoc <- PLocs

VARIABLES scen,     \* [strat, form, outs]
          cb,       \* input callback words
          cnt,      \* combinator counter
          st,       \* strategy word (integer)
          out,      \* output callback word "0" | "MAX"
          outval,   \* what the output promise was set with
          pvalid,   \* the strategy still holds the output promise
          saved,    \* Any<FirstFail>: index of the saved failure (0 = none)
          retired,  \* per input: number of times its Result was consumed / released
          calive,   \* combinator allocated
          pc, cur,  \* program counters; cur[p] = input the process is consuming
          ri, rret, \* registrar: current index; WhenX() has returned
          clock, cstart, cend,   \* ghost times of Consume(i) begin / end
          winner,   \* input whose outcome decided the output (0: none / aggregate)
          err, ev, mm

vars == <<scen, cb, cnt, st, out, outval, pvalid, saved, retired, calive, pc, cur, ri, rret, clock, cstart, cend, winner, err, ev, mm>>

N == Len(scen.outs)
Used == 1..N
S(i) == ToString(i)
Oc(i) == scen.outs[i]
IsVal(i) == Oc(i) = "v"
Desc(i) == CASE Oc(i) = "v" -> "v" \o ToString(10 + i) [] Oc(i) = "e" -> "stop" [] OTHER -> "exc:e" \o S(i)
Fails == {i \in Used : ~IsVal(i)}
Vals  == {i \in Used : IsVal(i)}
CbObj(i) == "c" \o S(i) \o ".cb"
Gate(i) == "gate" \o S(i)

RECURSIVE JoinDesc(_)
JoinDesc(i) == IF i > N THEN "" ELSE (IF i > 1 THEN "," ELSE "") \o Desc(i) \o JoinDesc(i + 1)
VecAll == "[" \o JoinDesc(1) \o "]"

StStr(x) == IF x >= 0 THEN ToString(x) ELSE IF x = -1 THEN "MAX" ELSE "xfffffffffffffffd"

Ob(k, v) == [k |-> k, v |-> v]
W(l) == [k |-> "W", l |-> l]
R(l) == [k |-> "R", l |-> l]
Ev(p, a, o, loc, old, new, ok, obs, done, site, post) ==
  [p |-> p, a |-> a, o |-> o, loc |-> loc, old |-> old, new |-> new, ok |-> ok, spur |-> FALSE, obs |-> obs, done |-> done,
   site |-> site, post |-> post]
NoEv == Ev("-", "-", "-", "cnt", "-", "-", TRUE, <<>>, FALSE, "-", <<>>)

I0(s) ==
  LET n == Len(s.outs) IN
  [ scen |-> s, cb |-> [i \in Idx |-> "0"], cnt |-> n,
    st |-> IF s.strat = "any_lf" THEN 2 * n ELSE 0,
    out |-> "0", outval |-> "none", pvalid |-> TRUE, saved |-> 0,
    retired |-> [i \in Idx |-> 0], calive |-> TRUE,
    pc |-> [p \in Proc |-> IF p = "R" THEN "l" ELSE IF IdxOf(p) <= n THEN "gate" ELSE "done"],
    cur |-> [p \in Proc |-> 0], ri |-> 1, rret |-> FALSE,
    clock |-> 0, cstart |-> [i \in Idx |-> -1], cend |-> [i \in Idx |-> -1], winner |-> 0,
    err |-> {}, ev |-> NoEv,
    \* the registrar built the combinator (and Registered input 1) before its first visible operation
    mm |-> MM!PWrite(MM!PWrite(MM!PWrite(MM!PWrite(MM!MInit, "R", "comb.p"), "R", "comb.err"), "R", "outres"), "R", "cores1") ]

InitScen(s) ==
  LET i == I0(s) IN
  /\ scen = i.scen /\ cb = i.cb /\ cnt = i.cnt /\ st = i.st /\ out = i.out /\ outval = i.outval /\ pvalid = i.pvalid
  /\ saved = i.saved /\ retired = i.retired /\ calive = i.calive /\ pc = i.pc /\ cur = i.cur /\ ri = i.ri /\ rret = i.rret
  /\ clock = i.clock /\ cstart = i.cstart /\ cend = i.cend /\ winner = i.winner /\ err = i.err /\ ev = i.ev /\ mm = i.mm
ResetScen(s) ==
  LET i == I0(s) IN
  /\ scen' = i.scen /\ cb' = i.cb /\ cnt' = i.cnt /\ st' = i.st /\ out' = i.out /\ outval' = i.outval /\ pvalid' = i.pvalid
  /\ saved' = i.saved /\ retired' = i.retired /\ calive' = i.calive /\ pc' = i.pc /\ cur' = i.cur /\ ri' = i.ri /\ rret' = i.rret
  /\ clock' = i.clock /\ cstart' = i.cstart /\ cend' = i.cend /\ winner' = i.winner /\ err' = i.err /\ ev' = i.ev /\ mm' = i.mm

\* outcome patterns are written as strings in configurations and scenario parameters
Chars(s) == CASE s = "vv" -> <<"v","v">> [] s = "vx" -> <<"v","x">> [] s = "xv" -> <<"x","v">> [] s = "xx" -> <<"x","x">>
              [] s = "ve" -> <<"v","e">> [] s = "ev" -> <<"e","v">> [] s = "ex" -> <<"e","x">> [] s = "xe" -> <<"x","e">> [] s = "ee" -> <<"e","e">>
              [] s = "vvv" -> <<"v","v","v">> [] s = "vxv" -> <<"v","x","v">> [] s = "xvx" -> <<"x","v","x">> [] s = "xxx" -> <<"x","x","x">>
              [] s = "xxv" -> <<"x","x","v">> [] s = "vvx" -> <<"v","v","x">> [] s = "exv" -> <<"e","x","v">> [] s = "xex" -> <<"x","e","x">>

Init == \E s \in Strats, f \in Forms, o \in OutSets : InitScen([strat |-> s, form |-> f, outs |-> Chars(o)])

UseComb == IF calive THEN {} ELSE {<<"use-after-free", "combinator">>}

(***************************************************************************)
(* Consume(i) + DecRef, executed by process p (the producer whose Set found *)
(* the callback, or the registrar for an input that was already complete).  *)
(***************************************************************************)
\* first program counter of Consume(i)
FirstK(i) ==
  CASE scen.strat \in {"all_none", "join_none"} -> "dec"
    [] scen.strat \in {"all_ff", "join_ff"} -> IF IsVal(i) THEN "dec" ELSE "k_load"
    [] OTHER -> "k_load"
\* plain accesses at the start of Consume(i): read the input's Result; Managed strategies retire (move) it
Managed == scen.strat \notin AllK
StartPost(i) == IF Managed THEN <<R("res" \o S(i)), W("res" \o S(i))>> ELSE <<R("res" \o S(i))>>
\* Owned strategies: Register(i + 1) (a plain write of _cores[i + 1]) follows once input i is dealt with
RegNext(p) == IF p = "R" /\ ri < N /\ scen.strat \in AllK THEN <<W("cores" \o S(ri + 1))>> ELSE <<>>
FreeComb == <<W("comb.p"), W("comb.err")>> \o [j \in 1..N |-> W("cores" \o S(j))]
RetireNow(i) == IF Managed THEN [retired EXCEPT ![i] = @ + 1] ELSE retired

\* what happens after process p finished Consume + DecRef of its current input (tail of the slice): where it goes
\* and what it observes.  outNow = value of the output word after this slice.
FinishPc(p) == IF p = "R" THEN (IF ri < N THEN "l" ELSE "done") ELSE "done"
FinishObs(p, outNow) ==
  IF p = "R" THEN (IF ri < N THEN <<>> ELSE <<Ob("registered", IF outNow = "MAX" THEN "1" ELSE "0")>>)
  ELSE <<Ob("set_done", S(IdxOf(p)) \o ":" \o (IF ~rret THEN "?" ELSE IF outNow = "MAX" THEN "1" ELSE "0"))>>
FinishDone(p) == p # "R" \/ ri = N

\* common bookkeeping when p finishes consuming: registrar index and return flag, ghost end time
FinishFx(p) ==
  /\ ri' = IF p = "R" /\ ri < N THEN ri + 1 ELSE ri
  /\ rret' = (rret \/ (p = "R" /\ ri = N))
  /\ cend' = [cend EXCEPT ![cur[p]] = clock + 1]
  /\ clock' = clock + 1

KLoad(p) ==
  /\ pc[p] = "k_load"
  /\ LET i == cur[p]
         s == scen.strat
         ord == IF s = "any_lf" THEN "acq" ELSE "rlx"
         nxt == CASE s \in FlagK -> IF st = 1 THEN "dec" ELSE "k_xchg"
                  [] s = "any_ff" -> IF IsVal(i) THEN (IF st = 2 THEN "dec" ELSE "k_xchg") ELSE (IF st = 0 THEN "k_cas" ELSE "dec")
                  [] s = "any_lf" -> IF st % 2 = 1 THEN "dec" ELSE IF IsVal(i) THEN "k_xchg" ELSE "k_fsub"
     IN  /\ pc' = [pc EXCEPT ![p] = nxt]
         /\ err' = err \cup UseComb
         /\ ev' = Ev(p, "load", "st", "st", StStr(st), StStr(st), TRUE, <<>>, FALSE, "Strategy.load." \o ord, <<>>)
  /\ UNCHANGED <<scen, cb, cnt, st, out, outval, pvalid, saved, retired, calive, cur, ri, rret, clock, cstart, cend, winner>>

KXchg(p) ==
  /\ pc[p] = "k_xchg"
  /\ LET i == cur[p]
         s == scen.strat
         new == IF s = "any_ff" THEN 2 ELSE 1
         won == CASE s \in FlagK -> st = 0 [] s = "any_ff" -> st # 2 [] s = "any_lf" -> st % 2 = 0
     IN  /\ st' = new
         /\ pc' = [pc EXCEPT ![p] = IF won THEN "k_set" ELSE "dec"]
         /\ err' = err \cup UseComb
         /\ ev' = Ev(p, "xchg", "st", "st", StStr(st), StStr(new), TRUE, <<>>, FALSE, "Strategy.xchg", <<>>)
  /\ UNCHANGED <<scen, cb, cnt, out, outval, pvalid, saved, retired, calive, cur, ri, rret, clock, cstart, cend, winner>>

\* Any<FirstFail>, failure: claim the "first error" slot and save the error
KCas(p) ==
  /\ pc[p] = "k_cas"
  /\ LET i == cur[p]
         ok == st = 0
     IN  /\ st' = IF ok THEN 1 ELSE st
         /\ saved' = IF ok THEN i ELSE saved
         /\ pc' = [pc EXCEPT ![p] = "dec"]
         /\ err' = err \cup UseComb
         /\ ev' = Ev(p, "cas", "st", "st", StStr(st), StStr(st'), ok, <<>>, FALSE, "Strategy.cas", IF ok THEN <<W("comb.err")>> ELSE <<>>)
  /\ UNCHANGED <<scen, cb, cnt, out, outval, pvalid, retired, calive, cur, ri, rret, clock, cstart, cend, winner>>

\* Any<LastFail>, failure: one fewer input may still deliver a value
KFsub(p) ==
  /\ pc[p] = "k_fsub"
  /\ st' = st - 2
  /\ pc' = [pc EXCEPT ![p] = IF st = 2 THEN "k_set" ELSE "dec"]
  /\ err' = err \cup UseComb
  /\ ev' = Ev(p, "fsub", "st", "st", StStr(st), StStr(st - 2), TRUE, <<>>, FALSE, "Strategy.fsub", <<>>)
  /\ UNCHANGED <<scen, cb, cnt, out, outval, pvalid, saved, retired, calive, cur, ri, rret, clock, cstart, cend, winner>>

\* the deciding process fulfils the output promise with the outcome of its input
KSet(p) ==
  /\ pc[p] = "k_set"
  /\ LET i == cur[p] IN
     /\ out' = "MAX" /\ outval' = Desc(i) /\ pvalid' = FALSE /\ winner' = i
     /\ err' = err \cup UseComb \cup (IF out = "0" /\ pvalid THEN {} ELSE {<<"output set twice", i>>})
     /\ pc' = [pc EXCEPT ![p] = "dec"]
     /\ ev' = Ev(p, "xchg", "out.cb", "out", out, "MAX", TRUE, <<>>, FALSE, "Output.SetResult.xchg", <<W("comb.p"), W("outres")>>)
  /\ UNCHANGED <<scen, cb, cnt, st, saved, retired, calive, cur, ri, rret, clock, cstart, cend>>

\* outcome of the strategy's destructor (run by whoever drops the last reference)
DtorSets ==
  CASE scen.strat \in {"all_none", "join_none"} -> TRUE
    [] scen.strat \in {"all_ff", "join_ff", "any_ff"} -> pvalid
    [] OTHER -> FALSE
DtorVal ==
  CASE scen.strat \in AllK -> VecAll
    [] scen.strat \in JoinK -> "unit"
    [] OTHER -> IF saved \in Used THEN Desc(saved) ELSE "garbage:no saved error"
\* Owned strategies (All) release every input in the destructor
DtorRetire == IF scen.strat \in AllK THEN [i \in Idx |-> IF i \in Used THEN retired[i] + 1 ELSE retired[i]] ELSE retired
DtorPost == IF scen.strat \in AllK
              THEN <<R("comb.p")>> \o [i \in 1..N |-> R("cores" \o S(i))] \o [i \in 1..N |-> W("res" \o S(i))]
              ELSE IF scen.strat = "any_ff" THEN <<R("comb.p"), R("comb.err")>> ELSE <<R("comb.p")>>

KDec(p) ==
  /\ pc[p] = "dec"
  /\ cnt' = cnt - 1
  /\ LET last == cnt = 1 IN
     IF last /\ DtorSets
       THEN /\ retired' = DtorRetire
            /\ pc' = [pc EXCEPT ![p] = "d_set"]
            /\ err' = err \cup UseComb
            /\ ev' = Ev(p, "fsub", "cnt", "cnt", ToString(cnt), ToString(cnt - 1), TRUE, <<>>, FALSE, "Combinator.DecRef.fsub+last", DtorPost)
            /\ UNCHANGED <<calive, ri, rret, cend, clock>>
       ELSE /\ retired' = IF last THEN DtorRetire ELSE retired
            /\ calive' = IF last THEN FALSE ELSE calive
            /\ FinishFx(p)
            /\ pc' = [pc EXCEPT ![p] = FinishPc(p)]
            /\ err' = err \cup UseComb
            /\ ev' = Ev(p, "fsub", "cnt", "cnt", ToString(cnt), ToString(cnt - 1), TRUE, FinishObs(p, out), FinishDone(p),
                        IF last THEN "Combinator.DecRef.fsub+last" ELSE "Combinator.DecRef.fsub",
                        (IF last THEN DtorPost \o FreeComb ELSE <<>>) \o RegNext(p))
  /\ UNCHANGED <<scen, cb, st, out, outval, pvalid, saved, cur, cstart, winner>>

\* the destructor fulfils the output promise (aggregate, unit, or the saved first error), then the combinator is freed
KDtorSet(p) ==
  /\ pc[p] = "d_set"
  /\ out' = "MAX" /\ outval' = DtorVal /\ pvalid' = FALSE
  /\ winner' = IF scen.strat = "any_ff" THEN saved ELSE 0
  /\ calive' = FALSE
  /\ err' = err \cup UseComb \cup (IF out = "0" THEN {} ELSE {<<"output set twice", "destructor">>})
  /\ FinishFx(p)
  /\ pc' = [pc EXCEPT ![p] = FinishPc(p)]
  /\ ev' = Ev(p, "xchg", "out.cb", "out", out, "MAX", TRUE, FinishObs(p, "MAX"), FinishDone(p), "Output.SetResult.xchg",
              <<W("outres")>> \o FreeComb \o RegNext(p))
  /\ UNCHANGED <<scen, cb, cnt, st, saved, retired, cur, cstart>>

Consume(p) == KLoad(p) \/ KXchg(p) \/ KCas(p) \/ KFsub(p) \/ KSet(p) \/ KDec(p) \/ KDtorSet(p)

\* process p starts Consume(i) in the tail of the current slice
StartFx(p, i) ==
  /\ cur' = [cur EXCEPT ![p] = i]
  /\ retired' = RetireNow(i)
  /\ cstart' = [cstart EXCEPT ![i] = clock + 1]
  /\ clock' = clock + 1

(***************************************************************************)
(* Producers                                                                *)
(***************************************************************************)
PGate(p) ==
  LET i == IdxOf(p) IN
  /\ pc[p] = "gate"
  /\ pc' = [pc EXCEPT ![p] = "xchg"]
  /\ ev' = Ev(p, "store", Gate(i), Gate(i), "0", "1", TRUE, <<>>, FALSE, "Harness.gate", <<W("res" \o S(i))>>)
  /\ UNCHANGED <<scen, cb, cnt, st, out, outval, pvalid, saved, retired, calive, cur, ri, rret, clock, cstart, cend, winner, err>>

PXchg(p) ==
  LET i == IdxOf(p) IN
  /\ pc[p] = "xchg"
  /\ cb' = [cb EXCEPT ![i] = "MAX"]
  /\ IF cb[i] = "0"
       THEN /\ pc' = [pc EXCEPT ![p] = "done"]
            /\ ev' = Ev(p, "xchg", CbObj(i), "cb" \o S(i), "0", "MAX", TRUE,
                        <<Ob("set_done", S(i) \o ":" \o (IF ~rret THEN "?" ELSE IF out = "MAX" THEN "1" ELSE "0"))>>, TRUE,
                        "SetResult.xchg", <<>>)
            /\ UNCHANGED <<cur, retired, cstart, clock, err>>
       ELSE /\ StartFx(p, i)
            /\ pc' = [pc EXCEPT ![p] = FirstK(i)]
            /\ err' = err \cup UseComb
            /\ ev' = Ev(p, "xchg", CbObj(i), "cb" \o S(i), "@cbk", "MAX", TRUE, <<>>, FALSE, "SetResult.xchg", StartPost(i))
  /\ UNCHANGED <<scen, cnt, st, out, outval, pvalid, saved, calive, ri, rret, cend, winner>>

(***************************************************************************)
(* Registrar: WhenX(fs...)                                                  *)
(***************************************************************************)
RLoad ==
  /\ pc.R = "l"
  /\ LET i == ri IN
     IF cb[i] = "0"
       THEN /\ pc' = [pc EXCEPT !.R = "c"]
            /\ ev' = Ev("R", "load", CbObj(i), "cb" \o S(i), "0", "0", TRUE, <<>>, FALSE, "SetCallback.load", <<>>)
            /\ UNCHANGED <<cur, retired, cstart, clock, err>>
       ELSE /\ StartFx("R", i)
            /\ pc' = [pc EXCEPT !.R = FirstK(i)]
            /\ err' = err \cup UseComb
            /\ ev' = Ev("R", "load", CbObj(i), "cb" \o S(i), cb[i], cb[i], TRUE, <<>>, FALSE, "SetCallback.load", StartPost(i))
  /\ UNCHANGED <<scen, cb, cnt, st, out, outval, pvalid, saved, calive, ri, rret, cend, winner>>

RCas ==
  /\ pc.R = "c"
  /\ LET i == ri IN
     IF cb[i] = "0"
       THEN /\ cb' = [cb EXCEPT ![i] = "@cbk"]
            /\ ri' = IF i < N THEN i + 1 ELSE i
            /\ rret' = (i = N)
            /\ pc' = [pc EXCEPT !.R = IF i < N THEN "l" ELSE "done"]
            /\ ev' = Ev("R", "cas", CbObj(i), "cb" \o S(i), "0", "@cbk", TRUE,
                        IF i = N THEN <<Ob("registered", IF out = "MAX" THEN "1" ELSE "0")>> ELSE <<>>, i = N, "SetCallback.cas",
                        RegNext("R"))
            /\ UNCHANGED <<cur, retired, cstart, clock, err>>
       ELSE /\ StartFx("R", i)
            /\ pc' = [pc EXCEPT !.R = FirstK(i)]
            /\ err' = err \cup UseComb
            /\ ev' = Ev("R", "cas", CbObj(i), "cb" \o S(i), cb[i], cb[i], FALSE, <<>>, FALSE, "SetCallback.cas", StartPost(i))
            /\ UNCHANGED <<cb, ri, rret>>
  /\ UNCHANGED <<scen, cnt, st, out, outval, pvalid, saved, calive, cend, winner>>

Step == \/ \E p \in Prods : PGate(p) \/ PXchg(p)
        \/ RLoad \/ RCas
        \/ \E p \in Proc : Consume(p)

Quiescent == \A p \in Proc : pc[p] = "done"

(***************************************************************************)
(* Properties                                                               *)
(***************************************************************************)
OutputAtMostOnce == err = {}
\* C09: WhenAll / Join
RightValue ==
  (out = "MAX") =>
    CASE scen.strat \in {"all_none"} -> outval = VecAll
      [] scen.strat \in {"join_none"} -> outval = "unit"
      [] scen.strat = "all_ff"  -> IF Fails = {} THEN outval = VecAll ELSE outval \in {Desc(i) : i \in Fails}
      [] scen.strat = "join_ff" -> IF Fails = {} THEN outval = "unit" ELSE outval \in {Desc(i) : i \in Fails}
      [] scen.strat = "any_none" -> outval \in {Desc(i) : i \in Used}
      [] OTHER -> IF Vals # {} THEN outval \in {Desc(i) : i \in Vals} ELSE outval \in {Desc(i) : i \in Fails}
CompletesAtQuiescence == Quiescent => (out = "MAX" /\ cnt = 0 /\ ~calive)
\* ... at the right moment: not before the last input under None, as soon as the first failure was consumed
\* under FirstFail, as soon as a value was consumed for WhenAny<FirstFail|LastFail>
NotBeforeAllInputs == (scen.strat \in {"all_none", "join_none"} /\ out = "MAX") => \A i \in Used : cstart[i] >= 0
\* "as soon as": once some deciding-class input has been consumed completely and no other one is in the middle of
\* being consumed (it might be the one that won the decision and is about to fulfil the output), the output is ready
InFlight(C) == \E j \in C : cstart[j] >= 0 /\ cend[j] < 0
DecidedBy(C) == ((\E i \in C : cend[i] >= 0) /\ ~InFlight(C)) => out = "MAX"
AsSoonAsDecided ==
  /\ scen.strat \in {"all_ff", "join_ff"} => DecidedBy(Fails)
  /\ scen.strat \in {"any_ff", "any_lf"}  => DecidedBy(Vals)
  /\ scen.strat = "any_none"              => DecidedBy(Used)
\* the winner never started after a competing completion of the same class had finished (first), and under
\* LastFail with every input failing nobody started after the winner had finished (last)
Competitors == CASE scen.strat \in {"all_ff", "join_ff"} -> Fails
                 [] scen.strat = "any_none" -> Used
                 [] scen.strat = "any_ff" -> IF Vals # {} THEN Vals ELSE Fails
                 [] scen.strat = "any_lf" -> IF Vals # {} THEN Vals ELSE {}
                 [] OTHER -> {}
FirstWins == winner \in Competitors => \A j \in Competitors \ {winner} : ~(cend[j] >= 0 /\ cend[j] < cstart[winner])
LastFailIsLast ==
  (scen.strat = "any_lf" /\ Vals = {} /\ winner \in Used) => \A j \in Used \ {winner} : ~(cend[winner] >= 0 /\ cstart[j] > cend[winner])
\* every input is consumed and released exactly once whether or not the output was already decided
ReleasedOnce == \A i \in Used : retired[i] <= 1
ReleasedAtQuiescence == Quiescent => \A i \in Used : retired[i] = 1

ExpectedOuts ==   \* admissible final observation of the output
  CASE scen.strat \in {"all_none"} -> {VecAll}
    [] scen.strat \in {"join_none"} -> {"unit"}
    [] scen.strat = "all_ff"  -> IF Fails = {} THEN {VecAll} ELSE {Desc(i) : i \in Fails}
    [] scen.strat = "join_ff" -> IF Fails = {} THEN {"unit"} ELSE {Desc(i) : i \in Fails}
    [] scen.strat = "any_none" -> {Desc(i) : i \in Used}
    [] OTHER -> IF Vals # {} THEN {Desc(i) : i \in Vals} ELSE {Desc(i) : i \in Fails}
=============================================================================
