------------------------------ MODULE When_MC ------------------------------
(* Bounded model of When.tla; memory orders from When_gen (extracted from the running code). *)
EXTENDS When, When_gen

O(site) == IF site \in DOMAIN OrdTable THEN OrdTable[site] ELSE [o |-> "sc", f |-> "sc", fences |-> <<>>]

MCStep ==
  /\ Step
  /\ mm' = MM!MStep(mm, ev'.p, ev'.a, ev'.loc, ev'.ok, O(ev'.site).o, O(ev'.site).f, O(ev'.site).fences, ev'.post)

MCNext == MCStep \/ (Quiescent /\ UNCHANGED vars)
MCSpec == Init /\ [][MCNext]_vars

NoRace == MM!NoRace(mm)
NoStuck == (~ENABLED MCStep) => Quiescent
\* ghost clocks are monotone counters: hide them from the state identity
View == <<scen, cb, cnt, st, out, outval, pvalid, saved, retired, calive, pc, cur, ri, rret, winner, err, mm,
          [i \in Idx |-> cstart[i] >= 0], [i \in Idx |-> cend[i] >= 0],
          [i \in Idx |-> [j \in Idx |-> cend[j] >= 0 /\ cstart[i] >= 0 /\ cend[j] < cstart[i]]]>>
=============================================================================
