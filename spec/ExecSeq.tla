------------------------------ MODULE ExecSeq ------------------------------
(***************************************************************************)
(* Sequential histories of job submission over the library's executors      *)
(* (property C05, first sentence: every job handed to any executor is       *)
(* finished by exactly one of Call or Drop; C07 for the strand's batching), *)
(* as a reference interpreter: TLC enumerates every program over REUSABLE   *)
(* job objects (a Job is an intrusive node: the same object is submitted    *)
(* again after it ran, to another executor, after it sat in another queue)  *)
(* and prints what must happen; the harness command `exec' runs it on the   *)
(* real executors.                                                          *)
(*   M   ManualExecutor (intrusive FIFO, drained by "D")                    *)
(*   S   Strand over M            T   a second Strand over M                *)
(*   R   Strand over an executor that rejects everything (always stopped)   *)
(*   I   Inline executor          J   Inline executor in the stopped state  *)
(* Program = sequence of <<executor, job>> submissions and "D" (drain M);   *)
(* a final drain is implied.  A job object is only submitted while it is    *)
(* not queued anywhere (the client contract of intrusive jobs).             *)
(***************************************************************************)
EXTENDS Naturals, Sequences, FiniteSets, TLC, Json

CONSTANTS Jobs,      \* job objects, as strings: {"1", "2", "3"}
          Execs,     \* subset of {"M", "S", "T", "R", "I", "J"}
          MaxLen

Strands == {"S", "T"}

VARIABLES prog,      \* operations so far: <<e, j>> or <<"D", "0">>
          mq,        \* M's queue: job numbers and strand names
          pend,      \* per strand over M: pending jobs (FIFO)
          sched,     \* per strand over M: is it in M's queue
          calls, drops, log

vars == <<prog, mq, pend, sched, calls, drops, log>>

Init == /\ prog = <<>> /\ mq = <<>> /\ pend = [s \in Strands |-> <<>>] /\ sched = [s \in Strands |-> FALSE]
        /\ calls = [j \in Jobs |-> 0] /\ drops = [j \in Jobs |-> 0] /\ log = <<>>

Queued(j) == \/ \E k \in 1..Len(mq) : mq[k] = j
             \/ \E s \in Strands : \E k \in 1..Len(pend[s]) : pend[s][k] = j

Called(st, j) == [st EXCEPT !.calls[j] = @ + 1, !.log = Append(@, <<"c", j>>)]
Dropped(st, j) == [st EXCEPT !.drops[j] = @ + 1, !.log = Append(@, <<"d", j>>)]

\* drain M: jobs are called in FIFO order; a strand runs its whole pending batch and goes idle
RECURSIVE RunBatch(_, _)
RunBatch(st, b) == IF b = <<>> THEN st ELSE RunBatch(Called(st, Head(b)), Tail(b))
RECURSIVE DrainQ(_)
DrainQ(st) ==
  IF st.mq = <<>> THEN st
  ELSE LET h == Head(st.mq)
           st1 == [st EXCEPT !.mq = Tail(@)]
       IN  IF h \in Strands
             THEN DrainQ(RunBatch([st1 EXCEPT !.pend[h] = <<>>, !.sched[h] = FALSE], st.pend[h]))
             ELSE DrainQ(Called(st1, h))

State == [mq |-> mq, pend |-> pend, sched |-> sched, calls |-> calls, drops |-> drops, log |-> log]
Set(st) == /\ mq' = st.mq /\ pend' = st.pend /\ sched' = st.sched /\ calls' = st.calls /\ drops' = st.drops /\ log' = st.log

Submit(e, j) ==
  /\ ~Queued(j)
  /\ prog' = Append(prog, <<e, j>>)
  /\ CASE e = "M" -> Set([State EXCEPT !.mq = Append(@, j)])
       [] e \in Strands -> Set([State EXCEPT !.pend[e] = Append(@, j),
                                             !.sched[e] = TRUE,
                                             !.mq = IF sched[e] THEN @ ELSE Append(@, e)])
       [] e = "R" -> Set(Dropped(State, j))      \* the strand is refused by its executor: it drops what it holds
       [] e = "I" -> Set(Called(State, j))
       [] e = "J" -> Set(Dropped(State, j))

Drain == /\ prog' = Append(prog, <<"D", "0">>)
         /\ Set(DrainQ(State))

Next == /\ Len(prog) < MaxLen
        /\ \/ \E e \in Execs, j \in Jobs : Submit(e, j)
           \/ (mq # <<>> /\ Drain)

Spec == Init /\ [][Next]_vars

\* the final state after the implied last drain
Final == DrainQ(State)
Subs(j) == Cardinality({k \in 1..Len(prog) : prog[k][2] = j})
\* every submission is finished by exactly one of Call or Drop
CalledXorDropped == \A j \in Jobs : Final.calls[j] + Final.drops[j] = Subs(j)
\* Drop only through an executor that refuses work
DropOnlyWhenRefused == \A j \in Jobs : Final.drops[j] = Cardinality({k \in 1..Len(prog) : prog[k][2] = j /\ prog[k][1] \in {"R", "J"}})

Emit == (Len(prog) = MaxLen \/ ~ENABLED Next) =>
          PrintT(<<"EPROG", ToJson([prog |-> prog, calls |-> Final.calls, drops |-> Final.drops, log |-> Final.log])>>)
=============================================================================
