------------------------------ MODULE ExecSeq ------------------------------
(***************************************************************************)
(* Sequential histories of job submission over the library's executors      *)
(* (property C05, first sentence: every job handed to any executor is       *)
(* finished by exactly one of Call or Drop; C07 for the strand's batching), *)
(* as a reference interpreter: TLC enumerates every program over REUSABLE   *)
(* job objects (a Job is an intrusive node: the same object is submitted    *)
(* again after it ran, to another executor, after it sat in another queue)  *)
(* and prints what must happen; the harness command `exec' runs it on the   *)
(* real executors.                                                          *)
(*   M   ManualExecutor (intrusive FIFO, drained by "D")                    *)
(*   S   Strand over M            T   a second Strand over M                *)
(*   R   Strand over an executor that rejects everything (always stopped)   *)
(*   I   Inline executor          J   Inline executor in the stopped state  *)
(* Program = sequence of <<executor, job>> submissions and "D" (drain M);   *)
(* a final drain is implied.  A job object is only submitted while it is    *)
(* not queued anywhere (the client contract of intrusive jobs).             *)
(* chain = "1<e>2": whenever job 1 is Called it submits job 2 to executor  *)
(* <e> from inside its Call (re-entrant submission, e.g. to the strand that *)
(* is running it), unless job 2 is queued at that moment.                   *)
(***************************************************************************)
EXTENDS Naturals, Sequences, FiniteSets, TLC, Json

CONSTANTS Jobs,      \* job objects, as strings: {"1", "2", "3"}
          Execs,     \* subset of {"M", "S", "T", "R", "I", "J"}
          Chains,    \* subset of {"none", "1M2", "1S2", "1T2", "1R2", "1I2"}
          MaxLen

Strands == {"S", "T"}

VARIABLES chain,     \* the program's chain parameter
          prog,      \* operations so far: <<e, j>> or <<"D", "0">>
          mq,        \* M's queue: job numbers and strand names
          pend,      \* per strand over M: pending jobs (FIFO)
          sched,     \* per strand over M: is it in M's queue
          calls, drops, log

vars == <<chain, prog, mq, pend, sched, calls, drops, log>>

ChainExec(c) == CASE c = "1M2" -> "M" [] c = "1S2" -> "S" [] c = "1T2" -> "T" [] c = "1R2" -> "R" [] c = "1I2" -> "I" [] OTHER -> "-"

Init == /\ chain \in Chains /\ prog = <<>> /\ mq = <<>> /\ pend = [s \in Strands |-> <<>>] /\ sched = [s \in Strands |-> FALSE]
        /\ calls = [j \in Jobs |-> 0] /\ drops = [j \in Jobs |-> 0] /\ log = <<>>

\* (st.run: the rest of the batch a strand is running right now -- still linked, not yet Called)
QueuedIn(st, j) == \/ \E k \in 1..Len(st.mq) : st.mq[k] = j
                   \/ \E s \in Strands : \E k \in 1..Len(st.pend[s]) : st.pend[s][k] = j
                   \/ \E k \in 1..Len(st.run) : st.run[k] = j

RECURSIVE Called(_, _), SubmitSt(_, _, _)
Dropped(st, j) == [st EXCEPT !.drops[j] = @ + 1, !.log = Append(@, <<"d", j>>)]
\* Call of job j; job 1 may submit job 2 from inside its Call
Called(st, j) ==
  LET s1 == [st EXCEPT !.calls[j] = @ + 1, !.log = Append(@, <<"c", j>>)] IN
  IF j = "1" /\ st.chain # "none" /\ ~QueuedIn(s1, "2") THEN SubmitSt(s1, ChainExec(st.chain), "2") ELSE s1
\* IExecutor::Submit as a function of the state
SubmitSt(st, e, j) ==
  CASE e = "M" -> [st EXCEPT !.mq = Append(@, j)]
    [] e \in Strands -> [st EXCEPT !.pend[e] = Append(@, j),
                                  !.sched[e] = TRUE,
                                  !.mq = IF st.sched[e] THEN @ ELSE Append(@, e)]
    [] e = "R" -> Dropped(st, j)      \* the strand is refused by its executor: it drops what it holds
    [] e = "I" -> Called(st, j)
    [] e = "J" -> Dropped(st, j)

\* drain M: jobs are called in FIFO order; a strand runs the batch it holds at that moment and goes idle; what is
\* submitted to it meanwhile (also by its own jobs) makes it schedule itself again behind the batch
RECURSIVE RunBatch(_, _)
RunBatch(st, b) == IF b = <<>> THEN [st EXCEPT !.run = <<>>] ELSE RunBatch(Called([st EXCEPT !.run = Tail(b)], Head(b)), Tail(b))
RECURSIVE DrainQ(_)
DrainQ(st) ==
  IF st.mq = <<>> THEN st
  ELSE LET h == Head(st.mq)
           st1 == [st EXCEPT !.mq = Tail(@)]
       IN  IF h \in Strands
             THEN DrainQ(RunBatch([st1 EXCEPT !.pend[h] = <<>>, !.sched[h] = FALSE], st.pend[h]))
             ELSE DrainQ(Called(st1, h))

State == [chain |-> chain, run |-> <<>>, mq |-> mq, pend |-> pend, sched |-> sched, calls |-> calls, drops |-> drops, log |-> log]
Set(st) == /\ chain' = chain /\ mq' = st.mq /\ pend' = st.pend /\ sched' = st.sched /\ calls' = st.calls /\ drops' = st.drops /\ log' = st.log

Submit(e, j) ==
  /\ ~QueuedIn(State, j)
  /\ prog' = Append(prog, <<e, j>>)
  /\ Set(SubmitSt(State, e, j))

Drain == /\ prog' = Append(prog, <<"D", "0">>)
         /\ Set(DrainQ(State))

Next == /\ Len(prog) < MaxLen
        /\ \/ \E e \in Execs, j \in Jobs : Submit(e, j)
           \/ (mq # <<>> /\ Drain)

Spec == Init /\ [][Next]_vars

\* the final state after the implied last drain
Final == DrainQ(State)
Subs(j) == Cardinality({k \in 1..Len(prog) : prog[k][2] = j})
\* every submission is finished by exactly one of Call or Drop (job 2 may also be submitted by job 1: one more per Call of
\* job 1 at most)
CalledXorDropped == \A j \in Jobs :
   LET n == Final.calls[j] + Final.drops[j] IN
   IF j = "2" /\ chain # "none" THEN n >= Subs(j) /\ n <= Subs(j) + Final.calls["1"] ELSE n = Subs(j)
\* Drop only through an executor that refuses work
DropOnlyWhenRefused == \A j \in Jobs :
   LET d == Cardinality({k \in 1..Len(prog) : prog[k][2] = j /\ prog[k][1] \in {"R", "J"}}) IN
   IF j = "2" /\ chain = "1R2" THEN Final.drops[j] >= d ELSE Final.drops[j] = d

Emit == (Len(prog) = MaxLen \/ ~ENABLED Next) =>
          PrintT(<<"EPROG", ToJson([chain |-> chain, prog |-> prog, calls |-> Final.calls, drops |-> Final.drops, log |-> Final.log])>>)
=============================================================================
