SPECIFICATION MCSpec
CONSTANTS
  KeepHist = FALSE
  MaxS = 3
  MaxW = 2
  Srcs = {"dc", "ac", "dac", "ca"}
  Wts = {"ii", "io", "ts", "ww", "ti", "so"}
INVARIANTS
  ReleasedOnlyAtZero ReleasedAtMostOnce WaitersReleasedAtQuiescence FalseOnlyAfterDeadline AttachedValid ConsumedOnce
  ConsumedAtQuiescence CountZeroAtQuiescence HeapWaiterReleased OwnershipOK NeverNegative NoRace NoStuck
VIEW View
CHECK_DEADLOCK TRUE
