--------------------------- MODULE Spinlock_Trace ---------------------------
(* Trace validation for scenario "sl" of the conformance harness (scheme: see UniqueCore_Trace). *)
EXTENDS Spinlock, Json, IOUtils

VARIABLES l, seen, drift

T == ndJsonDeserialize(IOEnv.TRACE)

Match(e, t) ==
  /\ e.p = t.p /\ e.a = t.a /\ e.o = t.o /\ e.old = t.old /\ e.new = t.new /\ e.ok = t.ok
  /\ e.obs = t.obs /\ e.done = t.done /\ e.spur = t.spur

Progress(n) == IF n > TLCGet(2) THEN TLCSet(2, n) ELSE TRUE
Note(e, t) == TLCSet(1, TLCGet(1) \cup {<<e.site, t.ord, t.ford, t.fences>>})
NoteDrift(n) == TLCSet(3, TLCGet(3) \cup {n})
See(p, obs) == seen \o [i \in 1..Len(obs) |-> [p |-> p, k |-> obs[i].k, v |-> obs[i].v]]

ScenOf(t) == [rounds |-> Rounds(t.params.rounds)]

TInit ==
  /\ TLCSet(1, {}) /\ TLCSet(2, 1) /\ TLCSet(3, {})
  /\ T[1].e = "begin"
  /\ InitScen(ScenOf(T[1]))
  /\ l = 2 /\ seen = <<>> /\ drift = FALSE

Conform(t) ==
  /\ Step
  /\ Match(ev', t)
  /\ mm' = MM!MStep(mm, ev'.p, ev'.a, ev'.loc, ev'.ok, t.ord, t.ford, t.fences, ev'.post)

TOp ==
  /\ l <= Len(T) /\ T[l].e = "op" /\ ~drift
  /\ Conform(T[l])
  /\ Note(ev', T[l])
  /\ seen' = See(T[l].p, T[l].obs)
  /\ l' = l + 1 /\ Progress(l') /\ UNCHANGED drift

TDrift ==
  /\ l <= Len(T) /\ T[l].e = "op"
  /\ drift \/ ~ENABLED Conform(T[l])
  /\ drift' = TRUE /\ NoteDrift(l)
  /\ seen' = See(T[l].p, T[l].obs)
  /\ UNCHANGED vars
  /\ l' = l + 1 /\ Progress(l')

TEnd ==
  /\ l <= Len(T) /\ T[l].e = "end"
  /\ drift' = (drift \/ ~Quiescent)
  /\ IF drift' /\ ~drift THEN NoteDrift(l) ELSE TRUE
  /\ UNCHANGED <<vars, seen>>
  /\ l' = l + 1 /\ Progress(l')

TBegin ==
  /\ l <= Len(T) /\ T[l].e = "begin"
  /\ ResetScen(ScenOf(T[l]))
  /\ seen' = <<>> /\ drift' = FALSE
  /\ l' = l + 1 /\ Progress(l')

TNext == TOp \/ TDrift \/ TEnd \/ TBegin
TSpec == TInit /\ [][TNext]_<<vars, l, seen, drift>>

NoRace == MM!NoRace(mm)

\* ---------------- abstract monitors of the lock (observations only: they judge any implementation) ----------------
Marks == SelectSeq(seen, LAMBDA s : s.k \in {"enter", "leave"})
\* the sections do not overlap: enter and leave alternate, and a leave is reported by the thread that entered
AbsExclusion ==
  \A n \in 1..Len(Marks) :
     /\ (n % 2 = 1) => Marks[n].k = "enter"
     /\ (n % 2 = 0) => (Marks[n].k = "leave" /\ Marks[n].p = Marks[n - 1].p)
\* what a holder finds in the protected cell is what the previous holder left there
Entered(n) == SelectSeq(SubSeq(seen, 1, n), LAMBDA s : s.k = "enter")
AbsSeesPrevious ==
  \A n \in 1..Len(seen) :
     seen[n].k = "enter" =>
        LET en == Entered(n)
            prev == IF Len(en) = 1 THEN "0" ELSE ToString(TIdx(en[Len(en) - 1].p))
        IN  seen[n].v = ToString(TIdx(seen[n].p)) \o ":" \o prev
AbsEndOK(t) == t.status = "ok" /\ t.final = ExpectedFinal
AbsEnd == (l > 1 /\ l - 1 <= Len(T) /\ T[l - 1].e = "end") => AbsEndOK(T[l - 1])

Accepted ==
  /\ PrintT(<<"SITES", ToJson(TLCGet(1))>>)
  /\ PrintT(<<"DRIFT", ToJson(TLCGet(3))>>)
  /\ PrintT(<<"REACHED", TLCGet(2), Len(T) + 1>>)
  /\ TLCGet(2) = Len(T) + 1
=============================================================================
