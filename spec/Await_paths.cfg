SPECIFICATION MCSpec
CONSTANTS
  KeepHist = TRUE
  Forms = {"fut", "await", "sticky", "on"}
  Ns = {1, 2}
  OutSets = {"v", "vx"}
  Execs = {"here", "stop"}
INVARIANTS PrintPaths
CHECK_DEADLOCK FALSE
