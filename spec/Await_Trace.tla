----------------------------- MODULE Await_Trace -----------------------------
(* Trace validation for scenario "aw" of the conformance harness (scheme: see UniqueCore_Trace). *)
EXTENDS Await, Json, IOUtils

VARIABLES l, seen, drift, omap, kk    \* kk = number of coroutines of the current execution

T == ndJsonDeserialize(IOEnv.TRACE)

\* the event's counter lives somewhere inside the coroutine frame: bound to the logged field at first use
Logical == {"cnt"}
Bind(m, lg, act) ==
  IF lg \notin Logical THEN <<lg = act, m>>
  ELSE IF lg \in DOMAIN m THEN <<m[lg] = act, m>>
  ELSE <<act \notin {"c1.cb", "c2.cb", "K.a0.kcb", "gate1", "gate2"}, m @@ (lg :> act)>>

Match(e, t) ==
  /\ e.p = t.p /\ e.a = t.a /\ Bind(omap, e.o, t.o)[1] /\ e.old = t.old /\ e.new = t.new /\ e.ok = t.ok
  /\ e.obs = t.obs /\ e.done = t.done /\ e.spur = t.spur

Progress(n) == IF n > TLCGet(2) THEN TLCSet(2, n) ELSE TRUE
Note(e, t) == TLCSet(1, TLCGet(1) \cup {<<e.site, t.ord, t.ford, t.fences>>})
NoteDrift(n) == TLCSet(3, TLCGet(3) \cup {n})
See(p, obs) == seen \o [i \in 1..Len(obs) |-> [p |-> p, k |-> obs[i].k, v |-> obs[i].v]]

Par(t, k, d) == IF k \in DOMAIN t.params THEN t.params[k] ELSE d
ScenOf(t) == [form |-> Par(t, "form", "await"), n |-> IF Par(t, "n", "1") = "2" THEN 2 ELSE 1,
              outs |-> Chars(Par(t, "outs", "v")), exec |-> Par(t, "exec", "here")]
\* awaiting a SharedFuture (one or several coroutines on the same one) is not modelled at operation level (the shared
\* state's own protocol is SharedCore.tla): such executions are judged by the abstract monitors only, from the start
Modelled(t) == Par(t, "form", "await") # "sfut"
KOf(t) == IF Par(t, "k", "1") = "2" THEN 2 ELSE 1

TInit ==
  /\ TLCSet(1, {}) /\ TLCSet(2, 1) /\ TLCSet(3, {})
  /\ T[1].e = "begin"
  /\ InitScen(ScenOf(T[1]))
  /\ l = 2 /\ seen = <<>> /\ drift = ~Modelled(T[1]) /\ omap = <<>> /\ kk = KOf(T[1])

Conform(t) ==
  /\ Step
  /\ Match(ev', t)
  /\ mm' = MM!MStep(mm, ev'.p, ev'.a, ev'.loc, ev'.ok, t.ord, t.ford, t.fences, ev'.post)

TOp ==
  /\ l <= Len(T) /\ T[l].e = "op" /\ ~drift
  /\ Conform(T[l])
  /\ omap' = Bind(omap, ev'.o, T[l].o)[2]
  /\ Note(ev', T[l])
  /\ seen' = See(T[l].p, T[l].obs)
  /\ l' = l + 1 /\ Progress(l') /\ UNCHANGED <<drift, kk>>

\* the root drops the coroutine's future at the end: a frame that was never resumed is destroyed there
TRobs ==
  /\ l <= Len(T) /\ T[l].e = "robs"
  /\ UNCHANGED <<vars, drift, omap, kk>>
  /\ seen' = See("root", T[l].obs)
  /\ l' = l + 1 /\ Progress(l')

TDrift ==
  /\ l <= Len(T) /\ T[l].e = "op"
  /\ drift \/ ~ENABLED Conform(T[l])
  /\ drift' = TRUE /\ (IF scen.form # "sfut" THEN NoteDrift(l) ELSE TRUE)
  /\ seen' = See(T[l].p, T[l].obs)
  /\ UNCHANGED <<vars, omap, kk>>
  /\ l' = l + 1 /\ Progress(l')

TEnd ==
  /\ l <= Len(T) /\ T[l].e = "end"
  /\ drift' = (drift \/ ~Quiescent)
  /\ IF drift' /\ ~drift THEN NoteDrift(l) ELSE TRUE
  /\ UNCHANGED <<vars, seen, omap, kk>>
  /\ l' = l + 1 /\ Progress(l')

TBegin ==
  /\ l <= Len(T) /\ T[l].e = "begin"
  /\ ResetScen(ScenOf(T[l]))
  /\ seen' = <<>> /\ drift' = ~Modelled(T[l]) /\ omap' = <<>> /\ kk' = KOf(T[l])
  /\ l' = l + 1 /\ Progress(l')

TNext == TOp \/ TRobs \/ TDrift \/ TEnd \/ TBegin
TSpec == TInit /\ [][TNext]_<<vars, l, seen, drift, omap, kk>>

NoRace == MM!NoRace(mm)

\* ---------------- abstract monitor of C13 (observations only) ----------------
Count(k) == Len(SelectSeq(seen, LAMBDA s : s.k = k))
SharedForm == scen.form = "sfut"
\* what coroutine id reports when it resumes from the SharedFuture
SharedOutcome(id) == S(id) \o ":" \o OutDesc(1)
CountV(k, v) == Len(SelectSeq(seen, LAMBDA s : s.k = k /\ s.v = v))
\* resumed at most once (per coroutine), and what it saw is the outcome of everything it awaited (so all of it had happened)
AbsResumedOnce == IF SharedForm THEN \A id \in 1..kk : CountV("resumed", SharedOutcome(id)) <= 1
                  ELSE Count("resumed") <= 1 /\ Count("local_dtor") <= 1
AbsOutcome == \A n \in 1..Len(seen) : seen[n].k = "resumed" =>
                 IF SharedForm THEN \E id \in 1..kk : seen[n].v = SharedOutcome(id) ELSE seen[n].v = FullOutcome(1)
\* AwaitOn always goes through the named executor: the coroutine continues right after the executor announced the job
AbsOnExecutor == scen.form = "on" => \A n \in 1..Len(seen) : seen[n].k = "resumed" => n > 1 /\ seen[n - 1].k = "submitted"
AbsRejected == \A n \in 1..Len(seen) : seen[n].k = "rejected" => Rejectable
AbsNoResumeAfterReject == Count("rejected") > 0 => Count("resumed") = 0
AbsEndOK(t) ==
  /\ t.status = "ok"
  /\ Count("local_dtor") = kk
  /\ t.final.locals = S(kk) /\ t.final.locals_live = "0" /\ t.final.live = "0"
  /\ IF SharedForm
       THEN /\ \A id \in 1..kk : CountV("resumed", SharedOutcome(id)) = 1
            /\ t.final.result = "v7" /\ (kk = 2 => "result2" \in DOMAIN t.final /\ t.final.result2 = "v7")
       ELSE \/ Count("resumed") = 1 /\ Count("rejected") = 0 /\ t.final.result = "v7"
            \/ Count("resumed") = 0 /\ Count("rejected") = 1 /\ t.final.result = "stop"
AbsEnd == (l > 1 /\ l - 1 <= Len(T) /\ T[l - 1].e = "end") => AbsEndOK(T[l - 1])

Accepted ==
  /\ PrintT(<<"SITES", ToJson(TLCGet(1))>>)
  /\ PrintT(<<"DRIFT", ToJson(TLCGet(3))>>)
  /\ PrintT(<<"REACHED", TLCGet(2), Len(T) + 1>>)
  /\ TLCGet(2) = Len(T) + 1
=============================================================================
