----------------------------- MODULE UniqueCore -----------------------------
(***************************************************************************)
(* The one-shot hand-off between a Promise and its Future (property C01,    *)
(* with the ownership clauses of C03 and the happens-before clauses of      *)
(* C04), at the granularity of the implementation: one action per *slice*,  *)
(* i.e. per visible operation (atomic / mutex / condvar operation of        *)
(* yaclib_std) of one thread plus the plain code that follows it up to the  *)
(* next visible operation.                                                  *)
(*                                                                         *)
(* Code map (file: function -> actions)                                     *)
(*   src/algo/base_core.cpp  SetCallbackImpl<false>  -> CLoad, CCas         *)
(*   src/algo/base_core.cpp  SetResultImpl<.,false>  -> PSet, PX2, CX2      *)
(*   include/yaclib/algo/detail/core.hpp  Core::Impl/CallImpl/Done          *)
(*                                         -> RunCont, Submit (in slices)   *)
(*   src/algo/drop_core.cpp  Drop::Here              -> FreeCore1/2         *)
(*   include/yaclib/algo/detail/unique_core.hpp  Here (Connect)             *)
(*   include/yaclib/async/detail/wait_impl.hpp  WaitCore (1 handle)         *)
(*   src/util/mutex_event.cpp  Set / Wait  -> PLock PNotify PUnlock,        *)
(*                                            CEvLock CCvWait CCvWake ...   *)
(*   include/yaclib/async/future.hpp  Get&&, Get const&, Ready, Detach      *)
(*   include/yaclib/async/connect.hpp  Connect(Future&&, Promise&&)         *)
(*                                                                         *)
(* Word values are the abstract classes the conformance harness logs:       *)
(* "0" = kEmpty, "MAX" = kResult, "@x" = pointer to object x.               *)
(***************************************************************************)
EXTENDS Naturals, Sequences, FiniteSets, TLC

CONSTANTS ProdKinds, ConsKinds      \* scenario space explored by Init

Proc == {"P", "C"}

ContK   == {"then_inline", "then_exec", "detach_inline", "detach_exec"}
InlineK == {"then_inline", "detach_inline"}
ExecK   == {"then_exec", "detach_exec"}
DetK    == {"detach_inline", "detach_exec"}
DropK   == {"detach", "drop"}
WaitK   == {"get", "wait"}
\* thr_retry / thr_drop: the first Promise::Set throws while the Result is being constructed (no visible operation:
\* nothing was published, the Promise still belongs to the producer), then the producer sets an exception / drops it
AllProd == {"val", "err", "exc", "drop", "thr_retry", "thr_drop"}
AllCons == ContK \cup DropK \cup WaitK \cup {"connect", "get_const"}

PLocs == {"res1", "core1", "res2", "core2", "func", "evobj", "evready"}
ALocs == {"c1.cb", "cb2", "mtx", "gate"}

MM == INSTANCE MemModel WITH MProc <- Proc, MALoc <- ALocs, MPLoc <- PLocs

VARIABLES scen,     \* [prod, cons]
          cb1,      \* callback word of the contract's core
          cb2,      \* callback word of the continuation core / of the Connect target
          res1,     \* result slot of core 1: "none" | payload | "moved"
          res2,     \* result slot of core 2
          alive,    \* [core1, core2, evobj] -> "no" | "yes" | "freed"
          evReady, mtx, cvWait, woken,     \* the stack event of Get/Wait
          q,        \* jobs queued in the (recording) executor
          pc,
          calls,    \* arguments the user callback was invoked with, in order
          gets,     \* what Get / Get const& returned
          err,      \* ownership errors detected by the model (use after free, double free)
          stored,   \* the producer has constructed the Result in the core (not necessarily published yet)
          ev,       \* the slice just executed, in the format the harness logs
          mm        \* MemModel state

vars == <<scen, cb1, cb2, res1, res2, alive, evReady, mtx, cvWait, woken, q, pc, calls, gets, err, stored, ev, mm>>

Payload == CASE scen.prod = "val" -> "v7" [] scen.prod \in {"exc", "thr_retry"} -> "exc:x" [] OTHER -> "stop"
Ptr == CASE scen.cons \in ContK -> "@C.a0" [] scen.cons \in DropK -> "@drop"
         [] scen.cons \in WaitK -> "@C.stk" [] scen.cons = "connect" -> "@c2" [] OTHER -> "@none"
O2 == IF scen.cons = "connect" THEN "c2.cb" ELSE "C.a0.cb"
NextVal == IF scen.cons \in {"then_inline", "then_exec"} THEN "v1" ELSE "unit"

Ob(k, v) == [k |-> k, v |-> v]
W(l) == [k |-> "W", l |-> l]
R(l) == [k |-> "R", l |-> l]

Ev(p, a, o, old, new, ok, obs, done, site, post) ==
  [p |-> p, a |-> a, o |-> o, old |-> old, new |-> new, ok |-> ok, spur |-> FALSE, obs |-> obs, done |-> done,
   site |-> site, post |-> post]

NoEv == Ev("-", "-", "-", "-", "-", TRUE, <<>>, FALSE, "-", <<>>)

(***************************************************************************)
(* Initial state: scenario chosen nondeterministically; the plain writes    *)
(* each thread performs before its first visible operation (producer stores *)
(* the result, consumer builds the continuation core / the stack event) are *)
(* recorded in the memory model here.                                       *)
(***************************************************************************)
InitMM(c) ==
  LET m0 == MM!MInit                                                    \* the producer stores the result after its gate
      m1 == IF c \in ContK THEN MM!PWrite(MM!PWrite(MM!PWrite(m0, "C", "core2"), "C", "func"), "C", "res2")
            ELSE IF c \in WaitK THEN MM!PWrite(MM!PWrite(m0, "C", "evobj"), "C", "evready")
            ELSE m0
  IN  m1

\* initial values as a record, so that Init and the trace specification's Reset share them
I0(s) ==
  [ scen |-> s, cb1 |-> "0", cb2 |-> "0", res1 |-> "none", res2 |-> "none",
    alive |-> [core1 |-> "yes",
               core2 |-> IF s.cons \in ContK \cup {"connect"} THEN "yes" ELSE "no",
               evobj |-> IF s.cons \in WaitK THEN "yes" ELSE "no"],
    evReady |-> FALSE, mtx |-> "free", cvWait |-> FALSE, woken |-> FALSE, q |-> 0,
    pc |-> [P |-> "gate",
            C |-> CASE s.cons \in DetK -> "store" [] s.cons = "get_const" -> "poll1" [] OTHER -> "load"],
    calls |-> <<>>, gets |-> <<>>, err |-> {}, stored |-> FALSE, ev |-> NoEv, mm |-> InitMM(s.cons) ]

InitScen(s) ==
  LET i == I0(s) IN
  /\ scen = i.scen /\ cb1 = i.cb1 /\ cb2 = i.cb2 /\ res1 = i.res1 /\ res2 = i.res2 /\ alive = i.alive
  /\ evReady = i.evReady /\ mtx = i.mtx /\ cvWait = i.cvWait /\ woken = i.woken /\ q = i.q /\ pc = i.pc
  /\ calls = i.calls /\ gets = i.gets /\ err = i.err /\ stored = i.stored /\ ev = i.ev /\ mm = i.mm

ResetScen(s) ==
  LET i == I0(s) IN
  /\ scen' = i.scen /\ cb1' = i.cb1 /\ cb2' = i.cb2 /\ res1' = i.res1 /\ res2' = i.res2 /\ alive' = i.alive
  /\ evReady' = i.evReady /\ mtx' = i.mtx /\ cvWait' = i.cvWait /\ woken' = i.woken /\ q' = i.q /\ pc' = i.pc
  /\ calls' = i.calls /\ gets' = i.gets /\ err' = i.err /\ stored' = i.stored /\ ev' = i.ev /\ mm' = i.mm

Init == \E pr \in ProdKinds, co \in ConsKinds : InitScen([prod |-> pr, cons |-> co])

(***************************************************************************)
(* Building blocks: what a thread does (plain code) once it has the result  *)
(* in hand.  Each returns the changes through primed variables; they are    *)
(* used inside slice actions.                                               *)
(***************************************************************************)
Use(obj) == IF alive[obj] = "yes" THEN {} ELSE {<<"use-after-free", obj>>}
FreeErr(obj) == IF alive[obj] = "yes" THEN {} ELSE {<<"double-free", obj>>}

\* the continuation runs inline in thread p: invoke f, store its value, release core 1, destroy functor
RunContFx ==
  /\ calls' = Append(calls, res1)
  /\ res2' = NextVal
  /\ res1' = "moved"
  /\ alive' = [alive EXCEPT !.core1 = "freed"]
  /\ err' = err \cup Use("core1") \cup Use("core2")
RunContPost == <<R("core2"), R("res1"), R("func"), W("res2"), W("res1"), W("core1"), W("func")>>

FreeCore1Fx == /\ alive' = [alive EXCEPT !.core1 = "freed"]
               /\ res1' = "moved"
               /\ err' = err \cup FreeErr("core1")
FreeCore1Post == <<W("res1"), W("core1")>>

(***************************************************************************)
(* Producer                                                                 *)
(***************************************************************************)
\* the producer's first visible operation (a flag of the harness); in its tail Promise::Set stores the result
PGate ==
  /\ pc.P = "gate"
  /\ pc' = [pc EXCEPT !.P = "xchg"]
  /\ stored' = TRUE
  /\ ev' = Ev("P", "store", "gate", "0", "1", TRUE, <<>>, FALSE, "Harness.gate", <<W("res1")>>)
  /\ UNCHANGED <<scen, cb1, cb2, res1, res2, alive, evReady, mtx, cvWait, woken, q, calls, gets, err>>

PSet ==
  /\ pc.P = "xchg"
  /\ cb1' = "MAX"
  /\ LET old == cb1 IN
     CASE old = "0" ->
            /\ res1' = Payload
            /\ pc' = [pc EXCEPT !.P = "done"]
            /\ ev' = Ev("P", "xchg", "c1.cb", "0", "MAX", TRUE, <<>>, TRUE, "Set.xchg", <<>>)
            /\ UNCHANGED <<cb2, res2, alive, q, calls, gets, err>>
       [] old = "@drop" ->
            /\ alive' = [alive EXCEPT !.core1 = "freed"]
            /\ res1' = "moved"
            /\ err' = err \cup FreeErr("core1")
            /\ pc' = [pc EXCEPT !.P = "done"]
            /\ ev' = Ev("P", "xchg", "c1.cb", old, "MAX", TRUE, <<>>, TRUE, "Set.xchg", FreeCore1Post)
            /\ UNCHANGED <<cb2, res2, q, calls, gets>>
       [] old = "@C.a0" /\ scen.cons \in InlineK ->
            /\ calls' = Append(calls, Payload)
            /\ res2' = NextVal
            /\ res1' = "moved"
            /\ alive' = [alive EXCEPT !.core1 = "freed"]
            /\ err' = err \cup Use("core1") \cup Use("core2")
            /\ pc' = [pc EXCEPT !.P = "x2"]
            /\ ev' = Ev("P", "xchg", "c1.cb", old, "MAX", TRUE, <<Ob("call", Payload)>>, FALSE, "Set.xchg", RunContPost)
            /\ UNCHANGED <<cb2, q, gets>>
       [] old = "@C.a0" /\ scen.cons \in ExecK ->
            /\ res1' = Payload
            /\ q' = q + 1
            /\ err' = err \cup Use("core2")
            /\ pc' = [pc EXCEPT !.P = "done"]
            /\ ev' = Ev("P", "xchg", "c1.cb", old, "MAX", TRUE, <<Ob("submit", "q")>>, TRUE, "Set.xchg", <<W("core2")>>)
            /\ UNCHANGED <<cb2, res2, alive, calls, gets>>
       [] old = "@C.stk" ->
            /\ res1' = Payload
            /\ err' = err \cup Use("evobj")
            /\ pc' = [pc EXCEPT !.P = "lock"]
            /\ ev' = Ev("P", "xchg", "c1.cb", old, "MAX", TRUE, <<>>, FALSE, "Set.xchg", <<R("evobj")>>)
            /\ UNCHANGED <<cb2, res2, alive, q, calls, gets>>
       [] old = "@c2" ->
            /\ res2' = Payload
            /\ res1' = "moved"
            /\ alive' = [alive EXCEPT !.core1 = "freed"]
            /\ err' = err \cup FreeErr("core1") \cup Use("core2")
            /\ pc' = [pc EXCEPT !.P = "x2"]
            /\ ev' = Ev("P", "xchg", "c1.cb", old, "MAX", TRUE, <<>>, FALSE, "Set.xchg",
                        <<R("res1"), W("res2"), W("res1"), W("core1")>>)
            /\ UNCHANGED <<cb2, q, calls, gets>>
  /\ UNCHANGED <<scen, evReady, mtx, cvWait, woken>>

\* SetResult of the second core, by whichever thread p completed it
X2(p) ==
  /\ pc[p] = "x2"
  /\ cb2' = "MAX"
  /\ pc' = [pc EXCEPT ![p] = "done"]
  /\ IF cb2 = "@drop"
       THEN /\ alive' = [alive EXCEPT !.core2 = "freed"]
            /\ err' = err \cup FreeErr("core2")
            /\ ev' = Ev(p, "xchg", O2, cb2, "MAX", TRUE, <<>>, TRUE, "Next.xchg", <<W("res2"), W("core2")>>)
       ELSE /\ err' = err \cup Use("core2")
            /\ ev' = Ev(p, "xchg", O2, cb2, "MAX", TRUE, <<>>, TRUE, "Next.xchg", <<>>)
            /\ UNCHANGED alive
  /\ UNCHANGED <<scen, cb1, res1, res2, evReady, mtx, cvWait, woken, q, calls, gets>>

PLock ==
  /\ pc.P = "lock" /\ mtx = "free"
  /\ mtx' = "P" /\ evReady' = TRUE
  /\ err' = err \cup Use("evobj")
  /\ pc' = [pc EXCEPT !.P = "notify"]
  /\ ev' = Ev("P", "lock", "C.stk", "-", "-", TRUE, <<>>, FALSE, "Event.Set.lock", <<R("evobj"), W("evready")>>)
  /\ UNCHANGED <<scen, cb1, cb2, res1, res2, alive, cvWait, woken, q, calls, gets>>

PNotify ==
  /\ pc.P = "notify"
  /\ woken' = (woken \/ cvWait)
  /\ err' = err \cup Use("evobj")
  /\ pc' = [pc EXCEPT !.P = "unlock"]
  /\ ev' = Ev("P", "notify_one", "C.stk", "-", "-", TRUE, <<>>, FALSE, "Event.Set.notify", <<R("evobj")>>)
  /\ UNCHANGED <<scen, cb1, cb2, res1, res2, alive, evReady, mtx, cvWait, q, calls, gets>>

PUnlock ==
  /\ pc.P = "unlock"
  /\ mtx' = "free"
  /\ err' = err \cup Use("evobj")
  /\ pc' = [pc EXCEPT !.P = "done"]
  /\ ev' = Ev("P", "unlock", "C.stk", "-", "-", TRUE, <<>>, TRUE, "Event.Set.unlock", <<>>)
  /\ UNCHANGED <<scen, cb1, cb2, res1, res2, alive, evReady, cvWait, woken, q, calls, gets>>

(***************************************************************************)
(* Consumer                                                                 *)
(***************************************************************************)
\* Detach*(f): the new core's own word is pre-set to the Drop callback (relaxed store, object still private)
CStore ==
  /\ pc.C = "store"
  /\ cb2' = "@drop"
  /\ pc' = [pc EXCEPT !.C = "load"]
  /\ ev' = Ev("C", "store", "C.a0.cb", cb2, "@drop", TRUE, <<>>, FALSE, "Detach.store", <<>>)
  /\ UNCHANGED <<scen, cb1, res1, res2, alive, evReady, mtx, cvWait, woken, q, calls, gets, err>>

\* What the consumer does in the tail of the slice in which it learned that the result is already there.
\* a, old, new, ok, site describe the operation of that slice.
CReady(a, old, new, ok, site) ==
  CASE scen.cons \in InlineK ->
         /\ calls' = Append(calls, res1)
         /\ res2' = NextVal /\ res1' = "moved"
         /\ alive' = [alive EXCEPT !.core1 = "freed"]
         /\ err' = err \cup Use("core1") \cup Use("core2")
         /\ pc' = [pc EXCEPT !.C = "x2"]
         /\ ev' = Ev("C", a, "c1.cb", old, new, ok, <<Ob("call", res1)>>, FALSE, site, RunContPost)
         /\ UNCHANGED <<q, gets, evReady, mtx, cvWait, woken>>
    [] scen.cons \in ExecK ->
         /\ q' = q + 1
         /\ err' = err \cup Use("core2")
         /\ pc' = [pc EXCEPT !.C = "done"]
         /\ ev' = Ev("C", a, "c1.cb", old, new, ok, <<Ob("submit", "q")>>, TRUE, site, <<W("core2")>>)
         /\ UNCHANGED <<res1, res2, alive, calls, gets, evReady, mtx, cvWait, woken>>
    [] scen.cons \in DropK ->
         /\ FreeCore1Fx
         /\ pc' = [pc EXCEPT !.C = "done"]
         /\ ev' = Ev("C", a, "c1.cb", old, new, ok, <<>>, TRUE, site, FreeCore1Post)
         /\ UNCHANGED <<res2, q, calls, gets, evReady, mtx, cvWait, woken>>
    [] scen.cons = "connect" ->
         /\ res2' = res1 /\ res1' = "moved"
         /\ alive' = [alive EXCEPT !.core1 = "freed"]
         /\ err' = err \cup FreeErr("core1") \cup Use("core2")
         /\ pc' = [pc EXCEPT !.C = "x2"]
         /\ ev' = Ev("C", a, "c1.cb", old, new, ok, <<>>, FALSE, site, <<R("res1"), W("res1"), W("core1"), W("res2")>>)
         /\ UNCHANGED <<q, calls, gets, evReady, mtx, cvWait, woken>>
    [] scen.cons = "get" ->
         /\ gets' = Append(gets, res1)
         /\ res1' = "moved"
         /\ alive' = [alive EXCEPT !.core1 = "freed", !.evobj = "freed"]
         /\ err' = err \cup FreeErr("core1")
         /\ pc' = [pc EXCEPT !.C = "done"]
         /\ ev' = Ev("C", a, "c1.cb", old, new, ok, <<Ob("get", res1)>>, TRUE, site,
                     <<W("evobj"), R("res1"), W("res1"), W("core1")>>)
         /\ UNCHANGED <<res2, q, calls, evReady, mtx, cvWait, woken>>
    [] scen.cons = "wait" ->
         /\ alive' = [alive EXCEPT !.evobj = "freed"]
         /\ pc' = [pc EXCEPT !.C = "rdy"]
         /\ ev' = Ev("C", a, "c1.cb", old, new, ok, <<Ob("waited", "")>>, FALSE, site, <<W("evobj")>>)
         /\ UNCHANGED <<res1, res2, q, calls, gets, err, evReady, mtx, cvWait, woken>>

CLoad ==
  /\ pc.C = "load"
  /\ IF cb1 = "0"
       THEN /\ pc' = [pc EXCEPT !.C = "cas"]
            /\ ev' = Ev("C", "load", "c1.cb", "0", "0", TRUE, <<>>, FALSE, "SetCallback.load", <<>>)
            /\ UNCHANGED <<res1, res2, alive, q, calls, gets, err, evReady, mtx, cvWait, woken>>
       ELSE CReady("load", cb1, cb1, TRUE, "SetCallback.load")
  /\ UNCHANGED <<scen, cb1, cb2>>

CCas ==
  /\ pc.C = "cas"
  /\ IF cb1 = "0"
       THEN /\ cb1' = Ptr
            /\ IF scen.cons \in WaitK
                 THEN /\ pc' = [pc EXCEPT !.C = "evlock"]
                      /\ ev' = Ev("C", "cas", "c1.cb", "0", Ptr, TRUE, <<>>, FALSE, "SetCallback.cas", <<>>)
                 ELSE /\ pc' = [pc EXCEPT !.C = "done"]
                      /\ ev' = Ev("C", "cas", "c1.cb", "0", Ptr, TRUE, <<>>, TRUE, "SetCallback.cas", <<>>)
            /\ UNCHANGED <<res1, res2, alive, q, calls, gets, err, evReady, mtx, cvWait, woken>>
       ELSE /\ UNCHANGED cb1
            /\ CReady("cas", cb1, cb1, FALSE, "SetCallback.cas")
  /\ UNCHANGED <<scen, cb2>>

CEvLock ==
  /\ pc.C = "evlock" /\ mtx = "free"
  /\ mtx' = "C"
  /\ pc' = [pc EXCEPT !.C = IF evReady THEN "evunlock" ELSE "cvwait"]
  /\ ev' = Ev("C", "lock", "C.stk", "-", "-", TRUE, <<>>, FALSE, "Event.Wait.lock", <<R("evready")>>)
  /\ UNCHANGED <<scen, cb1, cb2, res1, res2, alive, evReady, cvWait, woken, q, calls, gets, err>>

CCvWait ==
  /\ pc.C = "cvwait"
  /\ mtx' = "free" /\ cvWait' = TRUE
  /\ pc' = [pc EXCEPT !.C = "cvwake"]
  /\ ev' = Ev("C", "cvwait", "C.stk", "-", "-", TRUE, <<>>, FALSE, "Event.Wait.cvwait", <<>>)
  /\ UNCHANGED <<scen, cb1, cb2, res1, res2, alive, evReady, woken, q, calls, gets, err>>

CCvWake ==
  /\ pc.C = "cvwake" /\ woken /\ mtx = "free"
  /\ mtx' = "C" /\ cvWait' = FALSE /\ woken' = FALSE
  /\ pc' = [pc EXCEPT !.C = IF evReady THEN "evunlock" ELSE "cvwait"]
  /\ ev' = Ev("C", "cvwake", "C.stk", "-", "-", TRUE, <<>>, FALSE, "Event.Wait.cvwake", <<R("evready")>>)
  /\ UNCHANGED <<scen, cb1, cb2, res1, res2, alive, evReady, q, calls, gets, err>>

CEvUnlock ==
  /\ pc.C = "evunlock"
  /\ mtx' = "free"
  /\ IF scen.cons = "get"
       THEN /\ gets' = Append(gets, res1)
            /\ res1' = "moved"
            /\ alive' = [alive EXCEPT !.core1 = "freed", !.evobj = "freed"]
            /\ err' = err \cup FreeErr("core1")
            /\ pc' = [pc EXCEPT !.C = "done"]
            /\ ev' = Ev("C", "unlock", "C.stk", "-", "-", TRUE, <<Ob("get", res1)>>, TRUE, "Event.Wait.unlock",
                        <<W("evobj"), R("res1"), W("res1"), W("core1")>>)
       ELSE /\ alive' = [alive EXCEPT !.evobj = "freed"]
            /\ pc' = [pc EXCEPT !.C = "rdy"]
            /\ ev' = Ev("C", "unlock", "C.stk", "-", "-", TRUE, <<Ob("waited", "")>>, FALSE, "Event.Wait.unlock", <<W("evobj")>>)
            /\ UNCHANGED <<res1, gets, err>>
  /\ UNCHANGED <<scen, cb1, cb2, res2, evReady, cvWait, woken, q, calls>>

\* Future::Ready() after Wait returned
CRdy ==
  /\ pc.C = "rdy"
  /\ pc' = [pc EXCEPT !.C = "done"]
  /\ gets' = Append(gets, IF cb1 # "0" THEN "ready:" \o res1 ELSE "notready")
  /\ ev' = Ev("C", "load", "c1.cb", cb1, cb1, TRUE, <<Ob("ready", IF cb1 # "0" THEN "1" ELSE "0")>>, TRUE, "Ready.load", <<>>)
  /\ UNCHANGED <<scen, cb1, cb2, res1, res2, alive, evReady, mtx, cvWait, woken, q, calls, err>>

\* Future::Get() const& polled twice
CPoll ==
  /\ pc.C \in {"poll1", "poll2"}
  /\ IF cb1 = "0"
       THEN /\ pc' = [pc EXCEPT !.C = IF pc.C = "poll1" THEN "poll2" ELSE "done"]
            /\ ev' = Ev("C", "load", "c1.cb", "0", "0", TRUE, <<Ob("ready", "0")>>, pc.C = "poll2", "GetConst.load", <<>>)
            /\ UNCHANGED gets
       ELSE /\ pc' = [pc EXCEPT !.C = "done"]
            /\ gets' = Append(gets, res1)
            /\ ev' = Ev("C", "load", "c1.cb", cb1, cb1, TRUE, <<Ob("ready", "1"), Ob("read", res1)>>, TRUE, "GetConst.load", <<R("res1")>>)
  /\ UNCHANGED <<scen, cb1, cb2, res1, res2, alive, evReady, mtx, cvWait, woken, q, calls, err>>

\* after both threads finished the root drains the recording executor (not a thread of the model)
RootDrain ==
  /\ pc.P = "done" /\ pc.C = "done" /\ q > 0
  /\ q' = q - 1
  /\ calls' = Append(calls, res1)
  /\ res2' = NextVal /\ res1' = "moved"
  /\ cb2' = "MAX"
  /\ alive' = [alive EXCEPT !.core1 = "freed", !.core2 = IF scen.cons \in DetK THEN "freed" ELSE @]
  /\ err' = err \cup Use("core1") \cup Use("core2")
  /\ ev' = Ev("root", "robs", "-", "-", "-", TRUE, <<Ob("call", res1)>>, FALSE, "-", <<>>)
  /\ UNCHANGED <<scen, cb1, evReady, mtx, cvWait, woken, pc, gets, stored>>

Step == \/ PGate
        \/ /\ \/ PSet \/ X2("P") \/ PLock \/ PNotify \/ PUnlock
              \/ CStore \/ CLoad \/ CCas \/ X2("C") \/ CEvLock \/ CCvWait \/ CCvWake \/ CEvUnlock \/ CRdy \/ CPoll
           /\ UNCHANGED stored

Quiescent == pc.P = "done" /\ pc.C = "done" /\ q = 0

(***************************************************************************)
(* Properties                                                               *)
(***************************************************************************)
Attaching == scen.cons \in ContK

TypeOK ==
  /\ cb1 \in {"0", "MAX", "@C.a0", "@drop", "@C.stk", "@c2"}
  /\ cb2 \in {"0", "MAX", "@drop"}
  /\ mtx \in {"free", "P", "C"}
  /\ q \in 0..1

\* C01: never more than once, never early, never torn
InvokedAtMostOnce == Len(calls) <= 1
DeliveredIntact   == /\ \A i \in 1..Len(calls) : calls[i] = Payload
                     /\ \A i \in 1..Len(gets)  : gets[i] \in {Payload, "ready:" \o Payload}
\* ... and exactly once when everything has come to rest; nothing runs if the future was dropped
DeliveredAtQuiescence ==
  Quiescent =>
    /\ Attaching => calls = <<Payload>>
    /\ ~Attaching => calls = <<>>
    /\ scen.cons = "get" => gets = <<Payload>>
    /\ scen.cons = "wait" => gets = <<"ready:" \o Payload>>
    /\ scen.cons = "connect" => res2 = Payload /\ cb2 = "MAX"
    /\ scen.cons \in {"then_inline", "then_exec"} => res2 = "v1" /\ cb2 = "MAX"
\* C03: released exactly once, never touched afterwards, nothing left
OwnershipOK == err = {}
ReleasedAtQuiescence ==
  Quiescent =>
    /\ scen.cons \notin {"get_const", "wait"} => alive.core1 = "freed"     \* otherwise the caller still holds it
    /\ scen.cons \in DetK => alive.core2 = "freed"
    /\ scen.cons \in WaitK => alive.evobj = "freed"
\* C11 (single future): Wait returns only when ready
WaitMeansReady == \A i \in 1..Len(gets) : gets[i] # "notready"

(***************************************************************************)
(* Binding to the conformance harness                                       *)
(***************************************************************************)
\* logged object name -> atomic location of the memory model
Loc(o) == CASE o = "c1.cb" -> "c1.cb" [] o \in {"C.a0.cb", "c2.cb"} -> "cb2" [] o = "gate" -> "gate" [] OTHER -> "mtx"

\* the "final" record the scenario driver reports after the root has drained the executor and released
\* everything it was handed back
ExpectedFinal ==
  LET base == [live |-> "0", read_moved |-> "0",
               submits |-> IF scen.cons \in ExecK THEN "1" ELSE "0",
               calls   |-> IF scen.cons \in ExecK THEN "1" ELSE "0"]
  IN  CASE scen.cons \in {"then_inline", "then_exec"} -> base @@ [next_ready |-> "1", next |-> "v1"]
        [] scen.cons \in {"get_const", "wait"}        -> base @@ [kept_ready |-> "1", kept |-> Payload]
        [] scen.cons = "connect"                      -> base @@ [f2_ready |-> "1", f2 |-> Payload]
        [] OTHER                                      -> base
=============================================================================
