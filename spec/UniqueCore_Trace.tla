--------------------------- MODULE UniqueCore_Trace ---------------------------
(***************************************************************************)
(* Trace validation for scenario "uc" of the conformance harness.           *)
(*                                                                         *)
(* Every execution recorded from the real code must be a behaviour of       *)
(* UniqueCore: each logged slice has to be matched by a specification       *)
(* action producing exactly that event; all invariants of the               *)
(* specification are evaluated along the way and the memory model is driven *)
(* with the memory orders the code actually passed.                         *)
(*                                                                         *)
(* Independently of that, the *observable* contract of property C01 (what   *)
(* the callbacks, Get and Ready reported, and the final state) is checked   *)
(* by an abstract monitor over the logged observations alone (`seen').  If  *)
(* a slice has no matching action the code no longer has the shape of the   *)
(* specification: the execution is then only followed by the monitor        *)
(* (drift = TRUE), so that a refactoring is not mistaken for a violation    *)
(* and a real violation is still caught by what it does observably.         *)
(***************************************************************************)
EXTENDS UniqueCore, Json, IOUtils

VARIABLES l,        \* next line of the trace
          seen,     \* observations of the current execution: <<[p, k, v], ...>>
          drift     \* the current execution left the detailed specification

T == ndJsonDeserialize(IOEnv.TRACE)

Match(e, t) ==
  /\ e.p = t.p /\ e.a = t.a /\ e.o = t.o /\ e.old = t.old /\ e.new = t.new /\ e.ok = t.ok
  /\ e.obs = t.obs /\ e.done = t.done /\ e.spur = t.spur

Progress(n) == IF n > TLCGet(2) THEN TLCSet(2, n) ELSE TRUE
Note(site, t) == TLCSet(1, TLCGet(1) \cup {<<site, t.ord, t.ford, t.fences>>})
NoteDrift(n) == TLCSet(3, TLCGet(3) \cup {n})

See(p, obs) == seen \o [i \in 1..Len(obs) |-> [p |-> p, k |-> obs[i].k, v |-> obs[i].v]]

ScenOf(t) == [prod |-> t.params.prod, cons |-> t.params.cons]

TInit ==
  /\ TLCSet(1, {}) /\ TLCSet(2, 1) /\ TLCSet(3, {})
  /\ T[1].e = "begin"
  /\ InitScen(ScenOf(T[1]))
  /\ l = 2 /\ seen = <<>> /\ drift = FALSE

Conform(t) ==
  /\ Step
  /\ Match(ev', t)
  /\ mm' = MM!MStep(mm, ev'.p, ev'.a, Loc(ev'.o), ev'.ok, t.ord, t.ford, t.fences, ev'.post)

TOp ==
  /\ l <= Len(T) /\ T[l].e = "op" /\ ~drift
  /\ Conform(T[l])
  /\ Note(ev'.site, T[l])
  /\ seen' = See(T[l].p, T[l].obs)
  /\ l' = l + 1 /\ Progress(l') /\ UNCHANGED drift

TRobs ==
  /\ l <= Len(T) /\ T[l].e = "robs" /\ ~drift
  /\ RootDrain
  /\ ev'.obs = T[l].obs
  /\ UNCHANGED mm
  /\ seen' = See("root", T[l].obs)
  /\ l' = l + 1 /\ Progress(l') /\ UNCHANGED drift

\* no action of the specification produces this line: follow the execution with the monitor only
TDrift ==
  /\ l <= Len(T) /\ T[l].e \in {"op", "robs"}
  /\ drift \/ (T[l].e = "op" /\ ~ENABLED Conform(T[l])) \/ (T[l].e = "robs" /\ ~ENABLED (RootDrain /\ ev'.obs = T[l].obs))
  /\ drift' = TRUE /\ NoteDrift(l)
  /\ seen' = See(IF T[l].e = "op" THEN T[l].p ELSE "root", T[l].obs)
  /\ UNCHANGED vars
  /\ l' = l + 1 /\ Progress(l')

AbsCalls == SelectSeq(seen, LAMBDA s : s.k = "call")
AbsGets  == SelectSeq(seen, LAMBDA s : s.k \in {"get", "read"})

\* observable contract at the end of an execution (the final record comes from the scenario driver)
AbsEndOK(t) ==
  /\ t.status = "ok"
  /\ t.final = ExpectedFinal
  /\ scen.cons \in ContK => Len(AbsCalls) = 1
  /\ scen.cons = "get" => Len(AbsGets) = 1

\* an execution that ends where the specification is not at rest has left the specification, too
TEnd ==
  /\ l <= Len(T) /\ T[l].e = "end"
  /\ drift' = (drift \/ ~Quiescent)
  /\ IF drift' /\ ~drift THEN NoteDrift(l) ELSE TRUE
  /\ UNCHANGED <<vars, seen>>
  /\ l' = l + 1 /\ Progress(l')

TBegin ==
  /\ l <= Len(T) /\ T[l].e = "begin"
  /\ ResetScen(ScenOf(T[l]))
  /\ seen' = <<>> /\ drift' = FALSE
  /\ l' = l + 1 /\ Progress(l')

TNext == TOp \/ TRobs \/ TDrift \/ TEnd \/ TBegin

TSpec == TInit /\ [][TNext]_<<vars, l, seen, drift>>

(***************************************************************************)
(* Invariants                                                               *)
(***************************************************************************)
NoRace == MM!NoRace(mm)

\* C01 as seen from outside, evaluated on every prefix of every execution
AbsAtMostOnce == Len(AbsCalls) <= 1
AbsIntact == /\ \A i \in 1..Len(AbsCalls) : AbsCalls[i].v = Payload
             /\ \A i \in 1..Len(AbsGets)  : AbsGets[i].v = Payload
AbsNothingIfDropped == scen.cons \in DropK \cup WaitK \cup {"connect", "get_const"} => Len(AbsCalls) = 0
\* no completion touches a waiter's stack after the blocking call returned (observed by the harness)
AbsNoUseAfterReturn == \A n \in 1..Len(seen) : seen[n].k # "use_after_return"
AbsWaitMeansReady ==
  \A i, j \in 1..Len(seen) : (i < j /\ seen[i].k = "waited" /\ seen[j].k = "ready") => seen[j].v = "1"
\* the end record of an execution is judged in the state after it was consumed
AbsEnd == (l > 1 /\ l - 1 <= Len(T) /\ T[l - 1].e = "end") => AbsEndOK(T[l - 1])

Accepted ==
  /\ PrintT(<<"SITES", ToJson(TLCGet(1))>>)
  /\ PrintT(<<"DRIFT", ToJson(TLCGet(3))>>)
  /\ PrintT(<<"REACHED", TLCGet(2), Len(T) + 1>>)
  /\ TLCGet(2) = Len(T) + 1
=============================================================================
