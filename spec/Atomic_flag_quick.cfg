SPECIFICATION Spec
CONSTANTS
  Kind = "flag"
  NL = 1
  B = 2
  MaxDepth = 4
  FullOps = TRUE
INVARIANTS TypeOK CasContract FetchVsAssign Emit
CHECK_DEADLOCK FALSE
