SPECIFICATION Spec
CONSTANTS
  Fibers = {"F1", "F2", "F3"}
  LockTypes = {"mutex", "timed", "recursive", "recursive_timed", "shared", "shared_timed"}
  ProgramStrs = {"l", "tl", "f", "ll", "s", "ys", "g", "srl"}
INVARIANTS Exclusion NoLostWakeup NoSleeperOnFreeLock
CHECK_DEADLOCK TRUE
