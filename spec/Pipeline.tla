------------------------------ MODULE Pipeline ------------------------------
(***************************************************************************)
(* Reference interpreter for continuation pipelines (properties C02, C05,   *)
(* C12, C20).  It is a transcription of the sentences of those properties,  *)
(* NOT of the implementation:                                               *)
(*                                                                         *)
(*  * a callback taking the value runs only on success, otherwise the       *)
(*    failure passes through unchanged;                                     *)
(*  * a callback taking the error type / std::exception_ptr runs only on    *)
(*    that kind of failure, otherwise the Result passes through;            *)
(*  * a callback taking Result always runs;                                 *)
(*  * whatever a callback throws becomes the Exception state;               *)
(*  * a returned Result is stored as is;                                    *)
(*  * a returned Future / SharedFuture / Task is flattened;                 *)
(*  * a step attached with Then(e, f) is submitted to e and runs inside e;  *)
(*    Then(f) uses the executor inherited along the chain; ThenInline       *)
(*    never submits;                                                        *)
(*  * an executor that has stopped Drops the job: the step sees StopError   *)
(*    instead of its input, the rest of the chain still completes;          *)
(*  * every submitted job is Called xor Dropped;                            *)
(*  * a Task does nothing until started and then behaves like the same      *)
(*    eager pipeline; a dropped Task is cancelled with StopError;           *)
(*  * at most one allocation per pipeline step.                             *)
(*                                                                         *)
(* A program is a source followed by a sequence of steps.  TLC enumerates   *)
(* all programs up to a length bound together with the expected outcome;    *)
(* the conformance harness runs every program on the real API and the       *)
(* driver compares (spec -> code replay).  TLC itself checks the            *)
(* meta-properties of the interpreter (lazy = eager twin, Called xor        *)
(* Dropped, nothing runs before start).                                     *)
(***************************************************************************)
EXTENDS Naturals, Sequences, FiniteSets, TLC, Json

CONSTANTS MaxLen,      \* maximal number of steps
          Srcs,        \* sources explored
          Atts,        \* attachment kinds explored   \subseteq {"inline", "e1", "e2", "inh"}
          Args,        \* callback argument classes   \subseteq {"V", "E", "X", "R"}
          Behs,        \* callback behaviours
          Rejects,     \* rejection points per executor explored: k = reject from the k-th submission (0-based), 9 = never
          Starts       \* ways of starting / abandoning a lazy pipeline

Execs == {"e1", "e2"}
Never == 9

EagerSrcs == {"ready_val", "ready_err", "ready_exc", "before_val", "after_val", "after_err", "after_exc",
              "on_after_val", "run_val", "run_throw", "acontract_val",
              "sready_val", "sready_err", "sready_exc", "safter_val", "safter_exc"}
\* the source is a SharedFuture (complete before / after the steps are attached): the first step is attached to the shared
\* state, which keeps its Result: a value that the first step consumes or forwards is a copy
SharedSrcs == {"sready_val", "sready_err", "sready_exc", "safter_val", "safter_exc"}
LazySrcs  == {"task_val", "task_err", "task_exc", "sched_val", "sched_throw", "lcontract_val"}
OnSrcs    == {"on_after_val", "run_val", "run_throw"}          \* holder starts as FutureOn (inherited e1)

\* eager twin of a lazy source
Twin(s) == CASE s = "task_val" -> "ready_val" [] s = "task_err" -> "ready_err" [] s = "task_exc" -> "ready_exc" [] s = "sched_val" -> "run_val"
             [] s = "sched_throw" -> "run_throw" [] s = "lcontract_val" -> "acontract_val" [] OTHER -> s

Val(n) == [st |-> "val", v |-> n]
Err    == [st |-> "err", v |-> 0]
Exc(t) == [st |-> "exc", v |-> t]        \* t: 1 = thrown by a callback, 2 = returned in a Result, 3 = set by the source, 4 = a thrown ResultError

Desc(r) == CASE r.st = "val" -> "v" \o ToString(r.v)
             [] r.st = "err" -> "stop"
             [] OTHER        -> "exc:" \o ToString(r.v)

(***************************************************************************)
(* Outcome of invoking a callback of behaviour b on an input whose value    *)
(* (0 for failures) is n.                                                   *)
(***************************************************************************)
Outcome(b, n) ==
  CASE b = "val"            -> Val(n + 1)
    [] b = "throw"          -> Exc(1)
    [] b = "throw_re"       -> Exc(4)      \* throws what Result::Ok() throws for an Error: still "the callback threw"
    [] b = "res_val"        -> Val(n + 2)
    [] b = "res_err"        -> Err
    [] b = "res_exc"        -> Exc(2)
    [] b = "fut_ready"      -> Val(n + 3)
    [] b = "fut_pending"    -> Val(n + 4)
    [] b = "fut_err"        -> Err
    [] b = "shared_ready"   -> Val(n + 5)
    [] b = "shared_pending" -> Val(n + 6)
    [] b = "task_make"      -> Val(n + 7)
    [] b = "task_sched"     -> Val(n + 8)
    [] b = "task_contract"  -> Val(n + 9)
    [] b = "task_sched_then" -> Val(n + 11)
    [] b = "void_hop"       -> Val(n + 13)     \* the callback returns void (a Future<void> / Task<void> step) and a no-argument
                                               \* callback attached inline right behind it returns to the value type
    [] b = "void_throw"     -> Exc(5)          \* the void callback throws: the no-argument callback behind it is skipped
    [] b = "task_sched_stopped" -> Err        \* a returned Task whose head is scheduled on the stopped inline executor
    [] b = "shared_cached_exc" -> Exc(2)       \* a ready SharedFuture that somebody else also holds (a cache)

\* a behaviour that creates an inner asynchronous object performs that object's own allocation(s)
InnerAllocs(b) == CASE b \in {"fut_ready", "fut_pending", "fut_err", "shared_ready", "shared_pending",
                              "task_make", "task_sched", "task_contract", "shared_cached_exc", "task_sched_stopped"} -> 1
                    [] b = "task_sched_then" -> 2
                    [] OTHER -> 0

VoidBehs == {"void_hop", "void_throw"}       \* two library steps (two cores) per program step; value / Result callbacks only

Runs(arg, r) == \/ arg = "R"
                \/ arg = "V" /\ r.st = "val"
                \/ arg = "E" /\ r.st = "err"
                \/ arg = "X" /\ r.st = "exc"

(***************************************************************************)
(* Interpreter state threaded through the steps.                            *)
(***************************************************************************)
Acc0 == [cur |-> Val(0), invoked |-> <<>>, ran |-> <<>>, inh |-> "inline", on |-> FALSE,
         sub |-> [e \in Execs |-> 0], calls |-> [e \in Execs |-> 0], drops |-> [e \in Execs |-> 0],
         allocs |-> 0, copies |-> 0, shared |-> FALSE, valid |-> TRUE]

\* one submission to executor e under rejection table rej; returns <<acc', dropped>>
Submit(acc, e, rej) ==
  LET k == acc.sub[e]
      dropped == k >= rej[e]
  IN  << [acc EXCEPT !.sub[e] = @ + 1,
                     !.calls[e] = IF dropped THEN @ ELSE @ + 1,
                     !.drops[e] = IF dropped THEN @ + 1 ELSE @], dropped >>

\* the source: produces the first Result; stopOverride = the executor the head was started on (lazy) or "none"
Source(src, rej, headExec) ==
  LET a0 == [Acc0 EXCEPT !.allocs = 1] IN
  CASE src \in {"ready_val", "before_val", "after_val", "task_val"} /\ headExec = "none" -> [a0 EXCEPT !.cur = Val(1)]
    [] src \in {"sready_val", "safter_val"} -> [a0 EXCEPT !.cur = Val(1), !.shared = TRUE]
    [] src = "sready_err" -> [a0 EXCEPT !.cur = Err, !.shared = TRUE]
    [] src \in {"sready_exc", "safter_exc"} -> [a0 EXCEPT !.cur = Exc(3), !.shared = TRUE]
    [] src \in {"ready_err", "after_err", "task_err"} /\ headExec = "none" -> [a0 EXCEPT !.cur = Err]
    [] src \in {"ready_exc", "after_exc"} -> [a0 EXCEPT !.cur = Exc(3)]
    [] src = "task_exc" /\ headExec = "none" -> [a0 EXCEPT !.cur = Exc(3)]
    [] src = "on_after_val" -> [a0 EXCEPT !.cur = Val(1), !.inh = "e1", !.on = TRUE]
    [] src \in {"acontract_val", "lcontract_val"} /\ headExec = "none" ->
         [a0 EXCEPT !.cur = Val(1), !.invoked = <<0>>, !.ran = <<"-">>]
    [] src \in {"run_val", "run_throw", "sched_val", "sched_throw"} \/ headExec # "none" ->
         \* a head that is a job: submitted to its executor (e1, or the executor given to the start operation)
         LET e  == IF headExec = "none" THEN "e1" ELSE headExec
             sd == IF e = "stopped" THEN << a0, TRUE >> ELSE Submit(a0, e, rej)
             a1 == sd[1]
             isFn == src \in {"run_val", "run_throw", "sched_val", "sched_throw", "acontract_val", "lcontract_val"}
             res == IF sd[2] THEN Err
                    ELSE CASE src \in {"run_val", "sched_val", "lcontract_val", "acontract_val", "task_val"} -> Val(1)
                           [] src \in {"task_err"} -> Err
                           [] src \in {"task_exc"} -> Exc(3)
                           [] OTHER -> Exc(1)
         IN  [a1 EXCEPT !.cur = res,
                        !.invoked = IF sd[2] \/ ~isFn THEN <<>> ELSE <<0>>,
                        !.ran = IF sd[2] \/ ~isFn THEN <<>> ELSE <<e>>,
                        !.inh = e,
                        !.on = (src \in OnSrcs)]

\* one step
StepFn(acc, i, s, rej) ==
  LET ex == CASE s.att = "inline" -> "none" [] s.att = "inh" -> acc.inh [] OTHER -> s.att
      ok == s.att # "inh" \/ acc.on                        \* Then(f) exists only on FutureOn / Task
      sd == IF ex \in Execs THEN Submit(acc, ex, rej)
            ELSE IF ex = "stopped" THEN << acc, TRUE >> ELSE << acc, FALSE >>
      a1 == sd[1]
      input == IF sd[2] THEN Err ELSE acc.cur              \* a Dropped step sees StopError instead of its input
      run == Runs(s.arg, input)
      n == IF input.st = "val" THEN input.v ELSE 0
  IN  [a1 EXCEPT !.cur = IF run THEN Outcome(s.beh, n) ELSE input,
                 !.invoked = IF run THEN Append(@, i) ELSE @,
                 \* a Dropped step's callback (if it takes the StopError) runs inside Submit, on the submitting thread
                 !.ran = IF run THEN Append(@, IF ex \notin Execs THEN "-" ELSE IF sd[2] THEN "drop:" \o ex ELSE ex) ELSE @,
                 !.inh = IF s.att \in Execs THEN s.att ELSE @,
                 !.on = (@ \/ s.att \in Execs),
                 !.allocs = @ + 1 + (IF s.beh \in VoidBehs THEN 1 ELSE 0) + (IF run THEN InnerAllocs(s.beh) ELSE 0),
                 \* the only copy of a value the library may make: reading it out of a SharedFuture's state (which keeps it)
                 !.copies = @ + (IF run /\ s.beh \in {"shared_ready", "shared_pending"} THEN 1 ELSE 0)
                              + (IF acc.shared /\ input.st = "val" /\ (~run \/ s.arg = "V") THEN 1 ELSE 0),
                 !.shared = FALSE,
                 !.valid = (@ /\ ok /\ (s.beh \in VoidBehs => s.arg \in {"V", "R"}))]

RECURSIVE Fold(_, _, _, _)
Fold(acc, steps, i, rej) == IF i > Len(steps) THEN acc ELSE Fold(StepFn(acc, i, steps[i], rej), steps, i + 1, rej)

(***************************************************************************)
(* Whole programs                                                           *)
(***************************************************************************)
\* Eager: built and consumed with Get.  Lazy: built, then started according to p.start.
HeadExec(p) ==
  IF p.mode = "eager" THEN "none"
  ELSE CASE p.start \in {"to_future_e2", "detach_e2"} -> "e2"
         [] p.start = "drop" -> "stopped"
         [] OTHER -> "none"

Eval(p) ==
  LET a0 == Source(p.src, p.rej, HeadExec(p))
      a1 == IF p.mode = "lazy" THEN [a0 EXCEPT !.on = TRUE] ELSE a0      \* Task offers Then(f) always
  IN  Fold(a1, p.steps, 1, p.rej)

Expected(p) ==
  LET a == Eval(p) IN
  [ final   |-> IF p.mode = "lazy" /\ p.start \in {"detach", "detach_e2", "drop"} THEN "detached" ELSE Desc(a.cur),
    result  |-> Desc(a.cur),
    invoked |-> a.invoked,
    ran     |-> a.ran,
    submits |-> a.sub, calls |-> a.calls, drops |-> a.drops,
    allocs  |-> a.allocs,
    copies  |-> a.copies,
    \* flattening a SharedFuture that has another holder must leave that holder's Result intact
    cache   |-> IF \E k \in 1..Len(a.invoked) : a.invoked[k] > 0 /\ p.steps[a.invoked[k]].beh = "shared_cached_exc"
                THEN "exc:2" ELSE "-" ]

StepSet == [att : Atts, arg : Args, beh : Behs]
RejSet  == [Execs -> Rejects]

MkProg(src, steps, rej, start) ==
  [src |-> src, steps |-> steps, rej |-> rej,
   mode |-> IF src \in EagerSrcs THEN "eager" ELSE "lazy",
   start |-> IF src \in EagerSrcs THEN "get" ELSE start]

(***************************************************************************)
(* TLC drives the enumeration: one initial state per program, one step      *)
(* that "runs" it.                                                          *)
(***************************************************************************)
VARIABLES prog, out, phase

Init == \E src \in Srcs, n \in 0..MaxLen :
          \E steps \in [1..n -> StepSet], rej \in RejSet, start \in (IF src \in EagerSrcs THEN {"get"} ELSE Starts) :
             /\ prog = MkProg(src, steps, rej, start)
             /\ Eval(prog).valid
             /\ out = Expected(prog)
             /\ phase = "built"

Run == /\ phase = "built" /\ phase' = "done" /\ UNCHANGED <<prog, out>>

Spec == Init /\ [][Run]_<<prog, out, phase>>

(***************************************************************************)
(* Meta-properties of the interpreter, checked by TLC over all programs     *)
(***************************************************************************)
\* C05: every submitted job is finished by exactly one of Call / Drop
CalledXorDropped == \A e \in Execs : out.calls[e] + out.drops[e] = out.submits[e]
\* C05: Drop only because the executor refuses (from its rejection point on)
DropOnlyWhenStopped == \A e \in Execs : out.drops[e] > 0 => prog.rej[e] # Never
\* C05: a body attached with Then(e, f) ran inside e
RanWhereTold ==
  \A k \in 1..Len(out.invoked) :
     LET i == out.invoked[k] IN
     i > 0 /\ prog.steps[i].att \in Execs => out.ran[k] \in {prog.steps[i].att, "drop:" \o prog.steps[i].att}
\* C02: each step invoked at most once, in pipeline order
InvokedInOrder == \A j, k \in 1..Len(out.invoked) : j < k => out.invoked[j] < out.invoked[k]
\* C12: a started lazy pipeline computes what its eager twin computes
LazyEqualsEager ==
  (prog.mode = "lazy" /\ prog.start \in {"to_future", "get", "detach"}) =>
     LET t == Expected([prog EXCEPT !.mode = "eager", !.src = Twin(prog.src), !.start = "get"])
     IN  out.result = t.result /\ out.invoked = t.invoked /\ out.submits = t.submits
\* C12: a dropped (never started) Task is cancelled with StopError: the head functor never runs and no value
\* callback sees the cancellation -- a value callback can only run downstream of a callback that took the
\* StopError (error-type or Result callback) and turned it into a value, which is C02's recovery rule.
CancelRunsNoValueCallback ==
  (prog.mode = "lazy" /\ prog.start = "drop") =>
     \A k \in 1..Len(out.invoked) :
        /\ out.invoked[k] > 0
        /\ prog.steps[out.invoked[k]].arg \in {"V", "X"} =>
              \E j \in 1..(k - 1) : prog.steps[out.invoked[j]].arg \in {"E", "R"}
\* C20: allocation bound = one per step (incl. the source) + the inner asynchronous objects the callbacks create
\* (a void program step is two library steps)
LibSteps == Len(prog.steps) + Cardinality({i \in 1..Len(prog.steps) : prog.steps[i].beh \in VoidBehs})
AllocBound == out.allocs <= 1 + LibSteps + 2 * Len(out.invoked)

\* spec -> code: print every program with its expected outcome (consumed by the driver)
Emit == phase = "done" => PrintT(<<"PROG", ToJson([prog |-> prog, out |-> out])>>)
=============================================================================
