----------------------------- MODULE FiberLocks -----------------------------
(***************************************************************************)
(* The FIBER-backend implementation of the yaclib_std lock family           *)
(* (src/fault/fiber/mutex.cpp, recursive_mutex.cpp, shared_mutex.cpp,       *)
(* fiber/*timed_mutex.hpp, fiber/queue.cpp), as a state machine, checked by *)
(* TLC against the std contract of FiberSync.tla (property C18).            *)
(*                                                                         *)
(* Between two injection points a fiber runs atomically, so an attempt is   *)
(* one step: "if the lock is compatible take it, else park on the wait      *)
(* queue"; a release notifies a waiter (NotifyOne picks ANY parked fiber,   *)
(* NotifyAll all of them); a notified fiber is runnable again and re-checks *)
(* (the `while' loops); a timed attempt parks with a deadline and gives up  *)
(* when the clock passes it while it is still parked.  SharedMutex has an   *)
(* exclusive and a shared queue; unlock() wakes the shared queue if the     *)
(* exclusive one is empty or a coin says so, unlock_shared() of the last    *)
(* reader wakes one exclusive waiter.                                       *)
(*                                                                         *)
(* Each fiber runs a short program chosen in Init and finally releases      *)
(* what it holds.                                                           *)
(***************************************************************************)
EXTENDS Naturals, Sequences, FiniteSets, TLC

CONSTANTS Fibers, LockTypes, ProgramStrs   \* programs as strings over l u t f s r y g, e.g. "tl"

SeqOf(s) == CASE s = "l" -> <<"l">> [] s = "tl" -> <<"t", "l">> [] s = "f" -> <<"f">> [] s = "ll" -> <<"l", "l">> [] s = "s" -> <<"s">>
              [] s = "ys" -> <<"y", "s">> [] s = "g" -> <<"g">> [] s = "srl" -> <<"s", "r", "l">> [] s = "lul" -> <<"l", "u", "l">>
              [] s = "fs" -> <<"f", "s">> [] s = "gl" -> <<"g", "l">> [] s = "t" -> <<"t">> [] s = "y" -> <<"y">>
Programs == {SeqOf(s) : s \in ProgramStrs}

VARIABLES lt, prog, ip,        \* lock type; program and instruction pointer per fiber
          owner, count, sh,    \* implementation state: exclusive owner ("-" none), recursion depth, shared holders
          parked,              \* per fiber: "-" | "x" (exclusive queue) | "s" (shared queue)
          timed,               \* fibers parked with a deadline
          held,                \* per fiber: [x |-> depth held exclusively, s |-> 0/1]
          tryfail              \* ghost: a try / timed attempt that failed: <<fiber, op, reason>>

vars == <<lt, prog, ip, owner, count, sh, parked, timed, held, tryfail>>

Recursive == lt \in {"recursive", "recursive_timed"}
SharedT == lt \in {"shared", "shared_timed"}
TimedT == lt \in {"timed", "recursive_timed", "shared_timed"}

\* operations a lock type offers
Offered(op) == CASE op \in {"l", "u", "t"} -> TRUE
                 [] op = "f" -> TimedT
                 [] op \in {"s", "r", "y"} -> SharedT
                 [] op = "g" -> lt = "shared_timed"
\* operations a fiber may legally perform in its current state (others are skipped, as in the harness)
Legal(f, op) ==
  CASE op \in {"l", "t", "f"} -> held[f].s = 0 /\ (held[f].x = 0 \/ Recursive)
    [] op = "u" -> held[f].x > 0
    [] op \in {"s", "y", "g"} -> held[f].s = 0 /\ held[f].x = 0
    [] op = "r" -> held[f].s = 1

Init ==
  /\ lt \in LockTypes
  /\ prog \in [Fibers -> Programs]
  /\ ip = [f \in Fibers |-> 1]
  /\ owner = "-" /\ count = 0 /\ sh = {}
  /\ parked = [f \in Fibers |-> "-"] /\ timed = {}
  /\ held = [f \in Fibers |-> [x |-> 0, s |-> 0]]
  /\ tryfail = {}

\* the operation fiber f is at: its program, then the releases of whatever it still holds
Cur(f) == IF ip[f] <= Len(prog[f]) THEN prog[f][ip[f]]
          ELSE IF held[f].x > 0 THEN "u" ELSE IF held[f].s = 1 THEN "r" ELSE "end"

Adv(f) == ip' = [ip EXCEPT ![f] = IF ip[f] <= Len(prog[f]) THEN @ + 1 ELSE @]

\* implementation-level compatibility tests, as the code evaluates them
BusyX(f) == IF Recursive THEN count # 0 /\ owner # f          \* recursive: _occupied_count != 0 && _owner_id != me
            ELSE (owner # "-" \/ sh # {})                      \* mutex / shared: _occupied
BusyS(f) == owner # "-"                                       \* lock_shared: _occupied && _exclusive_mode

Skip(f) == /\ Cur(f) \notin {"end"} /\ ip[f] <= Len(prog[f])
           /\ (~Offered(Cur(f)) \/ ~Legal(f, Cur(f)))
           /\ Adv(f) /\ UNCHANGED <<lt, prog, owner, count, sh, parked, timed, held, tryfail>>

\* lock / try_lock / try_lock_for: one atomic attempt by a runnable fiber
AttemptX(f) ==
  /\ parked[f] = "-" /\ Cur(f) \in {"l", "t", "f"} /\ Offered(Cur(f)) /\ Legal(f, Cur(f))
  /\ IF ~BusyX(f)
       THEN /\ owner' = f /\ count' = count + 1
            /\ held' = [held EXCEPT ![f].x = @ + 1]
            /\ Adv(f) /\ UNCHANGED <<parked, timed, tryfail, sh>>
       ELSE IF Cur(f) = "t"
         THEN /\ tryfail' = tryfail \cup {<<f, "t", "busy">>}
              /\ Adv(f) /\ UNCHANGED <<owner, count, sh, parked, timed, held>>
         ELSE /\ parked' = [parked EXCEPT ![f] = "x"]
              /\ timed' = IF Cur(f) = "f" THEN timed \cup {f} ELSE timed
              /\ UNCHANGED <<ip, owner, count, sh, held, tryfail>>
  /\ UNCHANGED <<lt, prog>>

AttemptS(f) ==
  /\ parked[f] = "-" /\ Cur(f) \in {"s", "y", "g"} /\ Offered(Cur(f)) /\ Legal(f, Cur(f))
  /\ IF ~BusyS(f)
       THEN /\ sh' = sh \cup {f}
            /\ held' = [held EXCEPT ![f].s = 1]
            /\ Adv(f) /\ UNCHANGED <<owner, count, parked, timed, tryfail>>
       ELSE IF Cur(f) = "y"
         THEN /\ tryfail' = tryfail \cup {<<f, "y", "busy">>}
              /\ Adv(f) /\ UNCHANGED <<owner, count, sh, parked, timed, held>>
         ELSE /\ parked' = [parked EXCEPT ![f] = "s"]
              /\ timed' = IF Cur(f) = "g" THEN timed \cup {f} ELSE timed
              /\ UNCHANGED <<ip, owner, count, sh, held, tryfail>>
  /\ UNCHANGED <<lt, prog>>

\* NotifyOne on queue q: any parked fiber of that queue becomes runnable (and re-checks)
WakeOne(q) == IF \E g \in Fibers : parked[g] = q
              THEN \E g \in Fibers : parked[g] = q /\ parked' = [parked EXCEPT ![g] = "-"] /\ timed' = timed \ {g}
              ELSE UNCHANGED <<parked, timed>>
WakeAll(q) == /\ parked' = [g \in Fibers |-> IF parked[g] = q THEN "-" ELSE parked[g]]
              /\ timed' = {g \in timed : parked[g] # q}

Unlock(f) ==
  /\ parked[f] = "-" /\ Cur(f) = "u" /\ Legal(f, "u")
  /\ held' = [held EXCEPT ![f].x = @ - 1]
  /\ count' = count - 1
  /\ owner' = IF count = 1 THEN "-" ELSE owner
  /\ IF count > 1 THEN UNCHANGED <<parked, timed>>
     ELSE IF SharedT
       THEN \* unlock_shared = !shared_queue.Empty() && (exclusive_queue.Empty() || coin)
            LET hasS == \E g \in Fibers : parked[g] = "s"
                hasX == \E g \in Fibers : parked[g] = "x"
            IN  IF hasS /\ ~hasX THEN WakeAll("s")
                ELSE IF hasS THEN (WakeAll("s") \/ WakeOne("x"))
                ELSE WakeOne("x")
       ELSE WakeOne("x")
  /\ Adv(f) /\ UNCHANGED <<lt, prog, sh, tryfail>>

UnlockShared(f) ==
  /\ parked[f] = "-" /\ Cur(f) = "r" /\ Legal(f, "r")
  /\ held' = [held EXCEPT ![f].s = 0]
  /\ sh' = sh \ {f}
  /\ IF sh = {f} THEN WakeOne("x") ELSE UNCHANGED <<parked, timed>>
  /\ Adv(f) /\ UNCHANGED <<lt, prog, owner, count, tryfail>>

\* the clock passes the deadline of a fiber that is still parked: the timed attempt fails
Timeout(f) ==
  /\ f \in timed /\ parked[f] # "-"
  /\ tryfail' = tryfail \cup {<<f, Cur(f), "deadline">>}
  /\ parked' = [parked EXCEPT ![f] = "-"] /\ timed' = timed \ {f}
  /\ Adv(f) /\ UNCHANGED <<lt, prog, owner, count, sh, held>>

Done == \A f \in Fibers : Cur(f) = "end"

Next == \/ \E f \in Fibers : Skip(f) \/ AttemptX(f) \/ AttemptS(f) \/ Unlock(f) \/ UnlockShared(f) \/ Timeout(f)
        \/ (Done /\ UNCHANGED vars)

Spec == Init /\ [][Next]_vars

(***************************************************************************)
(* The std contract (the state predicates of FiberSync.tla)                 *)
(***************************************************************************)
\* never incompatible holders: what the fibers believe they hold is consistent
HeldX == {f \in Fibers : held[f].x > 0}
HeldS == {f \in Fibers : held[f].s = 1}
Exclusion == /\ Cardinality(HeldX) <= 1
             /\ HeldX # {} => HeldS = {}
             /\ \A f \in Fibers : held[f].x > 1 => Recursive
\* a try acquisition fails only when the lock really is incompatible at that moment (one atomic step: checked in the action)
\* a blocked locker is woken when the lock becomes available: nobody stays parked while the lock is free and
\* nobody else can move (lost wake-up) -- with CHECK_DEADLOCK this is "no state without successor except Done"
NoLostWakeup == (~ENABLED (\E f \in Fibers : Skip(f) \/ AttemptX(f) \/ AttemptS(f) \/ Unlock(f) \/ UnlockShared(f) \/ Timeout(f))) => Done
\* a parked untimed locker is never left parked on a free lock with nothing pending to wake it
NoSleeperOnFreeLock ==
  (owner = "-" /\ sh = {} /\ \A g \in Fibers : parked[g] # "-" \/ Cur(g) = "end") => \A g \in Fibers : parked[g] = "-"
=============================================================================
