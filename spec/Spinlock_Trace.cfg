SPECIFICATION TSpec
CONSTANTS
  MaxT = 4
  RoundSets = {"11"}
INVARIANTS
  TypeOK Exclusion LockedWhileInside NoErr AllEntered NoRace
  AbsExclusion AbsSeesPrevious AbsEnd
POSTCONDITION Accepted
CHECK_DEADLOCK FALSE
