SPECIFICATION Spec
CONSTANTS
  MaxLen = 3
  Srcs = {"ready_val", "ready_exc", "after_val", "after_err", "run_val", "sched_val", "task_val"}
  Atts = {"inline", "e1"}
  Args = {"V", "E", "X", "R"}
  Behs = {"val", "throw", "throw_re", "res_err", "fut_pending", "shared_pending", "task_sched", "task_contract"}
  Rejects = {9}
  Starts = {"to_future", "get"}
INVARIANTS CalledXorDropped DropOnlyWhenStopped RanWhereTold InvokedInOrder LazyEqualsEager CancelRunsNoValueCallback AllocBound Emit
CHECK_DEADLOCK FALSE
