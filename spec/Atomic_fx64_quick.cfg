SPECIFICATION Spec
CONSTANTS
  Kind = "fx64"
  NL = 1
  B = 65536
  MaxDepth = 2
  FullOps = FALSE
INVARIANTS TypeOK FetchVsAssign Emit
CHECK_DEADLOCK FALSE
