SPECIFICATION TSpec
CONSTANTS
  MaxN = 3
  Strats = {"all_ff"}
  Forms = {"static"}
  OutSets = {}
INVARIANTS
  OutputAtMostOnce RightValue CompletesAtQuiescence NotBeforeAllInputs AsSoonAsDecided FirstWins LastFailIsLast ReleasedOnce ReleasedAtQuiescence NoRace
  AbsMonotone AbsEnd AbsNoUseAfterReturn
POSTCONDITION Accepted
CHECK_DEADLOCK FALSE
