SPECIFICATION Spec
CONSTANTS
  Jobs = {"1", "2", "3"}
  Execs = {"M", "S", "T", "R", "I", "J"}
  MaxLen = 4
INVARIANTS CalledXorDropped DropOnlyWhenRefused Emit
CHECK_DEADLOCK FALSE
