SPECIFICATION Spec
CONSTANTS
  Kinds = {"future", "task"}
  Starts = {"tf", "tf1"}
  Rejs = {"99", "91"}
  Seconds = {"before", "after"}
  Simple = {"on1", "cur", "yield"}
  FutOps = {"co", "aw", "st", "ao1"}
  FutKinds = {"s"}
  Timings = {"r", "p"}
  Outcomes = {"v", "x"}
  TaskOps = {}
  Tmpls = {}
  MaxLen = 3
INVARIANTS Balanced ResumeOnce WhereAsked FutureIntact StickyOwn NothingBeforeStart DroppedRunsNothing LazyTwin AllDone Emit
CHECK_DEADLOCK FALSE
