SPECIFICATION Spec
CONSTANTS
  Kinds = {"future", "shared", "task"}
  Starts = {"tf", "tf1", "det", "det1", "drop"}
  Rejs = {"99"}
  Seconds = {"none"}
  Simple = {"on1", "on2", "yield", "yieldx", "cur", "throw"}
  FutOps = {"co", "aw", "st", "ao1"}
  FutKinds = {"u", "n", "s"}
  Timings = {"r", "p"}
  Outcomes = {"v", "x"}
  TaskOps = {"cot", "awt"}
  Tmpls = {"cval", "con2", "sch2", "schs", "mke"}
  MaxLen = 3
INVARIANTS Balanced ResumeOnce WhereAsked FutureIntact StickyOwn NothingBeforeStart DroppedRunsNothing LazyTwin AllDone Emit
CHECK_DEADLOCK FALSE
