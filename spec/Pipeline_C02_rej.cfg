SPECIFICATION Spec
CONSTANTS
  MaxLen = 2
  Srcs = {"ready_val", "ready_exc", "after_err", "run_throw", "sready_exc", "task_val", "task_exc"}
  Atts = {"inline", "e1", "inh"}
  Args = {"V", "E", "X", "R"}
  Behs = {"val", "void_hop", "void_throw", "throw", "throw_re", "fut_pending"}
  Rejects = {0, 9}
  Starts = {"to_future", "to_future_e2", "get", "drop"}
INVARIANTS CalledXorDropped DropOnlyWhenStopped RanWhereTold InvokedInOrder LazyEqualsEager CancelRunsNoValueCallback AllocBound Emit
CHECK_DEADLOCK FALSE
