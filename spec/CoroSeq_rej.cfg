SPECIFICATION Spec
CONSTANTS
  Kinds = {"future", "shared", "task"}
  Starts = {"tf", "tf1", "det", "det1", "drop"}
  Rejs = {"09", "19", "90", "91", "00"}
  Seconds = {"none"}
  Simple = {"on1", "on2", "yield", "yieldx", "cur", "throw"}
  FutOps = {"co", "st", "ao1"}
  FutKinds = {"u", "n"}
  Timings = {"r", "p"}
  Outcomes = {"v"}
  TaskOps = {"cot"}
  Tmpls = {"cval", "con2", "sch2"}
  MaxLen = 2
INVARIANTS Balanced ResumeOnce WhereAsked FutureIntact StickyOwn NothingBeforeStart DroppedRunsNothing LazyTwin AllDone Emit
CHECK_DEADLOCK FALSE
