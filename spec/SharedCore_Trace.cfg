SPECIFICATION TSpec
CONSTANTS
  Obs = {"O1", "O2", "O3"}
  ObsOps = {"none"}
  ProdKinds = {"val"}
  WeakBudget = 1
INVARIANTS
  FiresAtMostOnce NeverGarbage FiresAtQuiescence OwnershipOK ReleasedAtQuiescence RefCountSane NoRace
  AbsNeverGarbage AbsAtMostOnce AbsEnd AbsNoUseAfterReturn
POSTCONDITION Accepted
CHECK_DEADLOCK FALSE
