SPECIFICATION Spec
CONSTANTS
  Strategies = {"all_none", "all_ff", "tuple_none", "tuple_ff", "join_none", "join_ff", "any_none", "any_ff", "any_lf"}
  MaxN = 3
  Letters = {"v", "e", "x"}
INVARIANTS OrderIndependent AnyPrefersValues Emit
CHECK_DEADLOCK FALSE
