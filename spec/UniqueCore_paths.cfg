SPECIFICATION MCSpec
CONSTANTS
  ProdKinds = {"val", "err", "exc", "drop", "thr_retry", "thr_drop"}
  ConsKinds = {"then_inline", "then_exec", "detach", "drop", "detach_inline", "detach_exec", "get", "get_const", "wait", "connect"}
INVARIANTS PrintPaths
CHECK_DEADLOCK FALSE
