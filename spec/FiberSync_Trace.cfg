SPECIFICATION TSpec
CONSTANTS
  Fibers = {"F1", "F2", "F3", "F4"}
INVARIANTS ContractOK ExclusionOK NoLostWakeup
POSTCONDITION Accepted
CHECK_DEADLOCK FALSE
