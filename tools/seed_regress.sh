#!/bin/bash
# seed_regress.sh <out dir> <seed ids...>: apply every recorded seeded change to a scratch worktree of /repo, run the
# check of the property it breaks, and report whether it is (still) detected.  Scratch only; nothing is committed.
OUT=$1; shift
mkdir -p $OUT
for id in "$@"; do
  d=/verif/seeded/$id
  prop=$(python3 -c "import json;print(json.load(open('$d/meta.json'))['breaks'])")
  wt=$OUT/wt_$id
  git -C /repo worktree add --detach $wt HEAD > /dev/null 2>&1
  if ! git -C $wt apply $d/patch.diff 2> $OUT/$id.apply; then
    echo "$id $prop APPLY-FAILED" >> $OUT/summary.txt
  else
    (cd /verif && VERIF_REPO=$wt VERIF_OUT=$OUT/out_$id ./check $prop > $OUT/$id.log 2>&1; echo "exit=$?" >> $OUT/$id.log)
    n=$(grep -c "^VIOLATION" $OUT/$id.log)
    echo "$id $prop $(tail -1 $OUT/$id.log) violations=$n" >> $OUT/summary.txt
  fi
  git -C /repo worktree remove --force $wt > /dev/null 2>&1
  rm -rf $OUT/out_$id
done
