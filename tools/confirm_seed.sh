#!/bin/bash
# confirm_seed.sh <agent worktree> <seed id>
# Confirms a seeded change independently: (1) the baseline suite builds and passes with the change,
# (2) the demonstration fails with the change, (3) passes without it. Writes /verif/seeded/<id>/confirm.log
WT=$1; ID=$2
OUT=/verif/seeded/$ID
mkdir -p $OUT
cp $WT/demo/patch.diff $WT/demo/demo.cpp $WT/demo/run.sh $OUT/ 2>/dev/null
cp $WT/demo/REPORT.md $OUT/ 2>/dev/null
LOG=$OUT/confirm.log
: > $LOG
cd $WT || exit 2
git checkout -q -- include src && git apply $OUT/patch.diff || { echo "patch does not apply" >> $LOG; exit 2; }
echo "== baseline suite with the change" >> $LOG
if [ ! -d _build ]; then
cmake -G Ninja -S $WT -B $WT/_build -DCMAKE_BUILD_TYPE=RelWithDebInfo -DCMAKE_CXX_FLAGS=-Wno-error -DYACLIB_TEST=ON -DFETCHCONTENT_SOURCE_DIR_GOOGLETEST=/usr/src/googletest -DFETCHCONTENT_FULLY_DISCONNECTED=ON -DFETCHCONTENT_TRY_FIND_PACKAGE_MODE=ALWAYS > /dev/null 2>&1
fi
cmake --build $WT/_build -j8 > $OUT/build.log 2>&1 || { echo "BUILD FAILED" >> $LOG; exit 1; }
ctest --test-dir $WT/_build -j6 --timeout 900 > $OUT/ctest.log 2>&1
if ! grep -q "100% tests passed" $OUT/ctest.log; then
  ctest --test-dir $WT/_build --rerun-failed --timeout 900 > $OUT/ctest_rerun.log 2>&1
  grep -q "100% tests passed" $OUT/ctest_rerun.log || { echo "TESTS FAIL with the change" >> $LOG; tail -5 $OUT/ctest_rerun.log >> $LOG; }
fi
grep "tests passed" $OUT/ctest.log $OUT/ctest_rerun.log 2>/dev/null >> $LOG
echo "== demo with the change" >> $LOG
(cd $WT/demo && timeout 1200 bash ./run.sh > $OUT/demo_with.log 2>&1; echo "exit=$?" >> $OUT/demo_with.log)
tail -3 $OUT/demo_with.log >> $LOG
echo "== demo without the change" >> $LOG
git checkout -q -- include src
(cd $WT/demo && timeout 1200 bash ./run.sh > $OUT/demo_without.log 2>&1; echo "exit=$?" >> $OUT/demo_without.log)
tail -3 $OUT/demo_without.log >> $LOG
git apply $OUT/patch.diff
rm -f $OUT/build.log
echo "== done" >> $LOG
