"""Per-property checks. Each check fills a Report; verdict policy and evidence are in core.Report.finish()."""
import json
import time
import os

from . import core
from .conc import ConcSpec, run_conc
from .core import MachineryError, log

CHECKS = {}


def check(pid):
    def deco(fn):
        CHECKS[pid] = fn
        return fn
    return deco


# ------------------------------------------------------------------------------------------------ specifications

PRODS = ["val", "err", "exc", "drop", "thr_retry", "thr_drop"]
CONS = ["then_inline", "then_exec", "detach", "drop", "detach_inline", "detach_exec", "get", "get_const", "wait", "connect"]

OWN_INVS = {"OwnershipOK": "C03", "ReleasedAtQuiescence": "C03", "AbsReleased": "C03"}
RACE_INVS = {"NoRace": "C04"}


def spec_unique(tier):
    return ConcSpec(
        name="UniqueCore", scenario="uc",
        grid=[{"prod": p, "cons": c} for p in PRODS for c in CONS],
        # small scenarios: every schedule with one tail split (preemption between an operation and the plain code after it)
        tail_boost=[{"prod": p, "cons": c} for p in ("val", "drop") for c in CONS], tail_boost_execs=3000, tail_boost_preempt=2,
        inv_props=dict(OWN_INVS, NoRace=("C04", "C01")), primary="C01",   # "never delivered early or torn" includes visibility
        mc_cfgs=[("UniqueCore_MC.cfg", 4, 300, "UniqueCore: 6 producer kinds x 10 consumer kinds, all interleavings, SC mode")],
        paths_cfg="UniqueCore_paths.cfg",
        dfs_max=5000,
        rand_execs=0 if tier == "quick" else 200)


SH_WHEN = [{"O1": "whenall", "O2": "get"}, {"O1": "whenall", "O2": "copy_drop"}, {"O1": "whenall", "O2": "whenall"},
           {"O1": "whenall", "O2": "get_const", "O3": "get"},
           # a coroutine awaiting the shared state together with an already fulfilled one (multi-await counter fix-up)
           {"O1": "await2"}, {"O1": "await2", "O2": "await2"}, {"O1": "await2", "O2": "get"}]
SH_OPS = ["then_inline", "then_exec", "subscribe", "share", "copy_drop", "ready", "get", "get_const"]


def spec_shared(tier):
    grid = [{"O1": a, "weak": "1"} for a in SH_OPS] + [{"O1": a, "prod": "err"} for a in ("then_inline", "share", "get")]
    pairs = [(a, b) for i, a in enumerate(SH_OPS) for b in SH_OPS[i:]]
    if tier == "quick":
        # pairs that exercise every cross-kind interaction once; the rest in the thorough tier
        keep = {("then_inline", "subscribe"), ("then_inline", "ready"), ("then_exec", "share"), ("share", "share"),
                ("share", "get"), ("share", "get_const"), ("copy_drop", "share"), ("subscribe", "get"), ("ready", "get"),
                ("then_inline", "then_inline"), ("share", "ready"), ("get", "get")}
        pairs = [p for p in pairs if p in keep]
    grid += [{"O1": a, "O2": b} for a, b in pairs]
    grid += SH_WHEN   # an observer that hands its copy to WhenAll: abstract monitors only (SharedCore_Trace.Modelled)
    return ConcSpec(
        name="SharedCore", scenario="sh", grid=grid, tail_boost=SH_WHEN, tail_boost_execs=5000,
        inv_props=dict(OWN_INVS, **dict(NoRace=("C04", "C06"), RefCountSane="C03")), primary="C06",
        mc_cfgs=[("SharedCore_MC.cfg", 8, 600, "SharedCore: fulfiller + 2 observers x 8 observer operations, all interleavings")],
        paths_cfg="SharedCore_paths.cfg",
        dfs_max=3000, preempt=2 if tier == "quick" else 3,
        rand_execs=0 if tier == "quick" else 300,
        rand_grid=[{"O1": "share", "O2": "get", "O3": "then_inline"}, {"O1": "ready", "O2": "share", "O3": "subscribe"},
                   {"O1": "then_exec", "O2": "get_const", "O3": "copy_drop"}] if tier != "quick" else [])


def spec_wait(tier):
    grid = [{"n": "1", "form": f, "second": s} for f in ("wait", "wait_for") for s in ("get", "then")]
    grid += [{"n": "2", "form": "wait"}, {"n": "2", "form": "wait_for"}, {"n": "2", "form": "wait_for_it", "second": "then"}]
    if tier != "quick":
        grid += [{"n": "2", "form": "wait", "second": "then"}, {"n": "2", "form": "wait_for", "second": "then"}]
    # SharedFuture inputs and WaitUntil: judged by the abstract monitors only
    grid += [{"n": n, "form": f, "second": s, "kind": "shared"} for n, f, s in (
        ("1", "wait", "get"), ("1", "wait", "then"), ("2", "wait", "get"), ("2", "wait", "then"), ("2", "wait_it", "get"),
        ("3", "wait_it", "then"))]
    grid += [{"n": "1", "form": "wait_until", "second": "get"}, {"n": "2", "form": "wait_until", "second": "then"},
             {"n": "2", "form": "wait_until_it", "second": "get"}]
    return ConcSpec(
        name="Wait", scenario="wt", grid=grid, scen_keys=["form", "n", "second", "kind"],
        inv_props=dict(OWN_INVS, **RACE_INVS), primary="C11",
        mc_cfgs=[("Wait_MC.cfg", 8, 900, "Wait: 1-2 producers x {Wait, WaitFor} x {Get, ThenInline} afterwards, deadline anywhere, all interleavings")],
        paths_cfg=None,
        dfs_max=12000, preempt=2,
        tail_boost=[{"n": "2", "form": "wait_for"}, {"n": "1", "form": "wait_for", "second": "get"}, {"n": "2", "form": "wait"}],
        tail_boost_execs=3000, tail_boost_preempt=1,
        rand_execs=300 if tier == "quick" else 4000,
        rand_grid=[{"n": "3", "form": "wait_for"}, {"n": "3", "form": "wait_for_it", "second": "then"}, {"n": "3", "form": "wait"}],
        trace_timeout=1500)


def spec_wg(tier):
    srcs = ["d", "a", "c", "S", "da", "dc"]
    wts = ["w", "t", "i", "s", "o"]
    grid = [{"src": s, "wts": w} for s in srcs for w in wts]
    grid += [{"src": s, "wts": w} for s in ("d", "a", "S") for w in ("wi", "tw", "ws", "io")]
    if tier != "quick":
        grid += [{"src": s, "wts": w} for s in ("c", "da", "ac") for w in ("wi", "tw", "ws", "io", "ww", "ts")]
    # M without a unit of its own: the count reaches zero while Attach / Consume is still in progress
    grid += [{"src": s, "wts": w, "own": "0"} for s in ("a", "c") for w in ("w", "i", "t", "wi")]
    # one Attach / Consume call for two futures, with and without M's own unit (monitors only)
    grid += [{"src": s, "wts": w, "own": o, "batch": "1"} for s in ("aa", "cc") for w in ("w", "i") for o in ("0", "1")]
    rand = [{"src": "dac", "wts": "wis"}, {"src": "ca", "wts": "wti"}, {"src": "dd", "wts": "iso"}, {"src": "S", "wts": "tis"}]
    mc = [("WaitGroup_MC.cfg", 8, 900, "WaitGroup: sources {d,a,c,S,da} x waiters {w,t,i,s,o,wi,tw,ws}, all interleavings"),
          ("WaitGroup_Live.cfg", 4, 900, "WaitGroup: <>Quiescent under weak fairness of every thread (every waiter is eventually "
           "released, whether or not the deadline fires)")]
    if tier != "quick":
        mc.append(("WaitGroup_MC3.cfg", 12, 3000, "WaitGroup: up to 3 sources / 2 waiters incl. two coroutines and timed + coroutine"))
    boost = [{"src": a, "wts": w} for a in ("d", "a", "c", "S") for w in ("w", "i", "o")]
    boost += [{"src": a, "wts": "w", "own": "0"} for a in ("a", "c")]
    return ConcSpec(
        name="WaitGroup", scenario="wg", grid=grid, primary="C16", tail_boost=boost, tail_boost_execs=3000, tail_boost_preempt=1,
        paths_cfg="WaitGroup_paths.cfg", paths_max=4000 if tier == "quick" else 60000,
        inv_props={"NoRace": ("C16", "C04"), "OwnershipOK": ("C16", "C03"), "ConsumedOnce": ("C16", "C03"),
                   "ConsumedAtQuiescence": ("C16", "C03"), "HeapWaiterReleased": ("C16", "C03")},
        mc_cfgs=mc,
        dfs_max=1200 if tier == "quick" else 8000, preempt=2 if tier == "quick" else 3,
        rand_execs=150 if tier == "quick" else 2500, rand_grid=rand,
        scen_keys=["src", "wts", "own", "batch"], trace_timeout=1500)


def spec_comutex(tier):
    grid = []
    pairs = [("a", "a"), ("ab", "ac"), ("sc", "hb"), ("tg", "ya"), ("cs", "cs"), ("b", "s"), ("zb", "az")]
    for o in ("00", "01", "10", "11"):
        for w in ("1", "2"):
            for p1, p2 in pairs:
                grid.append({"opts": o, "workers": w, "p1": p1, "p2": p2})
    for o in ("01", "10", "11"):
        grid.append({"opts": o, "workers": "2", "p1": "a", "p2": "b", "p3": "c"})
        grid.append({"opts": o, "workers": "2", "p1": "s", "p2": "a", "p3": "t"})
    rand = [{"opts": o, "workers": "3", "p1": "abc", "p2": "sca", "p3": "tac"} for o in ("00", "01", "10", "11")]
    rand += [{"opts": o, "workers": "2", "p1": "hbs", "p2": "gcy", "p3": "ab", "p4": "sc"} for o in ("10", "11")]
    mc = [("CoMutex_MC.cfg", 8, 900, "CoMutex: 2 coroutines x 2 rounds, 6 form pairs, 4 option sets, 1-2 workers, all interleavings"),
          ("CoMutex_LiveP.cfg", 4, 900, "CoMutex protocol: <>Quiescent under weak fairness of the workers (every request is "
           "eventually granted, also on a single worker), 2-3 coroutines, 4 option sets")]
    if tier != "quick":
        mc.append(("CoMutex_MC3.cfg", 12, 3000, "CoMutex: 3 coroutines, 4 option sets, 2 workers"))
        mc.append(("CoMutex_Live.cfg", 4, 1800, "CoMutex: every request is eventually granted under weak fairness of the workers"))
    boost = [{"opts": o, "workers": "2", "p1": "a", "p2": "a"} for o in ("00", "01", "10", "11")]
    boost += [{"opts": "10", "workers": "2", "p1": "s", "p2": "c"}, {"opts": "11", "workers": "2", "p1": "b", "p2": "h"}]
    # hand-over to an executor (UnlockOn / sticky unlock) with two waiters queued: what the old owner does after the
    # Submit must not matter any more
    boost += [{"opts": o, "workers": "2", "p1": f, "p2": f, "p3": f} for o in ("00", "10") for f in ("c", "s")]
    return ConcSpec(
        name="CoMutex", scenario="cm", grid=grid, tail_boost=boost, tail_boost_execs=22000, tail_boost_preempt=3, inv_props={"NoRace": ("C14", "C04")}, primary="C14",
        mc_cfgs=mc, paths_cfg=None,   # (the model lets any idle worker take a job later; the harness pool wakes workers eagerly)
        dfs_max=600 if tier == "quick" else 6000, preempt=2 if tier == "quick" else 3,
        rand_execs=100 if tier == "quick" else 2000, rand_grid=rand,
        scen_keys=["opts", "workers", "p1", "p2", "p3", "p4"], trace_timeout=1500)


def spec_cosmutex(tier):
    grid = []
    triples = [("r", "w", ""), ("w", "w", "r"), ("r", "w", "w"), ("rw", "wr", ""), ("R", "w", "r"), ("W", "r", "w"), ("g", "G", "r")]
    for o in ("00", "01", "10", "11"):
        for p1, p2, p3 in triples:
            d = {"opts": o, "workers": "2", "p1": p1, "p2": p2}
            if p3:
                d["p3"] = p3
            grid.append(d)
        grid.append({"opts": o, "workers": "1", "p1": "rw", "p2": "wr", "p3": "r"})
    rand = [{"opts": o, "workers": "3", "p1": "rwr", "p2": "wrw", "p3": "RwG", "p4": "gWr"} for o in ("00", "01", "10", "11")]
    rand += [{"opts": o, "workers": "2", "p1": "rrw", "p2": "wwr", "p3": "rw", "p4": "wr"} for o in ("10", "01")]
    mc = [("CoSharedMutex_MC.cfg", 12, 900, "CoSharedMutex: 3 coroutines (readers / writers / tries), 4 option sets, 2 workers, "
           "all interleavings, with happens-before bookkeeping"),
          ("CoSharedMutex_P.cfg", 12, 900, "CoSharedMutex protocol only: 3-4 coroutines, 4 option sets"),
          ("CoSharedMutex_Live.cfg", 4, 900, "CoSharedMutex protocol: <>Quiescent under weak fairness of the workers (nobody "
           "is parked forever), 3 coroutines, 1-2 workers")]
    if tier != "quick":
        mc.append(("CoSharedMutex_P2.cfg", 14, 3000, "CoSharedMutex protocol only: 2 rounds per coroutine"))
    # first writer arriving while readers are active: the hand-over uses a plain field published around two operations
    boost = [{"opts": o, "workers": "2", "p1": "r", "p2": "w"} for o in ("00", "01", "10", "11")]
    boost += [{"opts": o, "workers": "2", "p1": "r", "p2": "w", "p3": "w"} for o in ("10", "01")]
    return ConcSpec(
        name="CoSharedMutex", scenario="sm", grid=grid, tail_boost=boost, tail_boost_execs=4000, tail_boost_preempt=2, inv_props={"NoRace": ("C15", "C04")}, primary="C15",
        mc_cfgs=mc, paths_cfg=None,
        dfs_max=600 if tier == "quick" else 6000, preempt=2 if tier == "quick" else 3,
        rand_execs=100 if tier == "quick" else 2000, rand_grid=rand,
        scen_keys=["opts", "workers", "p1", "p2", "p3", "p4"], trace_timeout=1500)


def spec_spin(tier):
    """the internal lock of the coroutine SharedMutex (include/yaclib/util/detail/spinlock.hpp)"""
    grid = [{"rounds": r} for r in ("11", "21", "22", "111", "211")]
    if tier != "quick":
        grid += [{"rounds": r} for r in ("221", "222", "1111", "311")]
    rand = [{"rounds": "222"}, {"rounds": "1111"}, {"rounds": "311"}]
    mc = [("Spinlock_MC.cfg", 4, 600, "Spinlock: 2-3 threads x 1-2 rounds, all interleavings, with happens-before bookkeeping"),
          ("Spinlock_Live.cfg", 2, 600, "Spinlock: <>Quiescent under weak fairness of every thread (every lock() is granted)")]
    return ConcSpec(
        name="Spinlock", scenario="sl", grid=grid, inv_props={"NoRace": ("C15", "C04")}, primary="C15", mc_cfgs=mc, paths_cfg=None,
        dfs_max=4000 if tier == "quick" else 40000, preempt=3 if tier == "quick" else 4,
        rand_execs=200 if tier == "quick" else 3000, rand_grid=rand,
        tail_boost=[{"rounds": "11"}, {"rounds": "21"}], tail_boost_execs=500, tail_boost_preempt=2,
        scen_keys=["rounds"], trace_timeout=900)


def spec_await(tier):
    grid = []
    for form in ("fut", "await", "sticky", "on"):
        for outs in ("v", "x"):
            grid.append({"form": form, "n": "1", "outs": outs})
    for form in ("await", "sticky", "on"):
        for outs in ("vv", "vx", "xv"):
            grid.append({"form": form, "n": "2", "outs": outs})
        grid.append({"form": form, "n": "2", "outs": "vv", "dyn": "1"})
    for form in ("sticky", "on"):
        grid.append({"form": form, "n": "1", "outs": "v", "exec": "stop"})
        grid.append({"form": form, "n": "2", "outs": "vx", "exec": "stop"})
        grid.append({"form": form, "n": "2", "outs": "vv", "exec": "stop", "dyn": "1"})
    # awaiting a SharedFuture from one and from two coroutines: abstract monitors only (see Await_Trace.Modelled)
    for outs in ("v", "x"):
        grid.append({"form": "sfut", "n": "1", "outs": outs})
        grid.append({"form": "sfut", "n": "1", "outs": outs, "k": "2"})
    boost = [g for g in grid if g.get("n") == "1" and g.get("form") != "sfut"]
    return ConcSpec(
        name="Await", scenario="aw", grid=grid, primary="C13", tail_boost=boost, tail_boost_execs=3000, tail_boost_preempt=2,
        inv_props={"NoRace": ("C13", "C04"), "EndState": ("C13", "C03"), "AbsEnd": ("C13", "C03")},
        mc_cfgs=[("Await_MC.cfg", 8, 600, "Await: {co_await, Await, AwaitSticky, AwaitOn} x 1-2 futures x outcomes x "
                  "{accepting, rejecting executor}, all interleavings"),
                 ("Await_Live.cfg", 4, 600, "Await: <>Quiescent under weak fairness (the coroutine eventually completes)")],
        paths_cfg="Await_paths.cfg", paths_max=3000 if tier == "quick" else 40000, replay_logical=("cnt",), replay_skip_none=True,
        dfs_max=3000, preempt=None if tier != "quick" else 3,
        rand_execs=0, rand_grid=[], scen_keys=["form", "n", "outs", "exec", "dyn", "k"], trace_timeout=1500)


ALL_STRATS = ["all_none", "all_ff", "join_none", "join_ff"]
ANY_STRATS = ["any_none", "any_ff", "any_lf"]


def spec_when(tier, strats, primary):
    outs2 = ["vv", "vx", "xv", "xx", "ex"]
    grid = [{"strat": s, "form": f, "outs": o} for s in strats for f in ("static", "dynamic") for o in outs2]
    # three inputs of the same kind, bounded DFS: a decision that must survive a third completion (latched flags, counters)
    grid += [{"strat": s, "form": "dynamic", "outs": o} for s in strats for o in ("vvv", "xxx")]
    rand = [{"strat": s, "form": f, "outs": o} for s in strats for f in ("static", "dynamic") for o in ("xvx", "xxx", "vxv", "exv")]
    mc = [("When_MC.cfg", 8, 900, "When: 7 strategies x 5 outcome patterns, n = 2, all interleavings with registration")]
    if tier != "quick":
        mc.append(("When_MC3.cfg", 12, 2400, "When: n = 3"))
    boost = [{"strat": st, "form": "static", "outs": "vx"} for st in strats] + [{"strat": st, "form": "dynamic", "outs": "xv"} for st in strats]
    return ConcSpec(
        name="When", scenario="wh", grid=grid, tail_boost=boost, tail_boost_execs=3000, tail_boost_preempt=1,
        inv_props=dict(OWN_INVS, **dict(RACE_INVS, ReleasedOnce="C03")), primary=primary,
        mc_cfgs=mc, paths_cfg=None,
        dfs_max=6000, preempt=1 if tier == "quick" else 2,
        rand_execs=60 if tier == "quick" else 600, rand_grid=rand,
        scen_keys=["strat", "form", "outs"], trace_timeout=1500)


def spec_strand(tier, primary="C07"):
    grid = [{"subs": "11", "workers": w, "stop": st} for w in ("1", "2") for st in ("none", "stop", "hard")]
    grid += [{"subs": "11", "workers": "1", "weak": "1"}, {"subs": "21", "workers": "1", "stop": "none"},
             {"subs": "21", "workers": "2", "stop": "hard"}, {"subs": "2", "workers": "1", "stop": "stop"}]
    rand = [{"subs": "22", "workers": "2", "stop": "stop"}, {"subs": "111", "workers": "2", "stop": "hard"},
            {"subs": "21", "workers": "2", "stop": "stop", "weak": "1"}]
    return ConcSpec(
        name="Strand", scenario="st", grid=grid,
        inv_props=dict(OWN_INVS, **dict(NoRace=("C04", "C07"), BalancedAtQuiescence="C03", DropOnlyWhenRefused="C05",
                                        AbsDropOnlyAfterStop="C05")), primary=primary,
        mc_cfgs=[("Strand_MC.cfg", 8, 900, "Strand: 2 submitters x 1-2 jobs, 1-2 workers, stop/hard stop anywhere, weak CAS failures")],
        paths_cfg=None, dfs_max=2500, preempt=2 if tier == "quick" else 3,
        tail_boost=[{"subs": "11", "workers": "2", "stop": "none"}, {"subs": "11", "workers": "1", "stop": "stop"}],
        tail_boost_execs=3000, tail_boost_preempt=1,
        rand_execs=150 if tier == "quick" else 2000, rand_grid=rand, trace_timeout=1500)


def spec_pool(tier, primary="C08"):
    grid = [{"subs": "1", "workers": w, "stop": st} for w in ("1", "2") for st in ("stop", "soft", "hard")]
    grid += [{"subs": "11", "workers": "1", "stop": st} for st in ("stop", "soft", "hard")]
    grid += [{"subs": "2", "workers": "2", "stop": "soft"}, {"subs": "11", "workers": "2", "stop": "hard"}]
    # follow-up jobs under "SoftStop and nothing else" (monitors only)
    grid += [{"subs": sb, "workers": w, "stop": "softonly", "chain": "1"} for sb, w in (("2", "1"), ("2", "2"), ("21", "1"), ("3", "1"))]
    rand = [{"subs": "22", "workers": "2", "stop": st} for st in ("stop", "soft", "hard")] + [{"subs": "21", "workers": "1", "stop": "soft"}]
    rand += [{"subs": "22", "workers": "2", "stop": "softonly", "chain": "1"}]
    return ConcSpec(
        name="ThreadPool", scenario="tp", grid=grid,
        inv_props=dict(OWN_INVS, **dict(RACE_INVS, DropOnlyWhenStopped="C05")), primary=primary,
        mc_cfgs=[("ThreadPool_MC.cfg", 8, 900, "FairThreadPool: 2 jobs from 1-2 submitters, 1-2 workers, Stop / SoftStop+Stop / HardStop at any moment, then Wait")],
        paths_cfg=None, dfs_max=1200, preempt=1 if tier == "quick" else 2,
        rand_execs=150 if tier == "quick" else 2000, rand_grid=rand, trace_timeout=1500)


FS_PROGS = {
    "mutex": ["lu.tu.lu", "tlu.lu", "jx.xw.N", "wn.nw.z", "lnu.lnu.tnu", "W.F", "W.W.F", "Wlu.zF.W", "w.n", "w.N.w", "wz.zn"],
    "timed": ["lfu.tzu.fwn", "fu.lu.fu", "lu.f.f", "lnu.fnu.lnu"],
    "recursive": ["llu.lu.tu", "ltuu.lu", "llluuu.tlu.lu", "lnlnuu.lnu.tnu"],
    "recursive_timed": ["lflu.fu.lu", "llu.f.tu", "lnu.fnu.lnfnuu"],
    "shared": ["lu.sr.ysr.tu", "sr.lu.sr", "lu.lu.sr.sr", "ysr.tlu.sr", "lnu.snr.lnu", "snr.lnu.snr.tnu"],
    "shared_timed": ["lu.gr.fu.sr", "fu.gr.lu", "sr.fu.gr.lu", "lnu.snr.lnu", "gnr.fnu.snr"],
}


def spec_fsync(tier):
    grid = [{"lt": lt, "progs": p} for lt, ps in FS_PROGS.items() for p in ps]
    return ConcSpec(
        name="FiberSync", scenario="fs", grid=grid,
        inv_props={}, primary="C18", mc_cfgs=[], paths_cfg=None, trace_cfg="FiberSync_Trace.cfg",
        dfs_max=1500, preempt=2,
        rand_execs=300 if tier == "quick" else 3000, rand_grid=grid, tail_execs=0,
        scen_keys=["lt", "progs"], trace_timeout=1500)


# ------------------------------------------------------------------------------------------------ checks

@check("C01")
def c01(rep, tier, seed):
    """Promise/Future hand-off: exactly once, intact (UniqueCore.tla)"""
    run_conc(rep, spec_unique(tier), tier, seed, {"C01"})
    rep.assumptions += [
        "interleavings are explored at the granularity of yaclib_std operations (FIBER backend, sequentially consistent)",
        "TLC 1.8.0 and the hooks in the fault layer are trusted",
    ]


@check("C06")
def c06(rep, tier, seed):
    """SharedFuture: every observer sees the one value once, never before it exists (SharedCore.tla)"""
    run_conc(rep, spec_shared(tier), tier, seed, {"C06"})
    rep.assumptions += ["observers perform one observer operation each and then drop their copy; 1-2 observers exhaustively "
                        "(preemption-bounded DFS for pairs in the quick tier), 3 observers by random schedules (thorough)"]


@check("C11")
def c11(rep, tier, seed):
    """Wait returns only when ready; a timed-out wait leaves the futures intact (Wait.tla)"""
    run_conc(rep, spec_wait(tier), tier, seed, {"C11"})
    rep.assumptions += ["virtual deadline fired by the controller at any scheduling point while the waiter sleeps; "
                        "n = 1, 2: all schedules with at most 2 preemptions on the code; n = 3: seeded random schedules; n <= 2 exhaustively in the model"]


@check("C16")
def c16(rep, tier, seed):
    """WaitGroup / OneShotEvent release every waiter exactly when the count hits zero (WaitGroup.tla)"""
    run_conc(rep, spec_wg(tier), tier, seed, {"C16"})
    nost = _nost(spec_wg(tier), tier)
    nost.grid = [g for g in nost.grid if set(g["wts"]) & set("iso")]  # the coroutine waiters
    run_conc(rep, nost, tier, seed, {"C16"})
    rep.assumptions += ["sources: Done by a thread, attached / consumed futures, a bare event Set; waiters: Wait, WaitFor (+Wait "
                        "after a timeout), co_await inline / sticky / on an executor; at most one timed waiter per scenario; "
                        "Add only inside Attach / Consume, either while M holds a unit of its own or for a single attached / "
                        "consumed future on a count that was never zero before; no Reset; coroutine waiters also against "
                        "the library built without symmetric transfer"]


@check("C13")
def c13(rep, tier, seed):
    """coroutines resume once, after the awaited event, with its outcome, where asked (Await.tla + compile probe)"""
    from . import coroprobe
    coroprobe.check(rep)
    run_conc(rep, spec_await(tier), tier, seed, {"C13"})
    run_conc(rep, _nost(spec_await(tier), tier), tier, seed, {"C13"})
    # sequential semantics of every awaitable / coroutine kind / way of starting, in the three transfer configurations
    cfgs = ["CoroSeq_quick.cfg", "CoroSeq_second.cfg", "CoroSeq_rej.cfg"]
    if tier == "thorough":
        cfgs.append("CoroSeq_thorough.cfg")
    seq.check_coroseq(rep, tier, cfgs)
    rep.assumptions += ["CoroSeq.tla: one main coroutine (Future / SharedFuture / Task x 5 ways of starting) of <= 2 statements "
                        "(3 in the thorough tier) over On, Yield, CurrentExecutor, co_await / Await / AwaitSticky / AwaitOn of "
                        "unique, FutureOn and shared futures (ready / pending x value / StopError / exception), co_await / "
                        "Await of coroutine, MakeTask and Schedule Tasks, a second coroutine on the same SharedFuture, FIFO "
                        "executors rejecting from their k-th submission; deterministic driver; library built with symmetric "
                        "transfer everywhere / not in final_suspend / nowhere"]
    rep.assumptions += ["one coroutine awaiting 1-2 unique futures (co_await Future, Await, AwaitSticky, AwaitOn; static and "
                        "iterator forms); executor of sticky / on: runs the job where it is submitted, or rejects (Drop); "
                        "awaiting a SharedFuture (1 and 2 coroutines on the same one): all schedules, judged by the abstract "
                        "monitors only; Task awaiting and Yield: compile probe only"]


@check("C14")
def c14(rep, tier, seed):
    """coroutine Mutex: mutual exclusion, no lost wake-up, FIFO, visibility (CoMutex.tla)"""
    run_conc(rep, spec_comutex(tier), tier, seed, {"C14"})
    run_conc(rep, _nost(spec_comutex(tier), tier), tier, seed, {"C14"})
    rep.assumptions += ["every scenario also against the library built without symmetric transfer (same specification)",
                        "coroutines run on the harness pool (1-3 workers, FIFO queue, no visible operation of its own; its "
                        "submit/take synchronisation is modelled as a release/acquire pair); UnlockOn / sticky unlock target "
                        "the same pool; 2-4 coroutines x 1-3 rounds"]


@check("C15")
def c15(rep, tier, seed):
    """coroutine SharedMutex: writers exclude all, readers share, nobody is forgotten (CoSharedMutex.tla)"""
    run_conc(rep, spec_cosmutex(tier), tier, seed, {"C15"})
    run_conc(rep, _nost(spec_cosmutex(tier), tier), tier, seed, {"C15"})
    # the internal spinlock every slow-path decision is taken under
    run_conc(rep, spec_spin(tier), tier, seed, {"C15"})
    rep.assumptions += ["coroutines run on the harness pool (1-3 workers); a worker that spins on the internal spinlock is not "
                        "scheduled again until another worker has modified something (fair scheduling of spin loops)"]


@check("C09")
def c09(rep, tier, seed):
    """WhenAll / Join complete once, at the right moment, inputs in input order (When.tla)"""
    run_conc(rep, spec_when(tier, ALL_STRATS, "C09"), tier, seed, {"C09"})
    seq.check_whenseq(rep, tier, seq.ALL_STRATS_SEQ, "C09")
    rep.assumptions += ["unique inputs; static and dynamic forms; n = 2 with all schedules up to the preemption bound, n = 3 random"]


@check("C10")
def c10(rep, tier, seed):
    """WhenAny completes once with the right winner for each fail policy (When.tla)"""
    run_conc(rep, spec_when(tier, ANY_STRATS, "C10"), tier, seed, {"C10"})
    seq.check_whenseq(rep, tier, seq.ANY_STRATS_SEQ, "C10")
    rep.assumptions += ["unique inputs; static and dynamic forms; n = 2 with all schedules up to the preemption bound, n = 3 random"]


@check("C07")
def c07(rep, tier, seed):
    """Strand: one job at a time, in submission order, none lost (Strand.tla)"""
    run_conc(rep, spec_strand(tier), tier, seed, {"C07"})
    seq.check_execseq(rep, tier)
    rep.assumptions += ["the underlying executor is the harness' VerifPool (no visible operations of its own); strand over "
                        "strand and the real FairThreadPool underneath are not part of the quick tier"]


@check("C08")
def c08(rep, tier, seed):
    """FairThreadPool: accepted jobs all run, rejected ones drop, Wait means done (ThreadPool.tla)"""
    run_conc(rep, spec_pool(tier), tier, seed, {"C08"})
    rep.assumptions += ["real FairThreadPool on the FIBER mutex / condition variable / thread; lock acquisition order, notify "
                        "targets and the stop moment are controller choices; SoftStop is followed by Stop in the scenario"]


@check("C18")
def c18(rep, tier, seed):
    """yaclib_std locks, condition variables, sleep, join, TLS under fibers keep the std contracts (FiberSync.tla, FiberLocks.tla)"""
    wd = core.workdir("FiberLocks")
    r = core.run_tlc(wd, "FiberLocks.tla", "FiberLocks_MC.cfg", workers=8, timeout=900, heap="8g")
    rep.add_tlc(r, "FiberLocks: the fiber implementation of 6 lock types, 3 fibers x 8 programs, against the std contract")
    if r.error and not r.violated and not r.deadlock:
        raise MachineryError("TLC failed on FiberLocks:\n" + r.error)
    for inv in list(r.violated) + (["Deadlock"] if r.deadlock else []):
        rep.violation("%s/model/FiberLocks" % inv, "TLC: %s violated in FiberLocks.tla (the implementation model does not keep the "
                      "std contract)" % inv, {"tlc_cfg": "FiberLocks_MC.cfg", "tlc_trace": r.out[r.out.find("Error:"):][:5000]})
    run_conc(rep, spec_fsync(tier), tier, seed, {"C18"})
    rep.assumptions += ["programs over one lock of each type, one condition variable, sleep, join, TLS; begin/end of every API "
                        "call observed; every injection point of the fault layer is a controller-chosen scheduling point"]


@check("C17")
def c17(rep, tier, seed):
    """fiber fault-injection runs are reproducible from their seed (FiberSched.tla + pairwise comparison)"""
    from . import repro
    repro.check(rep, tier, seed)
    rep.assumptions += ["client programs: thread pool + WhenAll, strand over pool, timed waits, coroutines with Mutex; the "
                        "run is observed through the YACLIB_VERIF observation hooks (draws, picks, resumptions, injected yields)"]


def _lite(spec, tier):
    """reduced run of a specification for the library-wide properties C03 / C04 (its own property runs it in full)"""
    if tier == "quick":
        spec.grid = spec.grid[::3]
        spec.dfs_max = min(spec.dfs_max, 300)
        spec.rand_execs = 0
        spec.rand_grid = []
        spec.tail_execs = 10
        spec.tail_boost = list(spec.tail_boost)[:2]
        spec.tail_boost_execs = min(spec.tail_boost_execs, 1500)
        spec.mc_cfgs = list(spec.mc_cfgs)[:1]
    return spec


def _half(spec, tier):
    """the specifications whose own properties are closest to C03 / C04: every second configuration, no random part"""
    if tier == "quick":
        spec.grid = spec.grid[::2]
        spec.dfs_max = min(spec.dfs_max, 1500)
        spec.rand_execs = 0
        spec.rand_grid = []
        spec.tail_execs = 10
        spec.tail_boost = list(spec.tail_boost)[:4]
        spec.tail_boost_execs = min(spec.tail_boost_execs, 2000)
        spec.mc_cfgs = list(spec.mc_cfgs)[:1]
    return spec


def _nost(spec, tier):
    """the same scenarios against the library built WITHOUT symmetric transfer (Loop / Here paths instead of Next):
    the recorded executions must be behaviours of the same specification; the model itself is checked once"""
    spec.flavour = "fiber_nost"
    spec.drift_boost_execs = 0  # the deepened exploration after drift runs once, on the default configuration
    spec.mc_cfgs = []
    spec.paths_cfg = None
    if tier == "quick":
        spec.grid = spec.grid[::2]
        spec.dfs_max = min(spec.dfs_max, 400)
        spec.rand_execs = min(spec.rand_execs, 40)
        spec.tail_execs = 10
        spec.tail_boost = spec.tail_boost[:4]
    return spec


def all_conc_specs(tier):
    """every concurrent specification that carries ownership ghost state and a MemModel instance"""
    # the quick tier of the two library-wide properties runs every specification in a reduced form (each specification's
    # own property runs it in full); the thorough tier runs them all in full
    return [spec_unique(tier), _half(spec_shared(tier), tier), _half(spec_wait(tier), tier),
            _half(spec_when(tier, ALL_STRATS + ANY_STRATS, "C09"), tier),
            _half(spec_strand(tier), tier), _half(spec_pool(tier), tier),
            _lite(spec_wg(tier), tier), _lite(spec_comutex(tier), tier), _lite(spec_cosmutex(tier), tier),
            _lite(spec_await(tier), tier), _lite(spec_spin(tier), tier)]


@check("C03")
def c03(rep, tier, seed):
    """everything released exactly once: ownership invariants of every concurrent spec + accounting on the code"""
    for spec in all_conc_specs(tier):
        t0 = time.time()
        run_conc(rep, spec, tier, seed, {"C03"})
        log("[C03] %s: %.0fs" % (spec.name, time.time() - t0))
    # sequential pipelines: allocation balance and functor captures after every enumerated program
    cfgs = [("Pipeline_C02_quick.cfg", "eager and lazy programs of length <= 2 (unique and shared sources): nothing remains"),
            ("Pipeline_C12_deep.cfg", "four-core lazy programs x start / abandon kinds: nothing remains")]
    if tier != "quick":
        cfgs.append(("Pipeline_C12_quick.cfg", "lazy programs x start / abandon kinds: nothing remains"))
    seq.check_pipeline(rep, cfgs, {"C03"}, tier, crash_key=_inner_task_key)
    rep.assumptions += ["ownership is observed through instrumented payload/functor types and the model's ghost state"]


@check("C04")
def c04(rep, tier, seed):
    """no data races: MemModel (C++20 happens-before) driven by the memory orders the code passes"""
    for spec in all_conc_specs(tier):
        t0 = time.time()
        run_conc(rep, spec, tier, seed, {"C04"})
        log("[C04] %s: %.0fs" % (spec.name, time.time() - t0))
    rep.assumptions += ["plain accesses are transcribed from the code by hand; atomic operations and their memory orders "
                        "are recorded from the running code", "SC exploration + vector clocks (races of SC executions)"]


# ------------------------------------------------------------------------------------------------ program enumeration

from . import seq  # noqa: E402


def _inner_task_key(prog):
    kinds = sorted({s["beh"] for s in prog["steps"] if s["beh"].startswith("task_")})
    return "crash/inner-task/" + "+".join(kinds) if kinds else "crash/pipeline/src=%s" % prog["src"]


@check("C02")
def c02(rep, tier, seed):
    """pipeline semantics: routing, recovery, unwrapping (Pipeline.tla reference interpreter, all programs)"""
    cfgs = [("Pipeline_C02_quick.cfg", "all programs of length <= 2 over every source, signature class and behaviour"),
            ("Pipeline_C02_rej.cfg", "programs of length <= 2 with executors that reject (a dropped step reads StopError)")]
    if tier == "thorough":
        cfgs.append(("Pipeline_C02_thorough.cfg", "programs of length <= 3 over a reduced behaviour alphabet"))
    seq.check_pipeline(rep, cfgs, {"C02", "C12"}, tier, crash_key=_inner_task_key)
    rep.assumptions += ["value type int, error type StopError; behaviours are the finite alphabet of Pipeline.tla"]


@check("C05")
def c05(rep, tier, seed):
    """executors: Called xor Dropped, steps run where told, StopError on rejection (Pipeline.tla x rejection points)"""
    cfgs = [("Pipeline_C05_quick.cfg", "programs of length <= 2 x per-step executor choice x rejection point k in {0,1,never}"),
            ("Pipeline_C12_deep.cfg", "lazy programs of length <= 3 over a small alphabet, started on another executor or abandoned")]
    if tier == "thorough":
        cfgs.append(("Pipeline_C05_thorough.cfg", "programs of length <= 3 x rejection point k in {0,1,2,never}"))
    seq.check_pipeline(rep, cfgs, {"C05"}, tier, crash_key=_inner_task_key)
    # sequential submission histories over the real executors with reused (intrusive) job objects
    seq.check_execseq(rep, tier)
    # coroutines: after co_await On(e) / AwaitOn(e, ..) the body runs inside e; rejection completes it with StopError
    seq.check_coroseq(rep, tier, ["CoroSeq_rej.cfg"])
    # concurrent part: interleavings of Stop with Submit on the real Strand (Called xor Dropped, Drop only after refusal)
    sp = spec_strand(tier, primary="C05")
    sp.mc_cfgs = []  # the model itself is checked by C07; here the code is validated against it
    run_conc(rep, sp, tier, seed, {"C05"})
    sp = spec_pool(tier, primary="C05")
    sp.mc_cfgs = []
    run_conc(rep, sp, tier, seed, {"C05"})
    rep.assumptions += ["sequential part: instrumented inline executors decide Call/Drop; concurrent part: Strand over the "
                        "harness pool with Stop / HardStop at any point (Strand.tla)"]


@check("C12")
def c12(rep, tier, seed):
    """Task: nothing before start, then like the eager twin; cancel runs no value callback (Pipeline.tla lazy mode)"""
    cfgs = [("Pipeline_C12_quick.cfg", "lazy programs of length <= 2 x 6 ways of starting / abandoning"),
            ("Pipeline_C12_deep.cfg", "lazy programs of length <= 3 (four cores) over a small alphabet: inherited / explicit / inline "
             "steps, value / recovery callbacks, rejecting executors, started on another executor or abandoned")]
    if tier == "thorough":
        cfgs.append(("Pipeline_C12_thorough.cfg", "lazy programs of length <= 3"))
    seq.check_pipeline(rep, cfgs, {"C12", "C02"}, tier, crash_key=_inner_task_key)
    # coroutine Tasks and Tasks started by co_await / Await (CoroSeq.tla: NothingBeforeStart, DroppedRunsNothing, LazyTwin)
    seq.check_coroseq(rep, tier, ["CoroSeq_C12.cfg"])


@check("C20")
def c20(rep, tier, seed):
    """allocations: one per step (Pipeline.tla cost annotation); combinators and waits: constants"""
    cfgs = [("Pipeline_C20_quick.cfg", "programs of length <= 2, operator new counted per program")]
    if tier == "thorough":
        cfgs.append(("Pipeline_C20_thorough.cfg", "programs of length <= 3"))
    seq.check_pipeline(rep, cfgs, {"C20"}, tier, crash_key=_inner_task_key)
    _cost_measurements(rep, tier)


def _cost_measurements(rep, tier):
    """combinators: constant number of blocks; waits / Get / Strand submit / co_await: none (Cost.tla over measurements)"""
    exe = core.build_harness()
    wd = core.workdir("Cost")
    n = 12 if tier == "quick" else 64
    rc, out, err = core.sh([exe, "allocs", "--max", str(n)], timeout=600)
    recs = [json.loads(l) for l in out.splitlines() if l.startswith("{")]
    if rc != 0 or not recs:
        rep.violation("crash/allocs", "the allocation measurement program died (exit %s): %s" % (rc, err[-400:]), {"stderr": err[-2000:]})
        return
    path = os.path.join(wd, "cost.ndjson")
    with open(path, "w") as f:
        for r in recs:
            f.write(json.dumps(r) + "\n")
    r = core.run_tlc(wd, "Cost.tla", "Cost.cfg", workers=1, timeout=600, env_extra={"TRACE": path})
    rep.add_tlc(r, "Cost.tla over %d measurements (combinators / waits / awaits, n = 1..%d)" % (len(recs), n))
    if r.error and not r.violated and not r.post_false:
        raise MachineryError("TLC failed on Cost.tla:\n" + r.error)
    rep.executions += len(recs)
    rep.traces += len(recs)
    if r.violated or r.post_false:
        # name the offending measurements (same rules, evaluated here only to build readable keys)
        ref = {x["api"]: x["allocs"] for x in recs if x["n"] == 2}
        seen = set()
        for x in recs:
            if x["kind"].startswith("zero") and x["allocs"] != 0:
                key, why = "allocates/" + x["api"], "%s allocates %d block(s) for n = %d (must allocate nothing)" % (x["api"], x["allocs"], x["n"])
            elif x["kind"] == "combinator" and x["api"] in ref and x["allocs"] > ref[x["api"]]:
                key, why = "grows/" + x["api"], "%s allocates %d blocks for n = %d but %d for n = 2: not bounded by a constant" % (
                    x["api"], x["allocs"], x["n"], ref[x["api"]])
            elif x["kind"] == "combinator" and x["allocs"] > 8:
                key, why = "ceiling/" + x["api"], "%s allocates %d blocks for n = %d" % (x["api"], x["allocs"], x["n"])
            else:
                continue
            if key not in seen:
                seen.add(key)
                rep.violation(key, "Cost.tla CostRules: " + why, {"measurement": x, "tlc": r.out[-1500:]})
        if not seen:
            raise MachineryError("Cost.tla rejected the measurements but no rule names one:\n" + r.out[-2000:])
    if len(rep.samples) < 6:
        rep.samples.append({"kind": "allocation measurements validated against Cost.tla", "records": recs[:10]})


@check("C19")
def c19(rep, tier, seed):
    """yaclib_std::atomic computes what std::atomic computes (Atomic.tla reference semantics, both backends)"""
    seq.check_atomic(rep, tier)
    rep.assumptions += ["floating types: integer-valued operands only; atomic_flag: test_and_set / clear with fences in between "
                        "(test / wait / notify exist only in futex builds and are not enumerated); one thread"]


# ------------------------------------------------------------------------------------------------ setup / replay

def setup():
    """Check tools, parse every module, warm the build cache for the current tree."""
    for tool in ("java", "g++", "cmake", "ninja"):
        rc, _, _ = core.sh(["which", tool])
        if rc != 0:
            print("missing tool: " + tool)
            return 2
    wd = core.workdir("setup")
    bad = 0
    for f in sorted(os.listdir(core.SPEC_DIR)):
        if not f.endswith(".tla") or f.endswith("_gen.tla"):
            continue
        if f.endswith("_MC.tla"):
            # needs its generated constants module: write a neutral one
            gen = f.replace("_MC.tla", "_gen")
            if not os.path.exists(os.path.join(wd, gen + ".tla")):
                from .conc import write_gen
                write_gen(wd, gen, [])
        rc, out, err = core.sh(["java", "-cp", core.TLC_JAR + ":/opt/veriftools/tla/CommunityModules-deps.jar", "tla2sany.SANY", f],
                               cwd=wd, timeout=120)
        if rc != 0 or "Semantic errors" in out or "Could not parse" in out or "Fatal errors" in out or "*** Errors" in out:
            print("SANY failed for %s:\n%s" % (f, out[-1500:]))
            bad += 1
    if bad:
        return 2
    core.build_harness()
    print("setup ok")
    return 0


def replay(path):
    """Re-execute the schedule stored in a violation file and print what happens."""
    v = json.load(open(path))
    rp = v.get("replay", {})
    print("property=%s key=%s\n%s" % (v.get("property"), v.get("key"), v.get("what")))
    if "scenario" not in rp:
        print(json.dumps(rp, indent=1)[:4000])
        return 0
    exe = core.build_harness()
    params = rp.get("params", {})
    if rp.get("choices") is not None:
        stdin = "#" + ",".join(str(c) for c in rp["choices"]) + "\n"
    else:
        stdin = ",".join(rp.get("sched") or []) + "\n"
    lines, summary, crashed, err = core.run_vrt(exe, rp["scenario"], params, mode="replay", stdin=stdin)
    for r in lines:
        print(json.dumps(r))
    print("crashed=%s" % crashed)
    return 0
