"""Per-property checks. Each check fills a Report; verdict policy and evidence are in core.Report.finish()."""
import json
import os

from . import core
from .conc import ConcSpec, run_conc
from .core import MachineryError, log

CHECKS = {}


def check(pid):
    def deco(fn):
        CHECKS[pid] = fn
        return fn
    return deco


# ------------------------------------------------------------------------------------------------ specifications

PRODS = ["val", "err", "exc", "drop"]
CONS = ["then_inline", "then_exec", "detach", "drop", "detach_inline", "detach_exec", "get", "get_const", "wait", "connect"]

OWN_INVS = {"OwnershipOK": "C03", "ReleasedAtQuiescence": "C03", "AbsReleased": "C03"}
RACE_INVS = {"NoRace": "C04"}


def spec_unique(tier):
    return ConcSpec(
        name="UniqueCore", scenario="uc",
        grid=[{"prod": p, "cons": c} for p in PRODS for c in CONS],
        inv_props=dict(OWN_INVS, **RACE_INVS), primary="C01",
        mc_cfgs=[("UniqueCore_MC.cfg", 4, 300, "UniqueCore: 4 producer kinds x 10 consumer kinds, all interleavings, SC mode")],
        paths_cfg="UniqueCore_paths.cfg",
        dfs_max=5000,
        rand_execs=0 if tier == "quick" else 200)


# ------------------------------------------------------------------------------------------------ checks

@check("C01")
def c01(rep, tier, seed):
    """Promise/Future hand-off: exactly once, intact (UniqueCore.tla)"""
    run_conc(rep, spec_unique(tier), tier, seed, {"C01"})
    rep.assumptions += [
        "interleavings are explored at the granularity of yaclib_std operations (FIBER backend, sequentially consistent)",
        "TLC 1.8.0 and the hooks in the fault layer are trusted",
    ]


# ------------------------------------------------------------------------------------------------ setup / replay

def setup():
    """Check tools, parse every module, warm the build cache for the current tree."""
    for tool in ("java", "g++", "cmake", "ninja"):
        rc, _, _ = core.sh(["which", tool])
        if rc != 0:
            print("missing tool: " + tool)
            return 2
    wd = core.workdir("setup")
    bad = 0
    for f in sorted(os.listdir(core.SPEC_DIR)):
        if not f.endswith(".tla") or f.endswith("_gen.tla"):
            continue
        if f.endswith("_MC.tla"):
            # needs its generated constants module: write a neutral one
            gen = f.replace("_MC.tla", "_gen")
            if not os.path.exists(os.path.join(wd, gen + ".tla")):
                from .conc import write_gen
                write_gen(wd, gen, [])
        rc, out, err = core.sh(["java", "-cp", core.TLC_JAR + ":/opt/veriftools/tla/CommunityModules-deps.jar", "tla2sany.SANY", f],
                               cwd=wd, timeout=120)
        if rc != 0 or "Semantic errors" in out or "Could not parse" in out or "Fatal errors" in out or "*** Errors" in out:
            print("SANY failed for %s:\n%s" % (f, out[-1500:]))
            bad += 1
    if bad:
        return 2
    core.build_harness()
    print("setup ok")
    return 0


def replay(path):
    """Re-execute the schedule stored in a violation file and print what happens."""
    v = json.load(open(path))
    rp = v.get("replay", {})
    print("property=%s key=%s\n%s" % (v.get("property"), v.get("key"), v.get("what")))
    if "scenario" not in rp:
        print(json.dumps(rp, indent=1)[:4000])
        return 0
    exe = core.build_harness()
    params = rp.get("params", {})
    if rp.get("choices") is not None:
        stdin = "#" + ",".join(str(c) for c in rp["choices"]) + "\n"
    else:
        stdin = ",".join(rp.get("sched") or []) + "\n"
    lines, summary, crashed, err = core.run_vrt(exe, rp["scenario"], params, mode="replay", stdin=stdin)
    for r in lines:
        print(json.dumps(r))
    print("crashed=%s" % crashed)
    return 0
