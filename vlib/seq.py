"""Sequential "for all programs" checks: TLC enumerates programs with their expected outcome from a reference
interpreter written in TLA+ (Pipeline.tla, Atomic.tla, ...); the harness executes every program on the real API;
the driver compares field by field (spec -> code replay)."""
import json
import os
import re

from . import core
from .core import MachineryError


def tlc_programs(rep, wd, module, cfg, tag="PROG", workers=8, timeout=1500, what=""):
    r = core.run_tlc(wd, module, cfg, workers=workers, timeout=timeout, heap="12g")
    rep.add_tlc(r, what or ("program enumeration %s" % cfg))
    if r.error and not r.violated:
        raise MachineryError("TLC failed on %s/%s:\n%s" % (module, cfg, r.error))
    progs = []
    for tg, rest in r.prints:
        if tg == tag:
            progs.append(core.json_of_print(rest))
    return progs, r


def pipeline_line(pr):
    return "mode=%s;src=%s;start=%s;rej=e1:%d,e2:%d;steps=%s" % (
        pr["mode"], pr["src"], pr["start"], pr["rej"]["e1"], pr["rej"]["e2"],
        ",".join("%s:%s:%s" % (s["att"], s["arg"], s["beh"]) for s in pr["steps"]))


def run_pipeline_programs(exe, progs, timeout=3000):
    inp = "\n".join(pipeline_line(p["prog"]) for p in progs) + "\n"
    rc, out, err = core.sh([exe, "pipeline"], stdin=inp, timeout=timeout)
    if rc != 0:
        raise MachineryError("pipeline interpreter failed rc=%s: %s" % (rc, err[-2000:]))
    res = {}
    for ln in out.splitlines():
        if " " not in ln:
            continue
        i, rest = ln.split(" ", 1)
        try:
            res[int(i)] = dict(kv.split("=", 1) for kv in rest.split(";") if "=" in kv)
        except ValueError:
            pass
    return res


def ints(s):
    return [int(x) for x in s.split(",") if x != ""]


def compare_pipeline(p, g):
    """Returns list of (field, property, message) mismatches between expected (TLC) and got (code)."""
    o = p["out"]
    pr = p["prog"]
    lazy = pr["mode"] == "lazy"
    out = []
    if g is None:
        return [("missing", "*", "no result line")]
    if g["final"].startswith("CRASH"):
        return [("crash", "*", "the process died (%s) while running this program" % g["final"])]
    # what a step computes is C02 (C12 for lazy pipelines); when an executor rejects a step, "the step sees StopError instead
    # of its input, value callbacks are skipped, and the rest of the chain still completes" is C05's statement as well
    rejecting = pr["rej"]["e1"] < 9 or pr["rej"]["e2"] < 9 or pr.get("start") in ("drop", "to_future_e2", "detach_e2")
    sem = (("C12",) if lazy else ("C02",)) + (("C05",) if rejecting else ())
    if g["final"] != o["final"]:
        out.append(("final", sem, "final result %s, expected %s" % (g["final"], o["final"])))
    inv = ints(g.get("invoked", ""))
    if inv != o["invoked"]:
        out.append(("invoked", sem, "callbacks invoked %s, expected %s" % (inv, o["invoked"])))
    ran = [x for x in g.get("ran", "").split(",") if x != ""]
    if len(ran) == len(o["ran"]):
        for k, (a, b) in enumerate(zip(ran, o["ran"])):
            if b != "-" and not b.startswith("drop:") and a != b:
                out.append(("ran", "C05", "invocation %d ran on %s, expected %s" % (k, a, b)))
                break
    sub, calls, drops = ints(g["sub"]), ints(g["calls"]), ints(g["drops"])
    exp = lambda f: [o[f]["e1"], o[f]["e2"]]
    if sub != exp("submits"):
        out.append(("submits", "C05", "submissions per executor %s, expected %s" % (sub, exp("submits"))))
    if calls != exp("calls") or drops != exp("drops"):
        out.append(("calls", "C05", "calls/drops %s/%s, expected %s/%s" % (calls, drops, exp("calls"), exp("drops"))))
    if g.get("cache", "-") != o.get("cache", "-"):
        out.append(("cache", "C02", "another holder of a returned SharedFuture now reads %s, expected %s" % (g.get("cache"), o.get("cache"))))
    if int(g["allocs"]) > o["allocs"]:
        out.append(("allocs", "C20", "%s allocations, bound %d" % (g["allocs"], o["allocs"])))
    if "copies" in g and "copies" in o and int(g["copies"]) > o["copies"]:
        out.append(("copies", "C20", "the library copied the value %s times (bound %d: only a SharedFuture's state may be "
                    "copied from); for a value type that owns heap memory every copy is an allocation beyond the one block per step" % (
                        g["copies"], o["copies"])))
    own = ("C03", "C12") if lazy else ("C03",)   # an abandoned / cancelled Task releasing its functors is also C12's statement
    if g["leak"] != "0":
        out.append(("leak", own, "allocation balance %s after the pipeline is quiescent" % g["leak"]))
    if g["flive"] != "0":
        out.append(("functor", own, "%s functor captures still alive after the pipeline is quiescent" % g["flive"]))
    if g.get("erefs", "0,0") != "0,0":
        out.append(("erefs", own, "executor references taken and not returned after the pipeline is quiescent (e1, e2): %s" % g["erefs"]))
    return out


def cell_key(pr, field):
    """Identify the failing *cell* of the program space (source kind x step kinds), not the individual program."""
    kinds = sorted({"%s/%s" % (s["arg"], s["beh"]) for s in pr["steps"]})
    return "%s/%s/src=%s/start=%s/%s" % (field, pr["mode"], pr["src"], pr["start"], "+".join(kinds))


def check_pipeline(rep, cfgs, want, tier, crash_key=None):
    """cfgs: list of (cfg file, description). want: property ids whose mismatches are violations."""
    exe = core.build_harness()
    wd = core.workdir("Pipeline")
    total = 0
    for cfg, what in cfgs:
        progs, r = tlc_programs(rep, wd, "Pipeline.tla", cfg, what=what)
        for inv in r.violated:
            rep.violation("%s/model/Pipeline" % inv, "TLC: %s violated in Pipeline.tla (%s): the reference interpreter itself "
                          "contradicts the property" % (inv, cfg), {"tlc_cfg": cfg, "tlc_trace": r.out[-3000:]})
        if not progs:
            raise MachineryError("TLC printed no programs for %s" % cfg)
        res = run_pipeline_programs(exe, progs)
        total += len(progs)
        rep.executions += len(progs)
        rep.traces += len(progs)
        cells = {}
        for i, p in enumerate(progs):
            for field, prop, msg in compare_pipeline(p, res.get(i)):
                props = prop if isinstance(prop, tuple) else (prop,)
                if prop != "*" and not (set(props) & set(want)):
                    continue
                key = crash_key(p["prog"]) if (field == "crash" and crash_key) else cell_key(p["prog"], field)
                cells.setdefault(key, []).append((p, res.get(i), msg))
        for key, lst in sorted(cells.items()):
            p, g, msg = min(lst, key=lambda x: len(x[0]["prog"]["steps"]))
            rep.violation(key, "%s (%d programs of this cell; smallest: %s)" % (msg, len(lst), pipeline_line(p["prog"])),
                          {"kind": "pipeline", "program": p["prog"], "line": pipeline_line(p["prog"]), "expected": p["out"],
                           "got": g})
        if progs and len(rep.samples) < 4:
            p = progs[len(progs) // 3]
            rep.samples.append({"kind": "program enumerated by TLC and executed on the real API", "program": pipeline_line(p["prog"]),
                                "expected": p["out"], "got": res.get(len(progs) // 3)})
    rep.extra["programs"] = rep.extra.get("programs", 0) + total
    return total


# ------------------------------------------------------------------------------------------------ C09 / C10: WhenSeq.tla

ALL_STRATS_SEQ = ("all_none", "all_ff", "tuple_none", "tuple_ff", "join_none", "join_ff")
ANY_STRATS_SEQ = ("any_none", "any_ff", "any_lf")


def check_whenseq(rep, tier, strats, prop):
    """sequential completion histories of the combinators: TLC prints the prescribed output, the harness executes them"""
    exe = core.build_harness()
    wd = core.workdir("WhenSeq")
    cfg = "WhenSeq_%s.cfg" % tier
    progs, r = tlc_programs(rep, wd, "WhenSeq.tla", cfg, tag="WPROG", what="combinator histories (%s)" % cfg)
    for inv in r.violated:
        rep.violation("%s/model/WhenSeq" % inv, "TLC: %s violated in WhenSeq.tla (%s)" % (inv, cfg), {"tlc_cfg": cfg, "tlc_trace": r.out[-3000:]})
    progs = [p for p in progs if p["prog"]["strat"] in strats]
    if not progs:
        raise MachineryError("TLC printed no combinator histories for %s" % cfg)

    def line(pr):
        return "%s %d %s %s %d %s %s" % (pr["strat"], pr["n"], "".join(pr["outs"]), "".join(str(x) for x in pr["order"]), pr["pre"],
                                         pr["form"], pr["kind"])
    # one process per strategy x form x kind cell, so that a crash names its cell and the other cells still run
    cells = {}
    for p in progs:
        pr = p["prog"]
        cells.setdefault((pr["strat"], pr["form"], pr["kind"], pr["n"]), []).append(p)
    bad = {}
    ran = 0
    for (strat, form, kind, n), lst in sorted(cells.items()):
        rc, out, err = core.sh([exe, "when"], stdin="\n".join(line(p["prog"]) for p in lst) + "\n", timeout=600)
        got = {}
        for ln in out.splitlines():
            if " " in ln:
                i, rest = ln.split(" ", 1)
                try:
                    got[int(i)] = dict(kv.split("=", 1) for kv in rest.split(";") if "=" in kv)
                except ValueError:
                    pass
        ran += len(got)
        for i, p in enumerate(lst):
            g = got.get(i)
            pr = p["prog"]
            if g is None:
                if i == len(got):  # the program the process died in
                    key = "crash/whenseq/%s/%s/%s/n=%d" % (strat, form, kind, n)
                    bad.setdefault(key, []).append((p, None, "the process died (exit %s) while executing this history: %s" % (
                        rc, err.strip().splitlines()[-1][:200] if err.strip() else "")))
                continue
            if g.get("out") != p["expected"]:
                bad.setdefault("output/whenseq/%s/%s/%s/n=%d" % (strat, form, kind, n), []).append(
                    (p, g, "output %s, expected %s" % (g.get("out"), p["expected"])))
            if "subs" in p and g.get("subs") != str(p["subs"]):
                bad.setdefault("subscribers/whenseq/%s/%s/%s/n=%d" % (strat, form, kind, n), []).append(
                    (p, g, "the other subscribers of the shared inputs were called %s times, expected %s (each exactly once)" % (
                        g.get("subs"), p["subs"])))
            if g.get("live") != "0" or g.get("leak") != "0":
                bad.setdefault("released/whenseq/%s/%s/%s/n=%d" % (strat, form, kind, n), []).append(
                    (p, g, "%s payloads alive, allocation balance %s after everything was dropped" % (g.get("live"), g.get("leak"))))
    for key, lst in sorted(bad.items()):
        p, g, msg = lst[0]
        rep.violation(key, "%s (%d histories of this cell; first: %s)" % (msg, len(lst), line(p["prog"])),
                      {"kind": "whenseq", "program": p["prog"], "line": line(p["prog"]), "expected": p["expected"], "got": g})
    rep.executions += len(progs)
    rep.traces += ran
    rep.extra["combinator_histories"] = rep.extra.get("combinator_histories", 0) + len(progs)
    if progs and len(rep.samples) < 6:
        p = progs[len(progs) // 2]
        rep.samples.append({"kind": "combinator history enumerated by TLC and executed on the real API", "program": line(p["prog"]),
                            "expected": p["expected"]})


# ------------------------------------------------------------------------------------------------ C13 / C12 / C05: CoroSeq.tla

CORO_FLAVOURS = {"plain": "symmetric transfer everywhere", "plain_nofst": "no symmetric transfer in final_suspend",
                 "plain_nost": "no symmetric transfer"}


def coro_line(pr):
    body = "/".join(".".join(s) for s in pr["body"]) or "-"
    return "kind=%s;start=%s;rej=%s;second=%s;body=%s" % (pr["kind"], pr["start"], pr["rej"], pr["second"], body)


def _run_cseq(exe, lines):
    """run the programs; a dying process loses one program only. Returns ({index: fields}, {index: exit code})"""
    got, died = {}, {}
    base = 0
    while base < len(lines):
        rc, out, err = core.sh([exe], stdin="\n".join(lines[base:]) + "\n", timeout=1800)
        n = 0
        for ln in out.splitlines():
            if " " in ln:
                i, rest = ln.split(" ", 1)
                try:
                    got[base + int(i)] = dict(kv.split("=", 1) for kv in rest.split(";") if "=" in kv)
                    n = max(n, int(i) + 1)
                except ValueError:
                    pass
        if base + n >= len(lines):
            break
        died[base + n] = rc
        base += n + 1
    return got, died


def check_coroseq(rep, tier, cfgs, flavours=("plain", "plain_nofst", "plain_nost"), only_kind=None):
    """coroutine programs: TLC checks the interpreter's properties and prints the expected log, cseq executes them"""
    wd = core.workdir("CoroSeq")
    progs = []
    for cfg in cfgs:
        ps, r = tlc_programs(rep, wd, "CoroSeq.tla", cfg, tag="CPROG", what="coroutine programs (%s)" % cfg)
        for inv in r.violated:
            rep.violation("%s/model/CoroSeq" % inv, "TLC: %s violated in CoroSeq.tla (%s)" % (inv, cfg),
                          {"tlc_cfg": cfg, "tlc_trace": r.out[-3000:]})
        progs += ps
    if only_kind:
        progs = [p for p in progs if p["prog"]["kind"] in only_kind]
    seen, uniq = set(), []
    for p in progs:
        ln = coro_line(p["prog"])
        if ln not in seen:
            seen.add(ln)
            uniq.append(p)
    progs = uniq
    if not progs:
        raise MachineryError("TLC printed no coroutine programs for %s" % (cfgs,))
    lines = [coro_line(p["prog"]) for p in progs]
    bad = {}
    ran = 0
    for fl in flavours:
        exe = core.build_harness(name="cseq", sources=["cseq.cpp"], flavour=fl)
        got, died = _run_cseq(exe, lines)
        ran += len(got)
        for i, p in enumerate(progs):
            pr = p["prog"]
            sig = "+".join(sorted({s[0] + ("." + s[1] if s[1] != "-" else "") for s in pr["body"]})) or "empty"
            cell = "%s/%s%s/%s" % (fl, pr["kind"], "" if pr["start"] == "-" else ":" + pr["start"], sig)
            if i in died:
                bad.setdefault("crash/coroseq/" + cell, []).append((p, None, "the process died (exit %s) while executing this program" % died[i]))
                continue
            g = got.get(i)
            if g is None:
                raise MachineryError("cseq printed no result for program %d (%s)" % (i, lines[i]))
            exp = {"log": p["log"], "final": p["final"], "sub": "%d,%d" % tuple(p["sub"]), "calls": "%d,%d" % tuple(p["calls"]),
                   "drops": "%d,%d" % tuple(p["drops"]), "frames": "%d,%d,0" % (p["begun"], p["begun"]), "leak": "0"}
            for f in ("log", "final", "sub", "calls", "drops", "frames", "leak"):
                if g.get(f) != exp[f]:
                    bad.setdefault("%s/coroseq/%s" % (f, cell), []).append(
                        (p, g, "%s is %s, the specification prescribes %s" % (f, g.get(f), exp[f])))
                    break
    for key, lst in sorted(bad.items()):
        p, g, msg = min(lst, key=lambda x: len(x[0]["prog"]["body"]))
        rep.violation(key, "%s (%d programs of this cell; smallest: %s)" % (msg, len(lst), coro_line(p["prog"])),
                      {"kind": "coroseq", "flavour": key.split("/")[2], "program": coro_line(p["prog"]),
                       "expected": {k: p[k] for k in ("log", "final", "sub", "calls", "drops", "begun")}, "got": g})
    rep.executions += len(progs) * len(flavours)
    rep.traces += ran
    rep.extra["coroutine_programs"] = rep.extra.get("coroutine_programs", 0) + len(progs)
    rep.extra["coroutine_configurations"] = [CORO_FLAVOURS[f] for f in flavours]
    if progs and len(rep.samples) < 6:
        p = progs[len(progs) // 2]
        rep.samples.append({"kind": "coroutine program enumerated by TLC and executed on the real coroutine layer",
                            "program": coro_line(p["prog"]), "expected": {k: p[k] for k in ("log", "final")}})


# ------------------------------------------------------------------------------------------------ C05 / C07: ExecSeq.tla

def check_execseq(rep, tier):
    """sequential submission histories over the real executors with reused job objects"""
    exe = core.build_harness()
    wd = core.workdir("ExecSeq")
    cfg = "ExecSeq_%s.cfg" % tier
    progs, r = tlc_programs(rep, wd, "ExecSeq.tla", cfg, tag="EPROG", what="executor submission histories (%s)" % cfg)
    for inv in r.violated:
        rep.violation("%s/model/ExecSeq" % inv, "TLC: %s violated in ExecSeq.tla (%s)" % (inv, cfg), {"tlc_cfg": cfg, "tlc_trace": r.out[-3000:]})
    if not progs:
        raise MachineryError("TLC printed no executor histories for %s" % cfg)

    def line(p):
        body = " ".join("D" if e == "D" else e + j for e, j in p["prog"])
        return body if p.get("chain", "none") == "none" else "chain=%s %s" % (p["chain"], body)
    chunk = 5000
    bad = {}
    ran = 0
    for c0 in range(0, len(progs), chunk):
        part = progs[c0:c0 + chunk]
        rc, out, err = core.sh([exe, "exec"], stdin="\n".join(line(p) for p in part) + "\n", timeout=900)
        got = {}
        for ln in out.splitlines():
            if " " in ln:
                i, rest = ln.split(" ", 1)
                try:
                    got[int(i)] = dict(kv.split("=", 1) for kv in rest.split(";") if "=" in kv)
                except ValueError:
                    pass
        ran += len(got)
        for i, p in enumerate(part):
            g = got.get(i)
            execs = "".join(sorted({e for e, j in p["prog"] if e != "D"})) + ("" if p.get("chain", "none") == "none" else "/chain=" + p["chain"])
            if g is None:
                if i == len(got):
                    bad.setdefault("crash/execseq/%s" % execs, []).append((p, None, "the process died (exit %s) while executing this history" % rc))
                continue
            e_calls = ",".join(str(p["calls"][k]) for k in ("1", "2", "3"))
            e_drops = ",".join(str(p["drops"][k]) for k in ("1", "2", "3"))
            e_log = ",".join(k + j for k, j in p["log"])
            if g.get("calls") != e_calls or g.get("drops") != e_drops:
                bad.setdefault("calls/execseq/%s" % execs, []).append(
                    (p, g, "jobs were called %s / dropped %s times, expected %s / %s" % (g.get("calls"), g.get("drops"), e_calls, e_drops)))
            elif g.get("log") != e_log:
                bad.setdefault("order/execseq/%s" % execs, []).append((p, g, "order of calls and drops %s, expected %s" % (g.get("log"), e_log)))
    for key, lst in sorted(bad.items()):
        p, g, msg = min(lst, key=lambda x: len(x[0]["prog"]))
        rep.violation(key, "%s (%d histories of this cell; smallest: %s)" % (msg, len(lst), line(p)),
                      {"kind": "execseq", "program": line(p), "expected": {k: p[k] for k in ("calls", "drops", "log")}, "got": g})
    rep.executions += len(progs)
    rep.traces += ran
    rep.extra["executor_histories"] = rep.extra.get("executor_histories", 0) + len(progs)
    if progs and len(rep.samples) < 6:
        p = progs[len(progs) // 2]
        rep.samples.append({"kind": "executor history enumerated by TLC and executed on the real executors", "program": line(p),
                            "expected": {k: p[k] for k in ("calls", "drops", "log")}})


# ------------------------------------------------------------------------------------------------ C19: Atomic.tla

ATOMIC_KINDS = [
    # (cfg stem, limb base, types)
    ("int8", 256, ["i8", "u8"]),
    ("int16", 65536, ["i16", "u16"]),
    ("int32", 65536, ["i32", "u32"]),
    ("int64", 65536, ["i64", "u64"]),
    ("bool", 2, ["bool"]),
    ("flag", 2, ["flag"]),
    ("ptr", 65536, ["ptr"]),
    ("float", 65536, ["f32", "f64"]),
    # inexact floating values: the TLA+ values are indices into the IEEE tables of Atomic_fgen (vlib/ieee.py)
    ("fx32", None, ["b32"]),
    ("fx64", None, ["b64"]),
]


class _FxBase:
    def __init__(self, bits):
        self.bits = bits


def _limbs(v, base):
    if v == [] or v is None:
        return None
    if isinstance(v, str):
        return v
    if isinstance(base, _FxBase):
        return base.bits[v[0]]
    n = 0
    for i, l in enumerate(v):
        n += l * (base ** i)
    return n


def _hx(n):
    return "-" if n is None else ("%x" % n)


def check_atomic(rep, tier, want_backends=("fiber", "thread", "std")):
    exe = core.build_harness()
    wd = core.workdir("Atomic")
    total = 0
    from . import ieee
    with open(os.path.join(wd, "Atomic_fgen.tla"), "w") as f:
        f.write(ieee.tla_module(3))  # regenerated on every run (the committed copy in spec/ is the same text)
    for stem, base, types in ATOMIC_KINDS:
        if base is None:
            # values are table indices: the harness gets the bit patterns
            base = _FxBase(ieee.table(32 if stem == "fx32" else 64, 3)["bits"])
        cfg = "Atomic_%s_%s.cfg" % (stem, tier)
        seqs, r = tlc_programs(rep, wd, "Atomic.tla", cfg, tag="SEQ", what="std::atomic reference semantics, %s, all "
                               "operation sequences up to the depth bound" % stem)
        for inv in r.violated:
            rep.violation("%s/model/Atomic" % inv, "TLC: %s violated in Atomic.tla (%s)" % (inv, cfg), {"tlc_cfg": cfg,
                                                                                                       "tlc_trace": r.out[-3000:]})
        if not seqs:
            raise MachineryError("TLC printed no sequences for %s" % cfg)
        lines = []
        index = []
        for si, s in enumerate(seqs):
            init = _limbs(s["init"], base)
            ops = []
            has_spur = False
            for o in s["ops"]:
                has_spur = has_spur or o["spur"]
                ops.append("%s:%s:%s:%d" % (o["op"], _hx(_limbs(o["arg"], base)), _hx(_limbs(o["exp"], base)), 1 if o["spur"] else 0))
            for t in types:
                for b in want_backends:
                    if b == "std" and has_spur:
                        continue
                    lines.append("%s %s %x %s" % (t, b, init, ";".join(ops)))
                    index.append((si, t, b))
        rc, out, err = core.sh([exe, "atomic"], stdin="\n".join(lines) + "\n", timeout=1800)
        if rc != 0:
            raise MachineryError("atomic interpreter failed rc=%s: %s" % (rc, err[-2000:]))
        got = {}
        for ln in out.splitlines():
            if " " in ln:
                i, rest = ln.split(" ", 1)
                got[int(i)] = rest
        total += len(lines)
        cells = {}
        for li, (si, t, b) in enumerate(index):
            s = seqs[si]
            g = got.get(li)
            if g is None:
                cells.setdefault("missing/%s/%s" % (b, t), []).append((s, t, b, "no output", li))
                continue
            parts = g.split(";")
            before = _limbs(s["init"], base)
            for k, o in enumerate(s["ops"]):
                if k >= len(parts):
                    break
                ret, val, exp = parts[k].split(":")
                e_ret = _limbs(o["ret"], base)
                e_ret = e_ret if isinstance(e_ret, str) else _hx(e_ret)
                e_val = _hx(_limbs(o["val"], base))
                e_exp = _hx(_limbs(o["expout"], base)) if o["op"].startswith("cas") else "-"
                if ret == "unsupported":
                    ret = e_ret
                    rep.extra["assign_unsupported_by_wrapper"] = rep.extra.get("assign_unsupported_by_wrapper", 0) + 1
                if (ret, val, exp) != (e_ret, e_val, e_exp):
                    kind = "pointer" if t == "ptr" else "floating" if t[0] in "fb" and t != "bool" and t != "flag" else "bool" if t == "bool" else "integer"
                    what = []
                    if ret != e_ret:
                        what.append("returned %s, std::atomic returns %s" % (ret, e_ret))
                    if val != e_val:
                        what.append("stored value %s, std::atomic stores %s" % (val, e_val))
                    if exp != e_exp:
                        what.append("expected updated to %s, should be %s" % (exp, e_exp))
                    key = "%s/%s/%s%s" % (b, o["op"], kind, "/spurious" if o["spur"] else "")
                    cells.setdefault(key, []).append((s, t, b, "%s on %s (value before %s, operand %s): %s" % (
                        o["op"], t, _hx(before), _hx(_limbs(o["arg"], base)), "; ".join(what)), li))
                    break
                before = _limbs(o["val"], base)
        for key, lst in sorted(cells.items()):
            s, t, b, msg, li = min(lst, key=lambda x: len(x[0]["ops"]))
            rep.violation(key, "%s backend: %s (%d failing sequences of this cell)" % (b, msg, len(lst)),
                          {"kind": "atomic", "line": lines[li], "expected": s, "got": got.get(li)})
        if len(rep.samples) < 4:
            rep.samples.append({"kind": "operation sequence enumerated by TLC and executed on yaclib_std::atomic",
                                "input": lines[len(lines) // 2], "got": got.get(len(lines) // 2)})
    rep.executions += total
    rep.traces += total
    rep.extra["sequences_executed"] = total
    return total
