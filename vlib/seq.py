"""Sequential "for all programs" checks: TLC enumerates programs with their expected outcome from a reference
interpreter written in TLA+ (Pipeline.tla, Atomic.tla, ...); the harness executes every program on the real API;
the driver compares field by field (spec -> code replay)."""
import json
import os
import re

from . import core
from .core import MachineryError


def tlc_programs(rep, wd, module, cfg, tag="PROG", workers=8, timeout=1500, what=""):
    r = core.run_tlc(wd, module, cfg, workers=workers, timeout=timeout, heap="12g")
    rep.add_tlc(r, what or ("program enumeration %s" % cfg))
    if r.error and not r.violated:
        raise MachineryError("TLC failed on %s/%s:\n%s" % (module, cfg, r.error))
    progs = []
    for tg, rest in r.prints:
        if tg == tag:
            progs.append(core.json_of_print(rest))
    return progs, r


def pipeline_line(pr):
    return "mode=%s;src=%s;start=%s;rej=e1:%d,e2:%d;steps=%s" % (
        pr["mode"], pr["src"], pr["start"], pr["rej"]["e1"], pr["rej"]["e2"],
        ",".join("%s:%s:%s" % (s["att"], s["arg"], s["beh"]) for s in pr["steps"]))


def run_pipeline_programs(exe, progs, timeout=3000):
    inp = "\n".join(pipeline_line(p["prog"]) for p in progs) + "\n"
    rc, out, err = core.sh([exe, "pipeline"], stdin=inp, timeout=timeout)
    if rc != 0:
        raise MachineryError("pipeline interpreter failed rc=%s: %s" % (rc, err[-2000:]))
    res = {}
    for ln in out.splitlines():
        if " " not in ln:
            continue
        i, rest = ln.split(" ", 1)
        try:
            res[int(i)] = dict(kv.split("=", 1) for kv in rest.split(";") if "=" in kv)
        except ValueError:
            pass
    return res


def ints(s):
    return [int(x) for x in s.split(",") if x != ""]


def compare_pipeline(p, g):
    """Returns list of (field, property, message) mismatches between expected (TLC) and got (code)."""
    o = p["out"]
    pr = p["prog"]
    lazy = pr["mode"] == "lazy"
    out = []
    if g is None:
        return [("missing", "*", "no result line")]
    if g["final"].startswith("CRASH"):
        return [("crash", "*", "the process died (%s) while running this program" % g["final"])]
    if g["final"] != o["final"]:
        out.append(("final", "C12" if lazy else "C02", "final result %s, expected %s" % (g["final"], o["final"])))
    inv = ints(g.get("invoked", ""))
    if inv != o["invoked"]:
        out.append(("invoked", "C12" if lazy else "C02", "callbacks invoked %s, expected %s" % (inv, o["invoked"])))
    ran = [x for x in g.get("ran", "").split(",") if x != ""]
    if len(ran) == len(o["ran"]):
        for k, (a, b) in enumerate(zip(ran, o["ran"])):
            if b != "-" and not b.startswith("drop:") and a != b:
                out.append(("ran", "C05", "invocation %d ran on %s, expected %s" % (k, a, b)))
                break
    sub, calls, drops = ints(g["sub"]), ints(g["calls"]), ints(g["drops"])
    exp = lambda f: [o[f]["e1"], o[f]["e2"]]
    if sub != exp("submits"):
        out.append(("submits", "C05", "submissions per executor %s, expected %s" % (sub, exp("submits"))))
    if calls != exp("calls") or drops != exp("drops"):
        out.append(("calls", "C05", "calls/drops %s/%s, expected %s/%s" % (calls, drops, exp("calls"), exp("drops"))))
    if int(g["allocs"]) > o["allocs"]:
        out.append(("allocs", "C20", "%s allocations, bound %d" % (g["allocs"], o["allocs"])))
    if g["leak"] != "0":
        out.append(("leak", "C03", "allocation balance %s after the pipeline is quiescent" % g["leak"]))
    if g["flive"] != "0":
        out.append(("functor", "C03", "%s functor captures still alive after the pipeline is quiescent" % g["flive"]))
    return out


def cell_key(pr, field):
    """Identify the failing *cell* of the program space (source kind x step kinds), not the individual program."""
    kinds = sorted({"%s/%s" % (s["arg"], s["beh"]) for s in pr["steps"]})
    return "%s/%s/src=%s/start=%s/%s" % (field, pr["mode"], pr["src"], pr["start"], "+".join(kinds))


def check_pipeline(rep, cfgs, want, tier, crash_key=None):
    """cfgs: list of (cfg file, description). want: property ids whose mismatches are violations."""
    exe = core.build_harness()
    wd = core.workdir("Pipeline")
    total = 0
    for cfg, what in cfgs:
        progs, r = tlc_programs(rep, wd, "Pipeline.tla", cfg, what=what)
        for inv in r.violated:
            rep.violation("%s/model/Pipeline" % inv, "TLC: %s violated in Pipeline.tla (%s): the reference interpreter itself "
                          "contradicts the property" % (inv, cfg), {"tlc_cfg": cfg, "tlc_trace": r.out[-3000:]})
        if not progs:
            raise MachineryError("TLC printed no programs for %s" % cfg)
        res = run_pipeline_programs(exe, progs)
        total += len(progs)
        rep.executions += len(progs)
        rep.traces += len(progs)
        cells = {}
        for i, p in enumerate(progs):
            for field, prop, msg in compare_pipeline(p, res.get(i)):
                if prop != "*" and prop not in want:
                    continue
                key = crash_key(p["prog"]) if (field == "crash" and crash_key) else cell_key(p["prog"], field)
                cells.setdefault(key, []).append((p, res.get(i), msg))
        for key, lst in sorted(cells.items()):
            p, g, msg = min(lst, key=lambda x: len(x[0]["prog"]["steps"]))
            rep.violation(key, "%s (%d programs of this cell; smallest: %s)" % (msg, len(lst), pipeline_line(p["prog"])),
                          {"kind": "pipeline", "program": p["prog"], "line": pipeline_line(p["prog"]), "expected": p["out"],
                           "got": g})
        if progs and len(rep.samples) < 4:
            p = progs[len(progs) // 3]
            rep.samples.append({"kind": "program enumerated by TLC and executed on the real API", "program": pipeline_line(p["prog"]),
                                "expected": p["out"], "got": res.get(len(progs) // 3)})
    rep.extra["programs"] = rep.extra.get("programs", 0) + total
    return total
