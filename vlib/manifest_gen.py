"""Regenerates MANIFEST.json from the table below (python3 -m vlib.manifest_gen)."""
import json
import os

VERIF = os.path.dirname(os.path.dirname(os.path.abspath(__file__)))

SEQ_NOTE = ("program space bounded by the cfg constants (length, behaviour alphabet); value type int, error type StopError; "
            "trusted: TLC, the harness interpreter (harness/sc_pipeline.cpp)")
CONC_NOTE = ("sequentially consistent interleavings of yaclib_std operations in the FIBER backend; 2-3 threads; trusted: TLC, the "
             "YACLIB_VERIF hooks, the harness controller")

CLAIMED = {
    "C01": dict(
        text="TLC checks UniqueCore.tla (one action per yaclib_std operation) exhaustively for every producer kind x consumer kind; "
             "every interleaving of the real code at that granularity is executed under a controlled FIBER scheduler and each "
             "recorded execution is validated against the specification by TLC with all invariants and an abstract monitor of "
             "the observable contract; all behaviours of the bounded model are replayed on the code.",
        note=CONC_NOTE, design="7/C01",
        technique="TLA+ spec + TLC model checking; exhaustive schedule enumeration on the code with TLC trace validation; "
                  "replay of TLC behaviours"),
    "C02": dict(
        text="Pipeline.tla is a TLA+ reference interpreter transcribed from the property's sentences; TLC enumerates every "
             "program up to the length bound with its expected Result and invoked-callback list and checks the interpreter's "
             "meta-properties; every enumerated program is executed on the real Future/Task API and compared.",
        note=SEQ_NOTE, design="7/C02", technique="TLA+ reference interpreter; TLC-enumerated programs replayed on the code"),
    "C03": dict(
        text="Ownership ghost state (alive / freed-by, use-after-free and double-free flags, released-at-quiescence) is part of "
             "every concurrent specification and is model checked by TLC; on the code side every interleaving of the bounded "
             "scenarios is executed with instrumented payloads, functor captures and operator new/delete accounting and "
             "validated against the specification; every sequential pipeline program enumerated from Pipeline.tla (eager, lazy, "
             "unique and shared sources, all start / abandon kinds) is executed with allocation balance and functor-capture "
             "accounting: nothing may remain once it is quiescent.",
        note=CONC_NOTE + "; specifications run: UniqueCore, SharedCore, Wait, When, Strand, ThreadPool in full; WaitGroup "
             "(consumed futures, two-owner timed waiter), Await (coroutine frame and its locals) in reduced form",
        design="7/C03", technique="TLC invariants on ownership ghost state + trace validation with accounting"),
    "C04": dict(
        text="MemModel.tla implements C++20 happens-before (release sequences, RMW continuation, fences) as specification "
             "state; every concurrent specification instantiates it; the memory order of every atomic operation is recorded "
             "from the running code and drives the model both in trace validation and in the bounded model check, so TLC "
             "reports a race exactly when the orders the code passes do not order the transcribed plain accesses.",
        note="specifications run: UniqueCore, SharedCore, Wait, When, Strand, ThreadPool in full; CoMutex, CoSharedMutex, WaitGroup, Await in reduced form (each in full under its own property); plain accesses are transcribed by hand; SC exploration with vector clocks (races of SC executions); weak "
             "behaviours only on the model; " + CONC_NOTE, design="7/C04",
        technique="TLA+ happens-before model driven by memory orders extracted from the code; TLC"),
    "C05": dict(
        text="Pipeline.tla carries per-step executor placement, inherited executors and a rejection point per executor; TLC "
             "enumerates programs x executor choices x rejection points with expected submissions, Call/Drop counts and "
             "placement and checks Called-xor-Dropped on the interpreter; every program is executed on the real API with "
             "instrumented executors. ExecSeq.tla enumerates sequential submission histories of reused (intrusive) job "
             "objects over ManualExecutor, two Strands over it, a Strand over a rejecting executor and the two Inline "
             "executors with the prescribed Call / Drop counts and order; every history runs on the real executors. "
             "Strand.tla / ThreadPool.tla traces cover Stop racing with Submit.",
        note=SEQ_NOTE, design="7/C05", technique="TLA+ reference interpreter; TLC-enumerated programs replayed on the code"),
    "C06": dict(
        text="SharedCore.tla models the lock-free callback stack, the reference counter thresholds (copy / last callback "
             "may move / last holder may move) and every observer operation at yaclib_std-operation granularity; TLC checks "
             "it exhaustively for a fulfiller and two observers x 8 observer operations; recorded executions of the real "
             "code (all schedules for one observer, preemption-bounded for pairs, random for three) are validated against "
             "it with the memory model and an abstract monitor; TLC behaviours (incl. injected spurious weak-CAS failures) "
             "are replayed on the code.",
        note=CONC_NOTE, design="7/C06",
        technique="TLA+ spec + TLC model checking; schedule enumeration on the code with TLC trace validation; replay"),
    "C07": dict(
        text="Strand.tla models Submit (relaxed load, weak-CAS push loop, IncRef + underlying Submit when Mark was "
             "replaced), Call (exchange, reversal, bodies, load + CAS back to Mark or resubmission) and Drop over an "
             "underlying pool with n workers that can be stopped / hard-stopped at any point; TLC checks no overlap, "
             "execution in push order, Called-xor-Dropped exactly once, Drop only after a refusal, balanced references and "
             "happens-before between consecutive bodies exhaustively (2 submitters x 1-2 jobs, 1-2 workers, injected "
             "spurious CAS failures); recorded executions of the real Strand are validated against it.",
        note=CONC_NOTE + "; the underlying executor is the harness pool", design="7/C07",
        technique="TLA+ spec + TLC model checking; schedule enumeration on the code with TLC trace validation"),
    "C08": dict(
        text="ThreadPool.tla models Submit, the worker loop, Stop, SoftStop, HardStop and Wait at mutex / condition-variable "
             "operation granularity (count encoding: jobs queued or running, stop requested, stopped); TLC checks "
             "Called-or-Dropped exactly once, Stop runs everything accepted, SoftStop stops only when idle, nothing runs after "
             "Wait, single-worker FIFO and the absence of lost wake-ups (non-quiescent deadlock) for all interleavings incl. "
             "every notify target; recorded executions of the real pool under the controlled fiber scheduler are validated.",
        note=CONC_NOTE, design="7/C08",
        technique="TLA+ spec + TLC model checking; schedule enumeration on the code with TLC trace validation"),
    "C09": dict(
        text="When.tla models the combinator (per-input SetCallback, inline Consume + DecRef for inputs that are already "
             "complete, the counter, every strategy's atomic protocol and destructor) for All<None|FirstFail> and "
             "Join<None|FirstFail>; TLC checks exactly-once output, the aggregate in input order for every completion "
             "order, 'not before the last input' / 'as soon as the first failure', first-winner real-time constraints and "
             "release-exactly-once exhaustively for n = 2 (n = 3 thorough); recorded executions of WhenAll / Join (static and "
             "dynamic forms) are validated against it with logical-to-address binding inferred by TLC. WhenSeq.tla is a "
             "reference interpreter over sequential completion histories (vector, tuple and Join forms x policy x outcome "
             "pattern x completion order x inputs already complete at set-up x static / dynamic x unique / shared / mixed "
             "inputs): TLC prints the prescribed output and every history is executed on the real API.",
        note=CONC_NOTE + "; concurrent part: unique inputs; sequential histories: n = 2 (quick), n <= 3 (thorough)", design="7/C09",
        technique="TLA+ spec + TLC model checking; schedule enumeration on the code with TLC trace validation; "
                  "TLC-enumerated histories replayed on the code"),
    "C10": dict(
        text="When.tla, strategies Any<None> (_done flag), Any<FirstFail> (3-state word + saved error published by the "
             "destructor) and Any<LastFail> (2*remaining|done parity word): TLC checks exactly-once output, the winner per "
             "policy incl. real-time first/last constraints and release-exactly-once for all outcome patterns and "
             "interleavings (n = 2, n = 3 thorough); recorded executions of WhenAny are validated against it; WhenSeq.tla "
             "enumerates the sequential completion histories of WhenAny (policy x outcomes x order x readiness at set-up x "
             "input kind) with the prescribed winner, executed on the real API.",
        note=CONC_NOTE + "; concurrent part: unique inputs", design="7/C10",
        technique="TLA+ spec + TLC model checking; schedule enumeration on the code with TLC trace validation; "
                  "TLC-enumerated histories replayed on the code"),
    "C11": dict(
        text="Wait.tla models WaitRange (registration, SubEqual of the already-ready futures, timed and untimed event wait, "
             "relaxed Reset per future, SubEqual(reset_count), final wait) and the producers' side at yaclib_std-operation "
             "granularity with a virtual deadline that may pass at any point, followed by a second consumer operation per "
             "future; TLC checks it exhaustively for n <= 2; every schedule with at most two preemptions (n <= 2) and random "
             "schedules (n = 3) of the real code, with the controller firing the fiber clock, are validated against it; the "
             "harness flags any operation of a producer on the waiter's dead stack frame.",
        note=CONC_NOTE, design="7/C11",
        technique="TLA+ spec + TLC model checking; schedule enumeration on the code with TLC trace validation"),
    "C12": dict(
        text="Pipeline.tla in lazy mode: TLC enumerates lazy programs x six ways of starting/abandoning, checks on the "
             "interpreter that a started Task equals its eager twin and that cancellation runs no value callback, and every "
             "program is executed on the real Task API (nothing may run before the start).",
        note=SEQ_NOTE, design="7/C12", technique="TLA+ reference interpreter; TLC-enumerated programs replayed on the code"),
    "C13": dict(
        text="Await.tla models a coroutine that awaits 1-2 futures completed by concurrent producers, for co_await Future, "
             "Await, AwaitSticky and AwaitOn (static and iterator forms): await_ready / await_suspend as the SetCallback load "
             "and CAS on each future's word, the event counter (n + 1, fix-up fetch_sub, acquire read, SubEqual by the "
             "suspender and by every completion), inline resumption vs Submit to the coroutine's own / the named executor, "
             "final_suspend publishing the result and Drop on a rejecting executor; TLC checks: resumed at most once, only "
             "after everything awaited has happened, with the awaited outcomes, dropped only through a rejecting executor "
             "(StopError, no resumption, frame local destroyed once), no data race on the frame or the results; every "
             "schedule of the real coroutine (up to the preemption bound) is validated against the specification by TLC; "
             "a compile probe instantiates all 25 documented awaiting forms. CoroSeq.tla is the sequential reference "
             "interpreter of the whole coroutine layer (Future / SharedFuture / Task coroutines x ways of starting, On, Yield, "
             "CurrentExecutor, co_await / Await / AwaitSticky / AwaitOn of unique, FutureOn and shared futures, Tasks of "
             "every head kind, a second coroutine on the same SharedFuture, rejecting executors): TLC checks resume-once, "
             "where-asked, awaited futures left intact, lazy = eager twin on every program and prints the prescribed log; "
             "every program is executed on the real coroutines in the three symmetric-transfer configurations.",
        note=CONC_NOTE + "; sequential programs: bounded by the cfg constants (<= 2-3 statements), deterministic driver",
        design="7/C13",
        technique="TLA+ spec + TLC model checking; schedule enumeration on the code with TLC trace validation; TLA+ reference "
                  "interpreter with TLC-enumerated programs replayed on the code; compile probe"),
    "C14": dict(
        text="CoMutex.tla models yaclib::Mutex<Batching,FIFO> with the pool's workers as processes and the coroutines as "
             "passive objects: sender word (not locked / locked / LIFO list of new waiters), holder-private receiver list, "
             "TryLockAwait, AwaitLock, TryUnlockAwait, GetHead (reversal under FIFO), the three hand-off variants "
             "(UnlockHereAwait, batched AwaitUnlock, AwaitUnlockOn) and the guard forms, one action per yaclib_std "
             "operation with the plain code in between (suspension, pool loop, take, resumption, symmetric transfer) as "
             "silent program points; TLC checks mutual exclusion, every request granted exactly once, nobody parked at "
             "the end (deadlock freedom; <>Quiescent under weak fairness in thorough), FIFO grant order, and that a "
             "critical section's plain write is ordered before the next section's read (MemModel); executions of real "
             "coroutines on a harness pool are enumerated under the controlled scheduler and validated against the "
             "specification by TLC.",
        note=CONC_NOTE + "; 2-4 coroutines x 1-3 rounds, 1-3 workers; executor = harness pool", design="7/C14",
        technique="TLA+ spec + TLC model checking (safety, deadlock, liveness); schedule enumeration on the code with TLC "
                  "trace validation"),
    "C15": dict(
        text="CoSharedMutex.tla models yaclib::SharedMutex<FIFO,ReadersFIFO>: the packed state word (writers, readers) updated "
             "outside the spinlock, the spinlock itself (exchange / spin / release store), readers queue or stack, writers "
             "list, writers_first, writers_prio, readers_size, the readers_pass credit and the readers_wait debt with its "
             "wrap-around, for LockShared / Lock / TryLockShared / TryLock / UnlockHereShared / UnlockHere with SlowUnlock, "
             "RunWriter, RunReaders and PassReaders, workers as processes and coroutines as passive objects; TLC checks "
             "exclusion (writer overlaps nobody, readers only readers), every request granted exactly once, deadlock "
             "freedom, and that both counter domains are clean at the end (state, readers_wait, readers_pass, queues), "
             "plus data-race freedom of the plain fields and of the protected cell; executions of real coroutines on a "
             "harness pool are enumerated under the controlled scheduler and validated against the specification by TLC. "
             "Spinlock.tla (+MC, liveness, Trace) is the internal lock as a component of its own, validated on the real "
             "yaclib::detail::Spinlock with 2-4 threads; every scenario also runs against the library built without "
             "symmetric transfer.",
        note=CONC_NOTE + "; 2-4 coroutines x 1-3 rounds, 1-3 workers; spin loops scheduled fairly", design="7/C15",
        technique="TLA+ spec + TLC model checking; schedule enumeration on the code with TLC trace validation"),
    "C16": dict(
        text="WaitGroup.tla models the count (AtomicCounter with the Set-on-zero deleter), the event's list head (TryAdd push "
             "vs the exchange of Set), the three kinds of registered jobs (stack Waiter, heap TimedWaiter with two owners, "
             "coroutine promise / awaiter) and Attach / Consume, one action per yaclib_std operation; TLC checks release only "
             "at zero, exactly once, before or after, validity of attached and single release of consumed futures, the "
             "two-owner protocol of the timed waiter and data-race freedom for sources {Done, attached, consumed, bare Set} x "
             "waiters {Wait, WaitFor, co_await inline / sticky / on}; schedules of the real code are enumerated under the "
             "controlled fiber scheduler (the deadline is a controller choice) and every recorded execution is validated "
             "against the specification by TLC.",
        note=CONC_NOTE + "; at most one timed waiter per scenario; no Reset", design="7/C16",
        technique="TLA+ spec + TLC model checking; schedule enumeration on the code with TLC trace validation"),
    "C17": dict(
        text="FiberSched.tla defines every scheduling decision of the fiber scheduler as a function of (list contents, random "
             "draw, pick width) and TLC checks the function is total; eight client programs (thread pool + WhenAll, strand, "
             "timed waits, equal deadlines, coroutines with Mutex, CAS loops) run under the backend's own seeded scheduler with observation hooks, every "
             "recorded draw / pick / resumption / injected yield is validated against FiberSched_Trace by TLC, and the "
             "normalised decision traces and results are compared pairwise: two fresh processes, the same process after "
             "SetSeed + injector reset, one long-lived scheduler across runs (virtual time not reset), and fresh processes restored "
             "from every recorded (random-count, injector-state) pair. The client programs run on a heap that never reuses an "
             "address (and allocates downwards in the second in-process run), so that they are pure functions themselves while "
             "any library decision by address still shows.",
        note="grid of seeds x frequencies {1,2,3,4,5,16} x widths {1,2,3,10} x sleep times {1,7,200}; fiber ids normalised by first appearance; "
             "trusted: TLC, observation hooks, harness/sc_repro.cpp", design="7/C17",
        technique="TLA+ decision function + TLC trace validation of recorded scheduler decisions; differential re-execution"),
    "C18": dict(
        text="FiberSync.tla states the std contracts (compatibility of holders, success / failure conditions of try and "
             "timed acquisitions, wait / notify, sleep, join, TLS) as a state machine over begin / end observations of API "
             "calls; FiberLocks.tla models the fiber implementation of the six lock types with its wait queues and TLC checks "
             "it against the contract (exclusion, no lost wake-up) for 3 fibers x 8 programs; executions of random programs "
             "on the real primitives, with every injection point a controller-chosen scheduling point and the controller "
             "firing the virtual clock, are validated against the contract by TLC.",
        note="one lock + one condition variable per scenario; 2-4 fibers; trusted: TLC, hooks, harness", design="7/C18",
        technique="TLA+ contract + implementation model checked by TLC; TLC trace validation of recorded executions"),
    "C19": dict(
        text="Atomic.tla transcribes the std::atomic<T> operation semantics (limb arithmetic, exact for 8..64 bit); TLC "
             "explores all operation sequences up to the depth bound from boundary initial values, checks the CAS and "
             "fetch/assign contracts on the transcription and prints every sequence with expected return, stored and "
             "`expected` values; each sequence is executed on yaclib_std::atomic<T> in the FIBER re-implementation and the "
             "THREAD wrapper (forced/forbidden spurious weak-CAS failures through the hook) and on std::atomic<T> itself. "
             "Floating values whose sums are rounded, absorbed or overflow form two more kinds (fx32 / fx64): a value is an "
             "index into a table of IEEE-754 sums computed independently of the library (Atomic_fgen.tla, vlib/ieee.py), so "
             "the reference semantics still states fetch_add = (old, correctly rounded old + arg).",
        note="one thread; 12 types + atomic_flag (test_and_set / clear) with atomic_thread_fence / atomic_signal_fence in the "
             "sequences; floating types with integer-valued operands and with tabulated inexact sums (no NaN, no CAS there); atomic_flag::test and wait / notify (futex builds) "
             "not enumerated; trusted: "
             "TLC, harness/sc_atomic.cpp", design="7/C19",
        technique="TLA+ reference semantics; TLC-enumerated operation sequences replayed on both backends"),
    "C20": dict(
        text="Pipeline.tla carries a cost annotation (one allocation per step plus the inner objects a callback creates; "
             "one copy of the value per read out of a SharedFuture, otherwise none); TLC prints the bounds per program and "
             "operator new / value copies are counted while the real API executes each program. Cost.tla states the "
             "rules for combinators (WhenAll / WhenAny / Join, every policy and form: blocks bounded by a constant "
             "independent of the number of inputs, with every input succeeding and with a failing input) and for Wait / "
             "WaitFor / WaitUntil over Future and FutureOn elements in range, (begin, n) and variadic forms / Get / Strand "
             "submission / co_await (no allocation); the harness measures every call for n = 1..N and TLC evaluates the rules "
             "on the measurements.",
        note=SEQ_NOTE + "; measurements n = 1..12 (quick) / 1..64 (thorough)", design="7/C20",
        technique="TLA+ cost annotation / cost rules; TLC-enumerated programs and recorded measurements checked by TLC"),
}

PENDING = ["C02", "C03", "C04", "C05", "C06", "C07", "C08", "C09", "C10", "C11", "C12", "C13", "C14", "C15", "C16", "C17",
           "C18", "C19", "C20"]


def main():
    checks = []
    for pid in sorted(CLAIMED):
        c = CLAIMED[pid]
        checks.append({
            "property_id": pid,
            "quick_cmd": "./check %s --tier quick" % pid,
            "thorough_cmd": "./check %s --tier thorough" % pid,
            "evidence_file": "/verif/evidence/%s.json" % pid,
            "replay_cmd_template": "./check replay {path}",
            "engine": "tlc+vrt",
            "level_claimed": {"category": "model_checking", "text": c["text"], "design_ref": c["design"]},
            "level_note": c["note"],
            "technique": c["technique"],
        })
    m = {
        "version": 1,
        "setup_cmd": "./check setup",
        "hooks": {
            "guard": "YACLIB_VERIF",
            "enable": "cmake -DYACLIB_FAULT=FIBER -DYACLIB_FLAGS=CORO -DYACLIB_CXX_STANDARD=20 -DCMAKE_CXX_FLAGS=-DYACLIB_VERIF "
                      "(done by ./check into /verif/.build/b_<hash of /repo sources>)",
            "baseline_off_cmd": "cmake --build /repo/_build && ctest --test-dir /repo/_build -j8 --timeout 900",
            "source_commits": HOOK_COMMITS,
            "add_only": True,
        },
        "engines": [{"name": "tlc+vrt", "path": "/verif/check", "serves_properties": sorted(CLAIMED),
                     "kind_free_text": "explicit TLA+ specifications checked by TLC; conformance by trace validation of "
                                       "executions recorded from the real code under a controlled fiber scheduler and by "
                                       "replay of TLC behaviours"}],
        "checks": checks,
        "not_applicable": [{"property_id": p, "reason": "check not built yet in this session (work in progress, see DESIGN.md section 10)"}
                           for p in PENDING if p not in CLAIMED],
        "notes": "All checks are driven by /verif/check (python3, stdlib). VERIF_SEED and VERIF_TIER are honoured.",
    }
    with open(os.path.join(VERIF, "MANIFEST.json"), "w") as f:
        json.dump(m, f, indent=1)
        f.write("\n")


HOOK_COMMITS = ["286d692", "d1e7f53", "baaa718"]
FIX_COMMITS = ["8086256", "48cc44a", "6c036e9", "8faf037", "f30eead", "d8002b9", "fc2e11e", "6ed24f0", "79981a2", "38254af", "21bdcf1"]

if __name__ == "__main__":
    main()
