"""Regenerates MANIFEST.json from the table below (python3 -m vlib.manifest_gen)."""
import json
import os

VERIF = os.path.dirname(os.path.dirname(os.path.abspath(__file__)))

CLAIMED = {
    "C01": dict(
        text="TLC checks UniqueCore.tla (one action per yaclib_std operation) exhaustively for every producer kind x consumer kind; "
             "every interleaving of the real code at that granularity is executed under a controlled FIBER scheduler and each "
             "recorded execution is validated against the specification by TLC with all invariants and an abstract monitor of "
             "the observable contract; all behaviours of the bounded model are replayed on the code.",
        note="sequentially consistent interleavings of yaclib_std operations in the FIBER backend; 2 threads; trusted: TLC, the "
             "YACLIB_VERIF hooks, the harness controller",
        design="7/C01", technique="TLA+ spec + TLC model checking; exhaustive schedule enumeration on the code with TLC trace "
                                  "validation; replay of TLC behaviours"),
}

PENDING = ["C02", "C03", "C04", "C05", "C06", "C07", "C08", "C09", "C10", "C11", "C12", "C13", "C14", "C15", "C16", "C17",
           "C18", "C19", "C20"]


def main():
    checks = []
    for pid in sorted(CLAIMED):
        c = CLAIMED[pid]
        checks.append({
            "property_id": pid,
            "quick_cmd": "./check %s --tier quick" % pid,
            "thorough_cmd": "./check %s --tier thorough" % pid,
            "evidence_file": "/verif/evidence/%s.json" % pid,
            "replay_cmd_template": "./check replay {path}",
            "engine": "tlc+vrt",
            "level_claimed": {"category": "model_checking", "text": c["text"], "design_ref": c["design"]},
            "level_note": c["note"],
            "technique": c["technique"],
        })
    m = {
        "version": 1,
        "setup_cmd": "./check setup",
        "hooks": {
            "guard": "YACLIB_VERIF",
            "enable": "cmake -DYACLIB_FAULT=FIBER -DYACLIB_FLAGS=CORO -DYACLIB_CXX_STANDARD=20 -DCMAKE_CXX_FLAGS=-DYACLIB_VERIF "
                      "(done by ./check into /verif/.build/b_<hash of /repo sources>)",
            "baseline_off_cmd": "cmake --build /repo/_build && ctest --test-dir /repo/_build -j8 --timeout 900",
            "source_commits": HOOK_COMMITS,
            "add_only": True,
        },
        "engines": [{"name": "tlc+vrt", "path": "/verif/check", "serves_properties": sorted(CLAIMED),
                     "kind_free_text": "explicit TLA+ specifications checked by TLC; conformance by trace validation of "
                                       "executions recorded from the real code under a controlled fiber scheduler and by "
                                       "replay of TLC behaviours"}],
        "checks": checks,
        "not_applicable": [{"property_id": p, "reason": "check not built yet in this session (work in progress, see DESIGN.md section 10)"}
                           for p in PENDING if p not in CLAIMED],
        "notes": "All checks are driven by /verif/check (python3, stdlib). VERIF_SEED and VERIF_TIER are honoured.",
    }
    with open(os.path.join(VERIF, "MANIFEST.json"), "w") as f:
        json.dump(m, f, indent=1)
        f.write("\n")


HOOK_COMMITS = ["286d692", "d1e7f53"]

if __name__ == "__main__":
    main()
