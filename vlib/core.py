"""Core machinery of the YACLib model-based verification driver (python3, stdlib only).

build cache, harness runner, TLC runner, evidence writer, verdict helpers.
"""
import hashlib
import json
import os
import re
import shutil
import subprocess
import sys
import time
from concurrent.futures import ThreadPoolExecutor

VERIF = os.path.dirname(os.path.dirname(os.path.abspath(__file__)))
REPO = os.environ.get("VERIF_REPO", "/repo")
BUILD_ROOT = os.path.join(VERIF, ".build")
SPEC_DIR = os.path.join(VERIF, "spec")
HARNESS_DIR = os.path.join(VERIF, "harness")
# a run against a scratch copy of the repository (VERIF_REPO) keeps its outputs away from the committed evidence
_SCRATCH = os.environ.get("VERIF_OUT") or (None if REPO == "/repo" else os.path.join(VERIF, "out", "scratch_" + os.path.basename(REPO)))
OUT_DIR = os.path.join(_SCRATCH, "out") if _SCRATCH else os.path.join(VERIF, "out")
EVIDENCE_DIR = os.path.join(_SCRATCH, "evidence") if _SCRATCH else os.path.join(VERIF, "evidence")
GUARD = "YACLIB_VERIF"
NCPU = os.cpu_count() or 4


def log(*a):
    print(*a, file=sys.stderr, flush=True)


def sh(cmd, cwd=None, timeout=None, env=None, check=False, stdin=None):
    """Run a command, return (rc, stdout, stderr). rc = 124 on timeout."""
    try:
        p = subprocess.run(cmd, cwd=cwd, timeout=timeout, env=env, input=stdin, stdout=subprocess.PIPE,
                           stderr=subprocess.PIPE, text=True, shell=isinstance(cmd, str))
        rc, out, err = p.returncode, p.stdout, p.stderr
    except subprocess.TimeoutExpired as e:
        rc = 124
        out = e.stdout.decode() if isinstance(e.stdout, bytes) else (e.stdout or "")
        err = e.stderr.decode() if isinstance(e.stderr, bytes) else (e.stderr or "")
    if check and rc != 0:
        raise RuntimeError("command failed (%d): %s\n%s\n%s" % (rc, cmd, out[-4000:], err[-4000:]))
    return rc, out, err


class MachineryError(Exception):
    """The verification machinery itself failed (build error, TLC parse error, timeout...). Exit code 2."""


# ----------------------------------------------------------------------------------------------- build cache

def _hash_tree(h, root, rels):
    for rel in sorted(rels):
        p = os.path.join(root, rel)
        if os.path.isfile(p):
            h.update(rel.encode())
            with open(p, "rb") as f:
                h.update(hashlib.sha256(f.read()).digest())


def repo_hash():
    h = hashlib.sha256()
    rc, out, _ = sh(["git", "-C", REPO, "ls-files", "-co", "--exclude-standard", "--", "include", "src", "cmake",
                     "CMakeLists.txt"])
    if rc != 0:
        raise MachineryError("git ls-files failed in %s" % REPO)
    _hash_tree(h, REPO, [l for l in out.splitlines() if l])
    return h.hexdigest()[:16]


def harness_hash():
    h = hashlib.sha256()
    _hash_tree(h, HARNESS_DIR, os.listdir(HARNESS_DIR))
    return h.hexdigest()[:16]


LIB_FLAVOURS = {
    # name -> (cmake options, extra compile flags)
    "fiber": (["-DYACLIB_CXX_STANDARD=20", "-DYACLIB_FLAGS=CORO", "-DYACLIB_FAULT=FIBER"], "-O1 -g"),
    "fiber_asan": (["-DYACLIB_CXX_STANDARD=20", "-DYACLIB_FLAGS=CORO;ASAN;UBSAN", "-DYACLIB_FAULT=FIBER"], "-O1 -g"),
    # the coroutine layer without symmetric transfer, under the controlled scheduler
    "fiber_nost": (["-DYACLIB_CXX_STANDARD=20", "-DYACLIB_FLAGS=CORO;DISABLE_SYMMETRIC_TRANSFER", "-DYACLIB_FAULT=FIBER"], "-O1 -g"),
    "thread": (["-DYACLIB_CXX_STANDARD=20", "-DYACLIB_FLAGS=CORO", "-DYACLIB_FAULT=THREAD"], "-O1 -g"),
    "plain": (["-DYACLIB_CXX_STANDARD=20", "-DYACLIB_FLAGS=CORO"], "-O1 -g"),
    # the two other coroutine configurations of cmake/yaclib_flags.cmake
    "plain_nofst": (["-DYACLIB_CXX_STANDARD=20", "-DYACLIB_FLAGS=CORO;DISABLE_FINAL_SUSPEND_TRANSFER"], "-O1 -g"),
    "plain_nost": (["-DYACLIB_CXX_STANDARD=20", "-DYACLIB_FLAGS=CORO;DISABLE_SYMMETRIC_TRANSFER"], "-O1 -g"),
}


def _prune_builds(keep):
    if not os.path.isdir(BUILD_ROOT):
        return
    ents = []
    for d in os.listdir(BUILD_ROOT):
        p = os.path.join(BUILD_ROOT, d)
        if os.path.isdir(p) and d.startswith("b_") and p != keep:
            ents.append((os.path.getmtime(p), p))
    ents.sort()
    now = time.time()
    for mt, p in ents[:-1]:  # keep the most recent other one
        if now - mt < 3 * 3600:
            continue  # possibly in use by a check running concurrently against another tree
        shutil.rmtree(p, ignore_errors=True)


def build_dir():
    d = os.path.join(BUILD_ROOT, "b_" + repo_hash())
    os.makedirs(d, exist_ok=True)
    os.utime(d, None)
    return d


def build_lib(flavour="fiber"):
    """Configure + build libyaclib.a for the current /repo tree with the guard on. Returns (libfile, incdir)."""
    bd = build_dir()
    ld = os.path.join(bd, "lib_" + flavour)
    lib = os.path.join(ld, "src", "libyaclib.a")
    stamp = os.path.join(ld, ".ok")
    if os.path.exists(stamp) and os.path.exists(lib):
        return lib, os.path.join(ld, "include")
    _prune_builds(bd)
    opts, cflags = LIB_FLAVOURS[flavour]
    t0 = time.time()
    cmd = ["cmake", "-G", "Ninja", "-S", REPO, "-B", ld, "-DCMAKE_BUILD_TYPE=None",
           "-DCMAKE_CXX_FLAGS=-D%s %s" % (GUARD, cflags)] + opts
    rc, out, err = sh(cmd, timeout=300)
    if rc != 0:
        raise MachineryError("cmake configure failed:\n" + out[-3000:] + err[-3000:])
    rc, out, err = sh(["cmake", "--build", ld, "-j", str(NCPU)], timeout=1200)
    if rc != 0:
        # the tree does not compile with hooks on: the caller decides what that means
        raise BuildFailure("library build failed:\n" + out[-6000:] + err[-3000:])
    open(stamp, "w").write("ok\n")
    log("[build] lib %s built in %.1fs" % (flavour, time.time() - t0))
    return lib, os.path.join(ld, "include")


class BuildFailure(MachineryError):
    pass


def _san_flags(flavour):
    return ["-fsanitize=address,undefined", "-fno-sanitize-recover=undefined"] if flavour.endswith("asan") else []


def build_harness(name="vrt", sources=None, flavour="fiber", extra_flags=()):
    """Compile harness sources against the current tree; returns the path of the executable."""
    lib, inc = build_lib(flavour)
    bd = build_dir()
    od = os.path.join(bd, "h_%s_%s_%s" % (name, flavour, harness_hash()))
    exe = os.path.join(od, name)
    if os.path.exists(exe):
        return exe
    # drop stale harness builds of the same name/flavour
    for d in os.listdir(bd):
        if d.startswith("h_%s_%s_" % (name, flavour)) and os.path.join(bd, d) != od:
            if time.time() - os.path.getmtime(os.path.join(bd, d)) < 3 * 3600:
                continue  # possibly in use by a check that started before the harness sources changed
            shutil.rmtree(os.path.join(bd, d), ignore_errors=True)
    os.makedirs(od, exist_ok=True)
    if sources is None:
        sources = ["vrt.cpp"] + sorted(f for f in os.listdir(HARNESS_DIR) if f.startswith("sc_") and f.endswith(".cpp"))
    flags = ["-std=c++20", "-fcoroutines", "-O1", "-g", "-D" + GUARD, "-I" + os.path.join(REPO, "include"), "-I" + inc,
             "-I" + os.path.join(REPO, "src"), "-I" + HARNESS_DIR] + _san_flags(flavour) + list(extra_flags)
    t0 = time.time()

    def cc(src):
        obj = os.path.join(od, os.path.basename(src) + ".o")
        rc, out, err = sh(["g++"] + flags + ["-c", os.path.join(HARNESS_DIR, src), "-o", obj], timeout=1200)
        return src, obj, rc, out + err

    with ThreadPoolExecutor(max_workers=min(NCPU, len(sources))) as ex:
        res = list(ex.map(cc, sources))
    for src, obj, rc, msg in res:
        if rc != 0:
            raise BuildFailure("harness compile failed for %s:\n%s" % (src, msg[-6000:]))
    rc, out, err = sh(["g++"] + _san_flags(flavour) + [o for _, o, _, _ in res] + [lib, "-o", exe + ".tmp", "-lpthread"],
                      timeout=600)
    if rc != 0:
        raise BuildFailure("harness link failed:\n" + (out + err)[-6000:])
    os.replace(exe + ".tmp", exe)
    log("[build] harness %s/%s built in %.1fs" % (name, flavour, time.time() - t0))
    return exe


# ----------------------------------------------------------------------------------------------- harness runs

def run_vrt(exe, scenario, params, mode="dfs", max_execs=200000, seed=1, preempt=None, stdin=None, timeout=600, tailsplit=0):
    """Run the harness; returns (lines(list of dict), summary dict or None, crashed(bool), raw stderr)."""
    cmd = [exe, scenario] + ["%s=%s" % kv for kv in sorted(params.items())] + ["--mode", mode, "--max", str(max_execs),
                                                                                "--seed", str(seed)]
    if preempt is not None:
        cmd += ["--preempt", str(preempt)]
    if tailsplit:
        cmd += ["--tailsplit", str(tailsplit)]
    env = dict(os.environ)
    env.setdefault("ASAN_OPTIONS", "detect_leaks=0:abort_on_error=1:detect_stack_use_after_return=0")
    rc, out, err = sh(cmd, timeout=timeout, stdin=stdin, env=env)
    lines = []
    for ln in out.splitlines():
        ln = ln.strip()
        if not ln.startswith("{"):
            continue
        try:
            lines.append(json.loads(ln))
        except ValueError:
            pass
    summary = None
    if lines and lines[-1].get("e") == "summary":
        summary = lines.pop()
    crashed = rc != 0 or summary is None
    if crashed and (not lines or lines[-1].get("e") != "crash"):
        lines.append({"e": "crash", "signal": rc, "choices": [], "sched": [], "stderr": err[-2000:]})
    return lines, summary, crashed, err


def split_execs(lines):
    """Split harness lines into executions (each starts with a begin record)."""
    execs, cur = [], None
    for r in lines:
        if r.get("e") == "begin":
            cur = [r]
            execs.append(cur)
        elif cur is not None:
            cur.append(r)
    return execs


# ----------------------------------------------------------------------------------------------- TLC

TLC_JAR = "/opt/veriftools/tla/tla2tools.jar"


class TlcResult:
    def __init__(self):
        self.rc = 0
        self.out = ""
        self.generated = 0
        self.distinct = 0
        self.depth = 0
        self.violated = []  # names of violated invariants / properties
        self.post_false = False
        self.deadlock = False
        self.prints = []  # PrintT tuples whose first element is a string tag: (tag, rest-of-line)
        self.error = None  # machinery-level error text
        self.last_state = None
        self.wall = 0.0
        self.cmd = ""
        self.coverage = {}


def workdir(tag):
    # scratch runs (another tree, or an explicit VERIF_OUT) keep their TLC work files to themselves, so that they can run
    # next to a regular run of the same specification
    d = os.path.join(_SCRATCH, "tla_" + tag) if _SCRATCH else os.path.join(build_dir(), "tla_" + tag)
    os.makedirs(d, exist_ok=True)
    for f in os.listdir(SPEC_DIR):
        if f.endswith(".tla") or f.endswith(".cfg"):
            shutil.copy2(os.path.join(SPEC_DIR, f), os.path.join(d, f))
    return d


def run_tlc(wd, module, cfg, workers=1, timeout=600, env_extra=None, simulate=None, depth=None, heap="4g",
            extra=(), coverage=False, seed=None, meta_tag=""):
    meta = os.path.join(wd, "meta_%s_%d%s" % (cfg.replace(".cfg", ""), os.getpid(), meta_tag))
    shutil.rmtree(meta, ignore_errors=True)
    cmd = ["java", "-XX:+UseParallelGC", "-Xmx" + heap, "-cp", TLC_JAR + ":/opt/veriftools/tla/CommunityModules-deps.jar",
           "tlc2.TLC", "-workers", str(workers), "-noGenerateSpecTE", "-metadir", meta, "-config", cfg]
    if simulate:
        cmd += ["-simulate", "num=%d" % simulate]
        if depth:
            cmd += ["-depth", str(depth)]
    if seed is not None:
        cmd += ["-seed", str(seed)]
    if coverage:
        cmd += ["-coverage", "1"]
    cmd += list(extra) + [module]
    env = dict(os.environ)
    if env_extra:
        env.update(env_extra)
    t0 = time.time()
    rc, out, err = sh(cmd, cwd=wd, timeout=timeout, env=env)
    shutil.rmtree(meta, ignore_errors=True)
    r = TlcResult()
    r.rc, r.out, r.wall = rc, out + err, time.time() - t0
    r.cmd = "cd %s && %s" % (wd, " ".join(cmd))
    m = re.search(r"(\d+) states generated, (\d+) distinct states found", out)
    if m:
        r.generated, r.distinct = int(m.group(1)), int(m.group(2))
    m = re.search(r"depth of the complete state graph search is (\d+)", out)
    if m:
        r.depth = int(m.group(1))
    for m in re.finditer(r"Invariant (\S+) is violated", out):
        r.violated.append(m.group(1))
    for m in re.finditer(r"Temporal properties were violated|Action property (\S+) is violated", out):
        r.violated.append(m.group(1) or "temporal")
    if "Postcondition" in out and "is false" in out:
        r.post_false = True
    if "Deadlock reached" in out:
        r.deadlock = True
    # PrintT(<<"TAG", value>>): TLC's pretty printer may break a long tuple over several lines
    for m in re.finditer(r'^<<\s*"([A-Z_]+)",\s*(.*?)\s*>>$', out, re.M | re.S):
        if "\n<<" in m.group(2):
            continue
        r.prints.append((m.group(1), m.group(2)))
    if rc == 124:
        r.error = "TLC timed out after %ss" % timeout
    elif not (r.generated or r.violated or r.deadlock) and ("Error:" in out or "error" in out.lower()):
        r.error = out[-3000:]
    elif re.search(r"Parsing or semantic analysis failed|Error: (?!.*(Invariant|Postcondition|Deadlock))", out) and not (
            r.violated or r.post_false or r.deadlock):
        if "Model checking completed. No error has been found" not in out:
            r.error = out[-3000:]
    # last state of an error trace: pick variable "l" if present
    states = re.split(r"\nState \d+: ", out)
    if len(states) > 1:
        r.last_state = states[-1]
    return r


def tla_str(s):
    return '"' + s.replace("\\", "\\\\").replace('"', '\\"') + '"'


def tla_seq(xs):
    return "<<" + ", ".join(tla_str(x) for x in xs) + ">>"


def json_of_print(rest):
    """PrintT(<<"TAG", ToJson(x)>>) prints the JSON as a TLA+ string literal; decode it."""
    rest = rest.strip()
    if rest.startswith('"'):
        # TLA+ string escaping is compatible with JSON string escaping for our data
        return json.loads(json.loads(rest))
    return rest


# ----------------------------------------------------------------------------------------------- evidence / verdicts

class Report:
    """Accumulates what a check run covered and found; writes evidence and prints the verdict lines."""

    def __init__(self, prop, tier, seed):
        self.prop = prop
        self.tier = tier
        self.seed = seed
        self.t0 = time.time()
        self.states = 0
        self.transitions = 0
        self.traces = 0
        self.executions = 0
        self.samples = []
        self.violations = []  # dicts {key, what, replay}
        self.known_hit = []
        self.drift = []
        self.notes = []
        self.configs = []
        self.tlc_cmds = []
        self.extra = {}
        self.exhaustive = True
        self.assumptions = []

    def add_tlc(self, r, what):
        self.states += r.distinct
        self.transitions += r.generated
        self.tlc_cmds.append(r.cmd)
        self.configs.append({"what": what, "distinct_states": r.distinct, "states_generated": r.generated,
                             "depth": r.depth, "wall_s": round(r.wall, 2)})

    def violation(self, key, what, replay_obj):
        self.violations.append({"key": key, "what": what, "replay": replay_obj})

    def finish(self, known):
        """Apply the known-findings policy, write evidence, print verdict lines; returns exit code."""
        os.makedirs(EVIDENCE_DIR, exist_ok=True)
        os.makedirs(os.path.join(OUT_DIR, self.prop), exist_ok=True)
        rc = 0
        real = []
        seen_known = set()
        for v in self.violations:
            k = known.get((self.prop, v["key"]))
            if k is not None and k.get("status") == "known":
                if v["key"] not in seen_known:
                    print("KNOWN-FINDING: property=%s %s" % (self.prop, k.get("what", v["what"])))
                    seen_known.add(v["key"])
                    self.known_hit.append(v["key"])
                continue
            real.append(v)
        reported = set()
        suppressed = 0
        for i, v in enumerate(real):
            if v["key"] in reported:
                continue
            if len(reported) >= 25:
                suppressed += 1
                continue
            reported.add(v["key"])
            path = os.path.join(OUT_DIR, self.prop, "violation_%d.json" % len(reported))
            with open(path, "w") as f:
                json.dump({"property": self.prop, "key": v["key"], "what": v["what"], "replay": v["replay"]}, f, indent=1)
            print("VIOLATION property=%s replay=%s" % (self.prop, path))
            print("  key=%s: %s" % (v["key"], v["what"]))
            rc = 1
        if suppressed:
            print("  ... and %d more violating cells (not listed)" % suppressed)
        for d in self.drift[:5]:
            print("DRIFT property=%s %s" % (self.prop, d))
        cov = {
            "states": max(self.states, 1),
            "transitions": max(self.transitions, 1),
            "traces_validated_against_impl": self.traces,
            "samples": self.samples[:6] if self.samples else [{"note": "no sample recorded"}],
            "exhaustive": bool(self.exhaustive),
            "evaluations": self.executions,
            "configurations": self.configs,
            "tlc_cmds": self.tlc_cmds[:12],
            "conformant": not self.drift,
            "drift": self.drift[:10],
            "known_findings_hit": self.known_hit,
            "notes": self.notes[:20],
        }
        cov.update(self.extra)
        ev = {
            "property_id": self.prop,
            "tier": self.tier,
            "seed": int(self.seed),
            "level": "model_checking",
            "coverage": cov,
            "assumptions": self.assumptions,
            "wall_s": round(time.time() - self.t0, 2),
            "violations": len(reported),
        }
        with open(os.path.join(EVIDENCE_DIR, self.prop + ".json"), "w") as f:
            json.dump(ev, f, indent=1)
        if rc == 0:
            print("OK property=%s tier=%s states=%d transitions=%d traces=%d wall=%.1fs%s" % (
                self.prop, self.tier, self.states, self.transitions, self.traces, time.time() - self.t0,
                " (known findings: %d)" % len(self.known_hit) if self.known_hit else ""))
        return rc


def load_known():
    known = {}
    p = os.path.join(VERIF, "known_findings.jsonl")
    if os.path.exists(p):
        for ln in open(p):
            ln = ln.strip()
            if not ln or ln.startswith("#"):
                continue
            r = json.loads(ln)
            known[(r["property"], r["key"])] = r
    return known
