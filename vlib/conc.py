"""Generic pipeline for the concurrent specifications:

  harness (real code, controlled scheduler)  --all interleavings / random-->  recorded executions
  TLC  <Spec>_Trace   : every recorded execution is a behaviour of the specification (code => spec),
                        all invariants + memory model evaluated along it, abstract monitor for the property
  TLC  <Spec>_MC      : bounded exhaustive model check with the memory orders extracted from the code
  TLC  <Spec>_paths   : all behaviours of the bounded model, replayed on the real code (spec => code)
"""
import json
import threading
import time
import os
import re

from . import core
from .core import log, MachineryError

EVENT_KEYS = ("p", "a", "o", "old", "new", "ok", "spur", "obs", "done")


class ConcSpec:
    def __init__(self, name, scenario, grid, inv_props, primary, mc_cfgs=(), paths_cfg=None, trace_cfg=None,
                 dfs_max=20000, rand_execs=0, preempt=None, scen_keys=None, trace_workers=1, gen_module=None,
                 rand_grid=None, paths_max=4000, trace_timeout=900, tail_execs=40, replay_logical=(), replay_skip_none=False, tail_boost=(), tail_boost_execs=400, tail_boost_preempt=1,
                 drift_boost_execs=1500, flavour="fiber"):
        self.name = name
        self.scenario = scenario
        self.grid = grid
        self.inv_props = inv_props  # invariant name -> property id
        self.primary = primary  # property id for invariants not listed
        self.mc_cfgs = list(mc_cfgs)  # (cfg, workers, timeout_s, description)
        self.paths_cfg = paths_cfg
        self.trace_cfg = trace_cfg or (name + "_Trace.cfg")
        self.dfs_max = dfs_max
        self.rand_execs = rand_execs
        self.preempt = preempt
        self.scen_keys = scen_keys
        self.gen_module = gen_module or (name + "_gen")
        self.rand_grid = rand_grid
        self.paths_max = paths_max
        self.trace_timeout = trace_timeout
        self.tail_execs = tail_execs
        self.tail_boost = list(tail_boost)  # grid entries whose interesting window is a plain-code tail: more tail-split runs
        self.tail_boost_execs = tail_boost_execs
        self.tail_boost_preempt = tail_boost_preempt
        # when recorded executions drift from the specification (the code was restructured), the specification's own
        # invariants are silent from the drift on: the exploration is deepened instead (judged by the monitors only)
        self.drift_boost_execs = drift_boost_execs
        self.flavour = flavour  # library configuration the scenario is built against
        self.replay_skip_none = replay_skip_none  # "none" events (plain code before the first operation) consume no decision
        self.replay_logical = set(replay_logical)  # object names the specification uses logically (bound at first use)


def params_key(p):
    return ",".join("%s=%s" % kv for kv in sorted(p.items()))


def canon(r):
    """canonical comparison form of a harness record or of a TLC event"""
    if r.get("e") == "robs" or r.get("p") == "root":
        return ("root", json.dumps(r.get("obs"), sort_keys=True))
    return event_proj(r)


def event_proj(r):
    return tuple(json.dumps(r.get(k), sort_keys=True) for k in EVENT_KEYS)


def write_gen(wd, module, sites):
    """sites: list of [site, ord, ford, fences]"""
    table = {}
    conflicts = []
    for s, o, f, fences in sites:
        val = (o, f, tuple(fences))
        if s in table and table[s] != val:
            conflicts.append(s)
            continue
        table[s] = val
    parts = []
    for s, (o, f, fences) in sorted(table.items()):
        parts.append('(%s :> [o |-> %s, f |-> %s, fences |-> %s])' % (core.tla_str(s), core.tla_str(o), core.tla_str(f),
                                                                       core.tla_seq(list(fences))))
    body = " @@\n  ".join(parts) if parts else '("-" :> [o |-> "sc", f |-> "sc", fences |-> <<>>])'
    with open(os.path.join(wd, module + ".tla"), "w") as f:
        f.write("---- MODULE %s ----\n\\* generated from the running code by the driver: memory orders per site\nEXTENDS TLC\n"
                "OrdTable ==\n  %s\n====\n" % (module, body))
    return table, conflicts


def collect_traces(rep, spec, exe, tier, seed):
    """Run the harness over the scenario grid. Returns list of executions (list of records)."""
    execs = []
    if spec.preempt is not None:
        rep.exhaustive = False
        rep.notes.append("%s: schedules enumerated exhaustively up to %d preemptions per execution" % (spec.scenario, spec.preempt))
    for params in spec.grid:
        lines, summary, crashed, err = core.run_vrt(exe, spec.scenario, params, mode="dfs", max_execs=spec.dfs_max,
                                                    seed=seed, preempt=spec.preempt)
        ex = core.split_execs(lines)
        if crashed:
            crash = lines[-1] if lines and lines[-1].get("e") == "crash" else {}
            rep.violation("crash/%s/%s" % (spec.scenario, params_key(params)),
                          "the harness process died (signal/exit %s) while executing a schedule of scenario %s %s" % (
                              crash.get("signal"), spec.scenario, params_key(params)),
                          {"scenario": spec.scenario, "params": params, "choices": crash.get("choices"),
                           "sched": crash.get("sched"), "stderr": crash.get("stderr", err[-1500:])})
            # the last (incomplete) execution cannot be validated
            ex = [e for e in ex if e and e[-1].get("e") == "end"]
        if summary is not None and not summary.get("complete", False):
            rep.exhaustive = False
            rep.notes.append("DFS of %s %s stopped at %d executions (not exhaustive)" % (spec.scenario, params_key(params),
                                                                                          summary.get("executions", 0)))
        execs.extend(ex)
    grid = spec.rand_grid if spec.rand_grid is not None else spec.grid
    if spec.rand_execs > 0:
        for i, params in enumerate(grid):
            lines, summary, crashed, err = core.run_vrt(exe, spec.scenario, params, mode="rand", max_execs=spec.rand_execs,
                                                        seed=seed * 1000 + i)
            ex = core.split_execs(lines)
            if crashed:
                crash = lines[-1] if lines and lines[-1].get("e") == "crash" else {}
                rep.violation("crash/%s/%s" % (spec.scenario, params_key(params)),
                              "the harness process died while executing a random schedule of scenario %s %s" % (
                                  spec.scenario, params_key(params)),
                              {"scenario": spec.scenario, "params": params, "choices": crash.get("choices"),
                               "sched": crash.get("sched")})
                ex = [e for e in ex if e and e[-1].get("e") == "end"]
            execs.extend(ex)
    # tail-split runs: preemption right after a visible operation, judged by the abstract monitors only
    tail_jobs = []
    if spec.tail_execs > 0:
        for i, params in enumerate(list(spec.grid) + list(grid if spec.rand_execs > 0 else [])):
            if params not in spec.tail_boost:
                tail_jobs.append((params, dict(mode="rand", max_execs=spec.tail_execs, seed=seed * 7919 + i, tailsplit=2)))
    for params in spec.tail_boost:
        # the interesting window is a plain-code tail: every schedule with one tail split and a few preemptions
        tail_jobs.append((params, dict(mode="dfs", max_execs=spec.tail_boost_execs, seed=seed, preempt=spec.tail_boost_preempt,
                                       tailsplit=1)))
    for params, kw in tail_jobs:
        lines, summary, crashed, err = core.run_vrt(exe, spec.scenario, params, **kw)
        ex = core.split_execs(lines)
        if crashed:
            crash = lines[-1] if lines and lines[-1].get("e") == "crash" else {}
            rep.violation("crash/%s/%s" % (spec.scenario, params_key(params)),
                          "the harness process died while executing a schedule of scenario %s %s that preempts a thread "
                          "between a visible operation and the plain code after it" % (spec.scenario, params_key(params)),
                          {"scenario": spec.scenario, "params": params, "choices": crash.get("choices"),
                           "sched": crash.get("sched"), "tailsplit": kw["tailsplit"]})
            ex = [e for e in ex if e and e[-1].get("e") == "end"]
        execs.extend(ex)
    return execs


def collect_drift_boost(rep, spec, exe, seed):
    """Recorded executions no longer follow the specification: from the point of drift on only the abstract monitors judge
    them, so many more schedules are explored (random, with and without tail splits, larger configurations first)."""
    t0 = time.time()
    budget = 300.0
    configs = list(spec.rand_grid or []) + list(spec.tail_boost) + list(spec.grid)
    seen, uniq = set(), []
    for p in configs:
        k = params_key(p)
        if k not in seen:
            seen.add(k)
            uniq.append(p)
    execs = []
    n_runs = 0
    for i, params in enumerate(uniq[:10]):
        if "weak" not in params:
            # compare_exchange_weak may fail spuriously wherever it is used: one such failure per execution
            params = dict(params, weak="1")
        for split in (0, 2):
            if time.time() - t0 > budget:
                break
            lines, summary, crashed, err = core.run_vrt(exe, spec.scenario, params, mode="rand", max_execs=spec.drift_boost_execs,
                                                        seed=seed * 104729 + 2 * i + (1 if split else 0), tailsplit=split,
                                                        timeout=200)
            ex = core.split_execs(lines)
            if crashed:
                crash = lines[-1] if lines and lines[-1].get("e") == "crash" else {}
                rep.violation("crash/%s/%s" % (spec.scenario, params_key(params)),
                              "the harness process died while executing a random schedule of scenario %s %s (exploration "
                              "deepened after the executions drifted from the specification)" % (spec.scenario, params_key(params)),
                              {"scenario": spec.scenario, "params": params, "choices": crash.get("choices"),
                               "sched": crash.get("sched"), "tailsplit": split})
                ex = [e for e in ex if e and e[-1].get("e") == "end"]
            for e in ex:
                e[0]["boost"] = True
            execs.extend(ex)
            n_runs += len(ex)
    rep.notes.append("%s: the recorded executions drift from the specification; %d more random schedules explored and judged by "
                     "the abstract monitors only" % (spec.scenario, n_runs))
    return execs


def _line_of_state(state_text):
    m = re.search(r"/\\ l = (\d+)", state_text or "")
    return int(m.group(1)) if m else None


class _Collector:
    """what a chunk of trace validation found; merged into the Report afterwards (chunks run in parallel)"""

    def __init__(self):
        self.tlc = []
        self.drift = []
        self.violations = []
        self.notes = []
        self.sites = {}
        self.ok = 0
        self.error = None


def _abs_cfg(spec, wd):
    """trace cfg with only the abstract-monitor invariants (for tail-split executions)"""
    src = os.path.join(wd, spec.trace_cfg)
    dst = spec.trace_cfg.replace(".cfg", "_Abs.cfg")
    out, in_inv = [], False
    for ln in open(src).read().splitlines():
        st = ln.strip()
        if st.startswith("INVARIANT"):
            in_inv = True
            names = [n for n in st.split()[1:] if n.startswith("Abs")]
            out.append("INVARIANTS " + " ".join(names))
            continue
        if in_inv and st and not st.split()[0].isupper():
            out.append("  " + " ".join(n for n in st.split() if n.startswith("Abs")))
            continue
        in_inv = False
        out.append(ln)
    text = "\n".join(out) + "\n"
    path = os.path.join(wd, dst)
    try:
        if open(path).read() == text:
            return dst
    except OSError:
        pass
    # several chunks are validated in parallel: never let one of them see a half-written file
    tmp = "%s.%d.%d.tmp" % (path, os.getpid(), threading.get_ident())
    with open(tmp, "w") as f:
        f.write(text)
    os.replace(tmp, path)
    return dst


def _validate_chunk(spec, wd, execs, want, tag, abs_only=False):
    col = _Collector()
    cfg = _abs_cfg(spec, wd) if abs_only else spec.trace_cfg
    remaining = list(execs)
    rounds = 0
    while remaining and rounds < 6:
        rounds += 1
        path = os.path.join(wd, "%s_%s_%d.ndjson" % (spec.name, tag, rounds))
        starts = []
        n = 0
        with open(path, "w") as f:
            for ex in remaining:
                starts.append(n + 1)
                for r in ex:
                    f.write(json.dumps(r) + "\n")
                    n += 1
        r = core.run_tlc(wd, spec.name + "_Trace.tla", cfg, workers=1, timeout=spec.trace_timeout,
                         env_extra={"TRACE": path}, heap="3g", meta_tag=tag)
        col.tlc.append((r, "trace validation of %d recorded executions against %s_Trace" % (len(remaining), spec.name)))
        if r.error and not r.violated and not r.post_false:
            col.error = "TLC failed on trace validation of %s:\n%s" % (spec.name, r.error)
            return col
        reached = None
        for tg, rest in r.prints:
            if tg == "SITES":
                for s in core.json_of_print(rest):
                    col.sites.setdefault(s[0], set()).add((s[1], s[2], tuple(s[3])))
            elif tg == "DRIFT":
                dl = core.json_of_print(rest)
                if dl:
                    first = {}
                    for ln in sorted(dl):
                        idx = max(i for i, s in enumerate(starts) if s <= ln)
                        first.setdefault(idx, ln)
                    for idx, ln in sorted(first.items()):
                        ex = remaining[idx]
                        if ex[0].get("tailsplit") or ex[0].get("boost") or len(col.drift) >= 5:
                            continue  # tail-split executions are expected to leave the slice structure
                        col.drift.append("%s %s: line %d of the execution has no matching action in %s: %s" % (
                            spec.scenario, params_key(ex[0].get("params", {})), ln - starts[idx] + 1, spec.name,
                            json.dumps(ex[ln - starts[idx]])[:300]))
            elif tg == "REACHED":
                m = re.match(r"(\d+), (\d+)", rest)
                if m:
                    reached = int(m.group(1))
        if not r.violated and not r.post_false:
            col.ok += len(remaining)
            remaining = []
            break
        if r.violated:
            ln = _line_of_state(r.last_state)
            bad_line = (ln - 1) if ln else None
        else:
            bad_line = reached
        if bad_line is None:
            col.error = "cannot locate the failing trace line in TLC output:\n" + r.out[-3000:]
            return col
        idx = max(i for i, s in enumerate(starts) if s <= bad_line)
        ex = remaining[idx]
        end = ex[-1] if ex[-1].get("e") in ("end", "crash") else {}
        params = ex[0].get("params", {})
        rel = bad_line - starts[idx]
        if r.violated:
            inv = r.violated[0]
            prop = spec.inv_props.get(inv, spec.primary)
            fin = end.get("final") or {}
            if inv == "AbsEnd" and any(str(fin.get(k, "0")) not in ("0", "") for k in ("live", "locals_live", "flive")):
                # something the library owns is still alive at the end: that is C03's business as well
                prop = tuple(prop if isinstance(prop, (tuple, list)) else (prop,)) + ("C03",)
            what = "invariant %s of %s_Trace is violated by a recorded execution of scenario %s %s at its line %d: %s" % (
                inv, spec.name, spec.scenario, params_key(params), rel + 1, json.dumps(ex[min(rel, len(ex) - 1)])[:400])
            if ex[0].get("tailsplit") and not inv.startswith("Abs"):  # (kept for chunks validated with the full cfg)
                # a tail-split execution cuts slices in two (the fences / plain accesses of the second half are logged
                # with a later event): the specification's own state is not meaningful there, only the monitors are
                col.notes.append("tail-split execution of %s %s judged by the abstract monitors only (%s not evaluated)" % (
                    spec.scenario, params_key(params), inv))
            elif _wanted(prop, want):
                col.violations.append(("%s/%s/%s" % (inv, spec.scenario, _scen_only(params, spec)), what,
                                       {"scenario": spec.scenario, "params": params, "choices": end.get("choices"),
                                        "sched": end.get("sched"), "invariant": inv, "line": rel + 1, "events": ex}))
            else:
                col.notes.append("(belongs to %s) %s" % (prop, what[:300]))
        else:
            col.error = "trace validation of %s is stuck at line %d (%s); the trace specification must be total" % (
                spec.name, bad_line, json.dumps(ex[min(rel, len(ex) - 1)])[:300])
            return col
        col.ok += idx
        remaining = remaining[idx + 1:]
    return col


def validate_traces(rep, spec, wd, execs, want, tag="trace"):
    """TLC trace validation of the executions, in parallel chunks. Returns (sites, n_ok)."""
    from concurrent.futures import ThreadPoolExecutor
    target = 25000  # trace lines per chunk
    chunks, tail_chunks = [], set()
    # tail-split executions cut slices in two (a fence may land in the second half): validated in chunks of their own,
    # their memory orders are not used to instantiate the model
    for is_tail in (False, True):
        cur, n = [], 0
        for ex in execs:
            if bool(ex[0].get("tailsplit") or ex[0].get("boost")) != is_tail:
                continue
            cur.append(ex)
            n += len(ex)
            if n >= target:
                if is_tail:
                    tail_chunks.add(len(chunks))
                chunks.append(cur)
                cur, n = [], 0
        if cur:
            if is_tail:
                tail_chunks.add(len(chunks))
            chunks.append(cur)
    with ThreadPoolExecutor(max_workers=min(6, max(1, len(chunks)))) as pool:
        cols = list(pool.map(lambda a: _validate_chunk(spec, wd, a[1], want, "%s%d" % (tag, a[0]), abs_only=a[0] in tail_chunks),
                             enumerate(chunks)))
    sites = {}
    total_ok = 0
    for ci, col in enumerate(cols):
        for r, what in col.tlc:
            rep.add_tlc(r, what)
        if col.error:
            raise MachineryError(col.error)
        for k, v in col.sites.items():
            if ci not in tail_chunks:
                sites.setdefault(k, set()).update(v)
        rep.drift.extend(col.drift)
        rep.notes.extend(col.notes)
        for key, what, replay in col.violations:
            rep.violation(key, what, replay)
        total_ok += col.ok
    return sites, total_ok


def _wanted(prop, want):
    """an invariant may belong to several properties (e.g. NoRace of CoMutex: C14 and C04)"""
    props = prop if isinstance(prop, (tuple, list, set)) else (prop,)
    return bool(set(props) & set(want))


def _scen_only(params, spec):
    keys = spec.scen_keys or sorted(params.keys())
    return ",".join("%s=%s" % (k, params.get(k)) for k in keys)


def parse_error_trace(out):
    """Return list of ev.p values of a TLC error trace (schedule), skipping the initial state."""
    sched = []
    for st in re.split(r"\nState \d+: ", out)[2:]:
        m = re.search(r'/\\ ev = \[([^\n]*(?:\n(?!/\\)[^\n]*)*)', st)
        if not m:
            continue
        pm = re.search(r'p \|-> "([^"]+)"', m.group(1))
        if pm and pm.group(1) not in ("-", "root"):
            sched.append(pm.group(1))
    return sched


def model_check(rep, spec, wd, want, tier):
    for cfg, workers, timeout, what in spec.mc_cfgs:
        r = core.run_tlc(wd, spec.name + "_MC.tla", cfg, workers=workers, timeout=timeout, heap="12g")
        rep.add_tlc(r, what)
        if r.error and not r.violated and not r.deadlock:
            raise MachineryError("TLC failed on %s/%s:\n%s" % (spec.name, cfg, r.error))
        names = list(r.violated) + (["Deadlock"] if r.deadlock else [])
        for inv in names:
            prop = spec.inv_props.get(inv, spec.primary)
            sched = parse_error_trace(r.out)
            what_v = ("TLC: %s violated in %s (%s), instantiated with the memory orders extracted from the current tree; "
                      "counterexample schedule %s" % (inv, spec.name + "_MC", cfg, ",".join(sched)))
            tail = r.out[r.out.find("Error:"):][:6000]
            if _wanted(prop, want):
                rep.violation("%s/model/%s" % (inv, spec.name), what_v, {"tlc_cfg": cfg, "tlc_module": spec.name + "_MC",
                                                                         "sched": sched, "tlc_trace": tail})
            else:
                rep.notes.append("(belongs to %s) %s" % (prop, what_v[:300]))


def replay_paths(rep, spec, wd, exe):
    """All behaviours of the bounded model are executed on the real code and compared event by event."""
    if not spec.paths_cfg:
        return 0
    r = core.run_tlc(wd, spec.name + "_MC.tla", spec.paths_cfg, workers=1, timeout=600, heap="6g")
    rep.add_tlc(r, "behaviour extraction (%s)" % spec.paths_cfg)
    if r.error:
        raise MachineryError("TLC failed on %s/%s:\n%s" % (spec.name, spec.paths_cfg, r.error))
    behaviours = [core.json_of_print(rest) for tg, rest in r.prints if tg == "BEHAVIOUR"]
    if len(behaviours) > spec.paths_max:
        rep.notes.append("%d behaviours, replaying the first %d" % (len(behaviours), spec.paths_max))
        behaviours = behaviours[:spec.paths_max]
    if not behaviours:
        rep.notes.append("no behaviours printed by %s" % spec.paths_cfg)
        return 0
    stdin = []
    for b in behaviours:
        evs = [e for e in b["evs"] if e["p"] != "root"]
        if spec.replay_skip_none:
            evs = [e for e in evs if e.get("a") != "none"]
        sched = [e["p"] for e in evs]
        for k, e in enumerate(evs):
            if e.get("spur"):
                # the failure is decided in the tail of the same process' previous slice
                for j in range(k - 1, -1, -1):
                    if evs[j]["p"] == e["p"]:
                        sched[j] += "^"
                        break
        stdin.append(",".join("%s=%s" % kv for kv in sorted(b["scen"].items())) + "|" + ",".join(sched))
    lines, summary, crashed, err = core.run_vrt(exe, spec.scenario, {}, mode="replay", stdin="\n".join(stdin) + "\n")
    execs = core.split_execs(lines)
    ok = 0
    mism = 0
    for b, ex in zip(behaviours, execs):
        got_recs = [x for x in ex if x.get("e") in ("op", "robs")]
        if spec.replay_skip_none:
            # plain code before a process's first operation is emitted where the process is primed, not where the
            # specification's interleaving puts it: such events are not compared
            got_recs = [x for x in got_recs if x.get("a") != "none"]
            b = dict(b, evs=[e for e in b["evs"] if e.get("a") != "none"])
        if spec.replay_logical and len(got_recs) == len(b["evs"]):
            # bind the specification's logical object names to what the code used: the first use decides
            bind = {}
            for e, x in zip(b["evs"], got_recs):
                if (x.get("e") == "op" and e.get("o") in spec.replay_logical and e["o"] not in bind
                        and x.get("o") not in bind.values()):
                    bind[e["o"]] = x.get("o")
            inv = {v: k for k, v in bind.items()}
            got_recs = [dict(x, o=inv.get(x.get("o"), x.get("o"))) if x.get("e") == "op" else x for x in got_recs]
        got = [canon(x) for x in got_recs]
        exp = [canon(e) for e in b["evs"]]
        end = ex[-1] if ex and ex[-1].get("e") == "end" else {}
        same = got == exp
        if same and end.get("status") == "ok" and end.get("final") == b.get("final"):
            ok += 1
            if len(rep.samples) < 3:
                rep.samples.append({"kind": "TLC behaviour replayed on the code", "scen": b["scen"],
                                    "schedule": [e["p"] for e in b["evs"]],
                                    "events": [{k: e[k] for k in ("p", "a", "o", "old", "new")} for e in b["evs"]],
                                    "final": end.get("final")})
        else:
            mism += 1
            if mism <= 3:
                rep.drift.append("replay of a TLC behaviour of %s (%s) diverged: expected %s got %s / end %s" % (
                    spec.name, json.dumps(b["scen"]), json.dumps(b["evs"])[:300],
                    json.dumps([x for x in ex if x.get("e") in ("op", "robs")])[:300], json.dumps(end)[:200]))
    if len(execs) != len(behaviours):
        rep.drift.append("replay produced %d executions for %d behaviours" % (len(execs), len(behaviours)))
    rep.extra.setdefault("behaviours_replayed", 0)
    rep.extra["behaviours_replayed"] += ok
    rep.extra.setdefault("behaviours_total", 0)
    rep.extra["behaviours_total"] += len(behaviours)
    return ok


def run_conc(rep, spec, tier, seed, want):
    """Full pipeline for one specification. `want` = set of property ids whose violations are reported."""
    exe = core.build_harness(flavour=spec.flavour)
    wd = core.workdir(spec.name if spec.flavour == "fiber" else spec.name + "_" + spec.flavour)
    execs = collect_traces(rep, spec, exe, tier, seed)
    rep.executions += len(execs)
    if not execs:
        raise MachineryError("the harness produced no complete execution for scenario %s" % spec.scenario)
    drift0 = len(rep.drift)
    sites, n_ok = validate_traces(rep, spec, wd, execs, want)
    rep.traces += n_ok
    if len(rep.drift) > drift0 and spec.drift_boost_execs > 0:
        more = collect_drift_boost(rep, spec, exe, seed)
        rep.executions += len(more)
        _, n_more = validate_traces(rep, spec, wd, more, want, tag="boost")
        rep.traces += n_more
    if execs and len(rep.samples) < 6:
        ex = execs[len(execs) // 2]
        rep.samples.append({"kind": "recorded execution validated by TLC", "scenario": spec.scenario,
                            "params": ex[0].get("params"),
                            "events": [{k: x.get(k) for k in ("p", "a", "o", "old", "new", "ord", "obs")} for x in ex[1:-1]][:12],
                            "final": ex[-1].get("final")})
    flat = []
    for s, vals in sites.items():
        for (o, f, fences) in sorted(vals):
            flat.append([s, o, f, list(fences)])
    table, conflicts = write_gen(wd, spec.gen_module, flat)
    if conflicts:
        rep.notes.append("sites with more than one memory order (first one used in the model): %s" % conflicts)
    rep.extra.setdefault("generated_constants", {})
    rep.extra["generated_constants"][spec.name] = {k: {"order": v[0], "failure": v[1], "fences": list(v[2])} for k, v in
                                                   table.items()}
    model_check(rep, spec, wd, want, tier)
    n = replay_paths(rep, spec, wd, exe)
    rep.traces += n
    # distinct event sequences: code vs model
    distinct = set()
    for ex in execs:
        distinct.add((params_key(ex[0].get("params", {})), tuple(event_proj(x) for x in ex if x.get("e") in ("op", "robs"))))
    rep.extra.setdefault("distinct_code_behaviours", 0)
    rep.extra["distinct_code_behaviours"] += len(distinct)
    return execs
