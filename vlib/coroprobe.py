"""C13 compile probe: every documented awaiting form must instantiate against the current tree."""
import os
from concurrent.futures import ThreadPoolExecutor

from . import core

FORMS = {
    1: "Await(f)", 2: "Await(f, g)", 3: "Await(begin, count)", 4: "Await(begin, end)", 5: "AwaitSticky(f)",
    6: "AwaitSticky(f, g)", 7: "AwaitSticky(begin, count)", 8: "AwaitOn(e, f)", 9: "AwaitOn(e, f, g)",
    10: "AwaitOn(e, begin, count)", 11: "Await(shared)", 12: "Await(shared, shared)", 13: "Await(f, shared)",
    14: "AwaitSticky(shared, shared)", 15: "AwaitSticky(f, shared)", 16: "AwaitOn(e, shared, shared)",
    17: "Await(shared begin, count)", 18: "AwaitSticky(shared begin, count)", 19: "AwaitOn(e, shared begin, count)",
    20: "co_await Future&&", 21: "co_await SharedFuture", 22: "co_await Task&&", 23: "On / Yield / CurrentExecutor",
    24: "AwaitSticky(shared)", 25: "AwaitOn(e, shared)",
}


def check(rep):
    lib, inc = core.build_lib("fiber")
    src = os.path.join(core.HARNESS_DIR, "probe", "await_forms.cpp")

    def one(n):
        rc, out, err = core.sh(["g++", "-std=c++20", "-fcoroutines", "-fsyntax-only", "-DFORM=%d" % n, "-D" + core.GUARD,
                                "-I" + os.path.join(core.REPO, "include"), "-I" + inc, src], timeout=600)
        return n, rc, (out + err)

    with ThreadPoolExecutor(max_workers=min(core.NCPU, 12)) as ex:
        res = list(ex.map(one, sorted(FORMS)))
    bad = [(n, msg) for n, rc, msg in res if rc != 0]
    rep.extra["await_forms_compiled"] = len(res) - len(bad)
    # one finding per distinct first error, naming the forms it takes down
    groups = {}
    for n, msg in bad:
        first = next((l for l in msg.splitlines() if "error" in l), msg[:200])
        first = first.replace(core.REPO + "/", "")
        groups.setdefault(first, []).append(n)
    for first, ns in sorted(groups.items()):
        where = first.split(": error")[0]
        rep.violation("compile/%s" % where.split(":")[0].replace("include/yaclib/", ""),
                      "%d of %d awaiting forms do not compile (%s): %s" % (len(ns), len(FORMS), ", ".join(FORMS[n] for n in ns[:6]) +
                                                                            (" ..." if len(ns) > 6 else ""), first[:300]),
                      {"forms": [FORMS[n] for n in ns], "error": first, "probe": "harness/probe/await_forms.cpp"})
    rep.executions += len(res)
