"""Command line of the verification driver."""
import json
import os
import sys
import traceback

from . import core
from .core import MachineryError, Report


def usage():
    print(__doc__)
    print("usage: ./check <ID> [--tier quick|thorough] | setup | replay <file> | list")
    return 2


def main(argv):
    if not argv:
        return usage()
    cmd = argv[0]
    tier = os.environ.get("VERIF_TIER", "quick")
    seed = int(os.environ.get("VERIF_SEED", "1") or 1)
    rest = argv[1:]
    i = 0
    args = []
    while i < len(rest):
        if rest[i] == "--tier" and i + 1 < len(rest):
            tier = rest[i + 1]
            i += 2
        elif rest[i] == "--seed" and i + 1 < len(rest):
            seed = int(rest[i + 1])
            i += 2
        else:
            args.append(rest[i])
            i += 1
    if tier not in ("quick", "thorough"):
        tier = "quick"
    from . import props
    try:
        if cmd == "setup":
            return props.setup()
        if cmd == "list":
            for k in sorted(props.CHECKS):
                print(k, props.CHECKS[k].__doc__ or "")
            return 0
        if cmd == "replay":
            if not args:
                return usage()
            return props.replay(args[0])
        if cmd in props.CHECKS:
            rep = Report(cmd, tier, seed)
            props.CHECKS[cmd](rep, tier, seed)
            return rep.finish(core.load_known())
        print("unknown command or property: %s" % cmd)
        return 2
    except MachineryError as e:
        print("MACHINERY-ERROR %s: %s" % (cmd, str(e)[:6000]))
        return 2
    except Exception:
        traceback.print_exc()
        print("MACHINERY-ERROR %s: internal error" % cmd)
        return 2
