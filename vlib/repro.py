"""C17: fiber fault-injection runs are reproducible from their seed.

Runs client programs under the FIBER backend's own seeded scheduler (observation hooks only), compares the normalised
decision traces pairwise (new process / same process after re-seeding / restored (random-count, injector-state) pair)
and validates the recorded picks against FiberSched.tla with TLC."""
import json
import os

from . import core
from .core import MachineryError

PROGS = ["pool", "cas", "strand", "cas2", "timed", "coro", "cas3", "tie"]


def run_repro(exe, seed, fw, width_unused, progs, extra=(), timeout=300):
    freq, width, sleep = fw
    cmd = [exe, "repro", "--seed", str(seed), "--freq", str(freq), "--width", str(width), "--sleep", str(sleep),
           "--progs", ",".join(progs)] + list(extra)
    rc, out, err = core.sh(cmd, timeout=timeout)
    if rc != 0:
        return None, "exit %s: %s" % (rc, err[-500:])
    return out.splitlines(), None


def split_runs(lines):
    runs, cur = [], None
    for ln in lines:
        if ln.startswith("RUN "):
            cur = []
            runs.append(cur)
        elif cur is not None:
            cur.append(ln)
    return runs


def sections(run):
    """program name -> (begin record fields, lines of the section incl. X)"""
    secs, cur, name = {}, None, None
    for ln in run:
        if ln.startswith("B "):
            _, name, cnt, st = ln.split()
            cur = []
            secs[name] = ((int(cnt), int(st)), cur)
        elif cur is not None:
            cur.append(ln)
            if ln.startswith("X "):
                cur = None
    return secs


def renorm(lines):
    """re-normalise fiber ids by first appearance inside the section"""
    ids = {}

    def n(x):
        if x not in ids:
            ids[x] = str(len(ids) + 1)
        return ids[x]
    out = []
    for ln in lines:
        p = ln.split()
        if p[0] == "P":
            cnt = int(p[2])
            p[3:3 + cnt + 1] = [n(x) for x in p[3:3 + cnt + 1]]
        elif p[0] == "S":
            p[1] = n(p[1])
        out.append(" ".join(p))
    return out


def first_diff(a, b):
    for i, (x, y) in enumerate(zip(a, b)):
        if x != y:
            return i, x, y
    if len(a) != len(b):
        return min(len(a), len(b)), (a[len(b)] if len(a) > len(b) else "<end>"), (b[len(a)] if len(b) > len(a) else "<end>")
    return None


def to_ndjson(run, width, limit=30000):
    recs = [{"e": "run"}]
    for ln in run:
        p = ln.split()
        if p[0] == "B":
            recs.append({"e": "run"})  # fresh scheduler: virtual time restarts
        elif p[0] == "R":
            recs.append({"e": "R", "max": int(p[1]) if int(p[1]) < 2 ** 31 else -1, "v": int(p[2]) if int(p[2]) < 2 ** 31 else -1})
        elif p[0] == "P":
            cnt = int(p[2])
            recs.append({"e": "P", "where": int(p[1]), "ids": [int(x) for x in p[3:3 + cnt]], "chosen": int(p[3 + cnt]), "w": width})
        elif p[0] == "S":
            recs.append({"e": "S", "id": int(p[1]), "hi": int(p[2]), "lo": int(p[3])})
        if len(recs) >= limit:
            break
    return recs


def check(rep, tier, seed0):
    exe = core.build_harness()
    wd = core.workdir("FiberSched")
    r = core.run_tlc(wd, "FiberSched.tla", "FiberSched.cfg", workers=2, timeout=300)
    rep.add_tlc(r, "FiberSched: the pick function is total and picks a member of the list (all lists <= 12, widths <= 12, draws)")
    if r.violated or r.error:
        raise MachineryError("FiberSched.tla sanity failed:\n" + r.out[-2000:])
    if tier == "quick":
        cfgs = ((2, 1, 200), (3, 2, 200), (5, 10, 200), (1, 2, 200), (3, 3, 1))
        grid = [(seed0 * 100 + s, c, c[1]) for s in range(1, 5) for c in cfgs]
    else:
        cfgs = ((2, 1, 200), (3, 2, 200), (4, 3, 200), (5, 10, 200), (16, 10, 200), (1, 1, 200), (1, 10, 1), (3, 3, 1), (2, 10, 7))
        grid = [(seed0 * 100 + s, c, c[1]) for s in range(1, 33) for c in cfgs]
    nd_all = []
    pairs = 0
    for seed, freq, width in grid:
        a, e1 = run_repro(exe, seed, freq, width, PROGS)
        b, e2 = run_repro(exe, seed, freq, width, PROGS)
        if a is None or b is None:
            rep.violation("crash/repro", "the client programs did not run to completion under seed %d (freq, width, sleep) %s: %s" % (
                seed, freq, e1 or e2), {"seed": seed, "freq": freq, "width": width})
            continue
        cfg = "seed=%d freq=%d width=%d sleep=%d" % (seed, freq[0], freq[1], freq[2])
        d = first_diff(a, b)
        pairs += 1
        if d:
            rep.violation("process/%s" % PROGS[0], "two runs in fresh processes with %s differ at record %d: %r vs %r" % (cfg, d[0], d[1], d[2]),
                          {"seed": seed, "freq": freq, "width": width, "diff": d})
            continue
        run_a = split_runs(a)[0]
        secs_a = sections(run_a)
        # same process, after re-seeding and resetting the injector
        t, e3 = run_repro(exe, seed, freq, width, PROGS, extra=["--twice"])
        if t is None:
            rep.violation("crash/repro-twice", "second in-process run failed (%s): %s" % (cfg, e3), {"seed": seed})
            continue
        runs = split_runs(t)
        pairs += 1
        if len(runs) == 2:
            s0, s1 = sections(runs[0]), sections(runs[1])
            for name in PROGS:
                x, y = renorm(s0[name][1]), renorm(s1[name][1])
                d = first_diff(x, y)
                if d:
                    rep.violation("inprocess/%s" % name, "program %s: the run repeated in the same process after SetSeed + injector "
                                  "reset (%s) differs at record %d: %r vs %r" % (name, cfg, d[0], d[1], d[2]),
                                  {"seed": seed, "freq": freq, "width": width, "prog": name})
                    break
            # restore a pair recorded in the SECOND in-process run in a fresh process
            name = PROGS[2]
            cnt, st = s1[name][0]
            rr, e4 = run_repro(exe, seed, freq, width, PROGS, extra=["--restore", name, str(cnt), str(st)])
            pairs += 1
            if rr is None:
                rep.violation("crash/restore", "restored run failed: %s" % e4, {"seed": seed})
            else:
                got = sections(split_runs(rr)[0]).get(name)
                d = first_diff(renorm(s1[name][1]), renorm(got[1])) if got else (0, "<section>", "<missing>")
                if d:
                    rep.violation("restore-after-reseed/%s" % name, "program %s restored from the (random-count=%d, injector-state=%d) "
                                  "pair recorded in a run that followed an in-process re-seed (%s) does not continue as the original: "
                                  "record %d: %r vs %r" % (name, cnt, st, cfg, d[0], d[1], d[2]),
                                  {"seed": seed, "freq": freq, "width": width, "prog": name, "count": cnt, "state": st})
        # one scheduler for the whole process (virtual time is not reset by SetSeed): two runs after re-seeding, and the
        # first of them against the run under fresh schedulers -- only time differences may matter
        k, e6 = run_repro(exe, seed, freq, width, PROGS, extra=["--twice", "--keep-sched"])
        pairs += 1
        if k is None:
            rep.violation("crash/repro-kept", "runs under one long-lived scheduler failed (%s): %s" % (cfg, e6), {"seed": seed})
        else:
            kr = split_runs(k)
            if len(kr) == 2:
                k0, k1 = sections(kr[0]), sections(kr[1])
                for name in PROGS:
                    d = first_diff(renorm(k0[name][1]), renorm(k1[name][1])) or first_diff(renorm(secs_a[name][1]), renorm(k0[name][1]))
                    if d:
                        rep.violation("kept-scheduler/%s" % name, "program %s: under one long-lived scheduler the run repeated after "
                                      "SetSeed + injector reset (or the run under a fresh scheduler) (%s) differs at record %d: "
                                      "%r vs %r -- the schedule depends on the absolute virtual time" % (name, cfg, d[0], d[1], d[2]),
                                      {"seed": seed, "freq": freq, "width": width, "prog": name})
                        break
        # restore every program from the pair recorded in the first run, in a fresh process
        for name in PROGS[1:]:
            cnt, st = secs_a[name][0]
            rr, e5 = run_repro(exe, seed, freq, width, PROGS, extra=["--restore", name, str(cnt), str(st)])
            pairs += 1
            if rr is None:
                rep.violation("crash/restore", "restored run failed: %s" % e5, {"seed": seed})
                continue
            got = sections(split_runs(rr)[0]).get(name)
            d = first_diff(renorm(secs_a[name][1]), renorm(got[1])) if got else (0, "<section>", "<missing>")
            if d:
                rep.violation("restore/%s" % name, "program %s restored from its recorded (random-count=%d, injector-state=%d) pair (%s) "
                              "does not continue as the original run: record %d: %r vs %r" % (name, cnt, st, cfg, d[0], d[1], d[2]),
                              {"seed": seed, "freq": freq, "width": width, "prog": name, "count": cnt, "state": st})
        nd_all.extend(to_ndjson(run_a, width, limit=6000 if tier == "quick" else 30000))
        if len(rep.samples) < 3:
            rep.samples.append({"kind": "recorded run compared pairwise and validated against FiberSched", "config": cfg,
                                "records": len(run_a), "first_records": run_a[:8], "results": [l for l in run_a if l.startswith("X ")]})
    # TLC: every recorded pick is the function of (list, draw, width)
    if nd_all:
        path = os.path.join(wd, "sched_trace.ndjson")
        with open(path, "w") as f:
            for r_ in nd_all:
                f.write(json.dumps(r_) + "\n")
        r = core.run_tlc(wd, "FiberSched_Trace.tla", "FiberSched_Trace.cfg", workers=1, timeout=1500, env_extra={"TRACE": path}, heap="6g")
        rep.add_tlc(r, "trace validation of %d scheduler decisions of %d recorded runs against FiberSched_Trace" % (len(nd_all), len(grid)))
        if r.error and not r.violated and not r.post_false:
            raise MachineryError("TLC failed on FiberSched_Trace:\n" + r.error)
        if r.violated or r.post_false:
            rep.violation("Deterministic/trace", "a recorded scheduler decision is not the function of (list, draw, width) that "
                          "FiberSched.tla defines: %s" % (r.out[r.out.find("bad ="):][:400]), {"tlc": r.out[-3000:]})
    rep.executions += pairs
    rep.traces += pairs
    rep.extra["pairs_compared"] = pairs
    rep.extra["configurations_grid"] = len(grid)
