// Scenario "wt": n producers and one waiter calling Wait / WaitFor on n unique futures, then consuming each
// future with a second operation (C11; also C01/C03/C04 clauses for the reset path).
//   n = 1 | 2 | 3      form = wait | wait_for | wait_for_it (iterator form)      second = get | then
#include "common.hpp"

#include <yaclib/async/contract.hpp>
#include <yaclib/async/future.hpp>
#include <yaclib/async/wait.hpp>
#include <yaclib/async/shared_contract.hpp>
#include <yaclib/async/shared_future.hpp>
#include <yaclib/async/wait_for.hpp>
#include <yaclib/async/wait_until.hpp>

#include <chrono>
#include <optional>
#include <vector>
#include <yaclib_std/chrono>

namespace {

using vh::Payload;
using R = yaclib::Result<Payload>;

template <bool Shared>
void RunWait(vrt::Ctx& ctx) {
  vrt::NameOffsetAlias(vh::CallbackOffset(), "cb");
  Payload::ResetCounters();
  const int n = static_cast<int>(ctx.ParamInt("n", 1));
  const std::string form = ctx.Param("form", "wait");
  const std::string second = ctx.Param("second", "get");
  if (form != "wait") {
    ctx.EnableTimeChoice();
  }
  using FutureT = std::conditional_t<Shared, yaclib::SharedFuture<Payload>, yaclib::Future<Payload>>;
  using PromiseT = std::conditional_t<Shared, yaclib::SharedPromise<Payload>, yaclib::Promise<Payload>>;
  std::vector<FutureT> fs;
  std::vector<PromiseT> ps;
  for (int i = 0; i != n; ++i) {
    auto [f, p] = [] {
      if constexpr (Shared) {
        return yaclib::MakeSharedContract<Payload>();
      } else {
        return yaclib::MakeContract<Payload>();
      }
    }();
    vh::NameCore(f.GetCore().Get(), "c" + std::to_string(i + 1));
    fs.push_back(std::move(f));
    ps.push_back(std::move(p));
  }
  std::vector<std::optional<yaclib::Future<int>>> nexts(static_cast<std::size_t>(n));
  std::vector<vh::Gate> gates(static_cast<std::size_t>(n));
  for (int i = 0; i != n; ++i) {
    vrt::NameField(&gates[static_cast<std::size_t>(i)].flag, "gate" + std::to_string(i + 1));
    ctx.Spawn("P" + std::to_string(i + 1), [&, i] {
      vrt::Api api{"Set"};
      gates[static_cast<std::size_t>(i)].Pass();
      std::move(ps[static_cast<std::size_t>(i)]).Set(Payload{11 + i});
    });
  }
  ctx.Spawn("W", [&] {
    bool ok = true;
    {
      vrt::Api api{"Wait"};
      using namespace std::chrono_literals;
      if (form == "wait") {
        if (n == 1) {
          yaclib::Wait(fs[0]);
        } else if (n == 2) {
          yaclib::Wait(fs[0], fs[1]);
        } else {
          yaclib::Wait(fs[0], fs[1], fs[2]);
        }
      } else if (form == "wait_it") {
        yaclib::Wait(fs.begin(), fs.end());
      } else if constexpr (!Shared) {  // timed waits do not exist for SharedFuture (its callbacks cannot be reset)
        if (form == "wait_for") {
          if (n == 1) {
            ok = yaclib::WaitFor(1ms, fs[0]);
          } else if (n == 2) {
            ok = yaclib::WaitFor(1ms, fs[0], fs[1]);
          } else {
            ok = yaclib::WaitFor(1ms, fs[0], fs[1], fs[2]);
          }
        } else if (form == "wait_until") {
          const auto deadline = yaclib_std::chrono::steady_clock::now() + 1ms;
          if (n == 1) {
            ok = yaclib::WaitUntil(deadline, fs[0]);
          } else if (n == 2) {
            ok = yaclib::WaitUntil(deadline, fs[0], fs[1]);
          } else {
            ok = yaclib::WaitUntil(deadline, fs[0], fs[1], fs[2]);
          }
        } else if (form == "wait_until_it") {
          ok = yaclib::WaitUntil(yaclib_std::chrono::steady_clock::now() + 1ms, fs.begin(), fs.end());
        } else {
          ok = yaclib::WaitFor(1ms, fs.begin(), fs.end());
        }
      }
      VRT_STACK_RETURN();
      std::string ready;
      for (int i = 0; i != n; ++i) {
        vrt::Ambient amb;  // Ready() polls for the observation only: not part of the modelled operation sequence
        ready += fs[static_cast<std::size_t>(i)].Ready() ? "1" : "0";
      }
      vrt::Obs("waited", std::string(ok ? "1" : "0") + ":" + ready);
    }
    for (int i = 0; i != n; ++i) {
      auto& f = fs[static_cast<std::size_t>(i)];
      if (second == "get") {
        vrt::Api api{"Get"};
        if constexpr (Shared) {
          auto r = f.Get();  // a copy: the shared state keeps the Result
          vrt::Obs("get", std::to_string(i + 1) + ":" + vh::Desc(r));
        } else {
          auto r = std::move(f).Get();
          vrt::Obs("get", std::to_string(i + 1) + ":" + vh::Desc(r));
        }
      } else {
        vrt::Api api{"ThenInline"};
        if constexpr (Shared) {
          nexts[static_cast<std::size_t>(i)].emplace(f.ThenInline([i](const R& r) {
            vrt::Obs("call", std::to_string(i + 1) + ":" + vh::Desc(r));
            return 1;
          }));
        } else {
          nexts[static_cast<std::size_t>(i)].emplace(std::move(f).ThenInline([i](R&& r) {
            vrt::Obs("call", std::to_string(i + 1) + ":" + vh::Desc(r));
            return 1;
          }));
        }
      }
    }
  });
  ctx.JoinAll();
  for (int i = 0; i != n; ++i) {
    auto& nx = nexts[static_cast<std::size_t>(i)];
    if (nx) {
      ctx.Final("next" + std::to_string(i + 1), nx->Ready() ? vh::Desc(std::move(*nx).Get()) : std::string("not_ready"));
      nx.reset();
    }
  }
  fs.clear();
  ctx.Final("live", Payload::live);
  ctx.Final("read_moved", Payload::read_moved);
}

// kind = unique (default) | shared: SharedFuture inputs (the static / dynamic shared events; monitors only)
VRT_SCENARIO(wt, "Wait / WaitFor / WaitUntil over n unique or shared futures, then a second consumer operation on each") {
  if (ctx.Param("kind", "unique") == "shared") {
    RunWait<true>(ctx);
  } else {
    RunWait<false>(ctx);
  }
}

}  // namespace
