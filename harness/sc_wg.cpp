// Scenario "wg": WaitGroup / OneShotEvent (C16).
//   src = one letter per source of the count (process P<i>):
//           d  a thread that calls Done() (its unit is part of the constructor count)
//           a  a future Attach()ed by M and completed by P<i>
//           c  a future Consume()d by M and completed by P<i>
//           S  (alone) no counter at all: a bare OneShotEvent that P1 Set()s
//   wts = one letter per waiter process W<k>:
//           w  Wait()       t  WaitFor(1ms), and Wait() if that timed out
//           i  co_await AwaitInline()    s  co_await AwaitSticky()    o  co_await AwaitOn(executor)
// M attaches / consumes the futures in order and then gives up its own unit with Done()
//   own = 1 (default) | 0: M holds no unit of its own (only with a single a / c source)
//   batch = 1: src is aa or cc and M attaches / consumes both futures with ONE call (monitors only)
// A released waiter reports "<who>:<count>:<done flags of the sources>:<Ready() of the attached futures>".
#include "common.hpp"

#include <yaclib/algo/one_shot_event.hpp>
#include <yaclib/algo/wait_group.hpp>
#include <yaclib/async/contract.hpp>
#include <yaclib/async/future.hpp>
#include <yaclib/coro/await.hpp>
#include <yaclib/coro/future.hpp>
#include <yaclib/util/helper.hpp>

#include <chrono>
#include <optional>
#include <vector>

namespace {

using vh::Payload;
using namespace std::chrono_literals;

// an executor that runs the job where it is submitted and says so
class HereExec final : public yaclib::IExecutor {
 public:
  [[nodiscard]] Type Tag() const noexcept final {
    return Type::Custom;
  }
  [[nodiscard]] bool Alive() const noexcept final {
    return true;
  }
  void Submit(yaclib::Job& job) noexcept final {
    vrt::Obs("submitted", "");
    job.Call();
  }
  void IncRef() noexcept final {
  }
  void DecRef() noexcept final {
  }
  std::size_t GetRef() noexcept final {
    return 1;
  }
};

struct Shared {
  std::string src;
  std::vector<int> dn;  // plain "this source is done" flags, written before the Done / Set of the source
  std::vector<yaclib::Future<Payload>> fs;
  std::function<std::string()> count;
  std::string Report(const std::string& who) {
    std::string s = who + ":" + count() + ":";
    for (int x : dn) {
      s += x != 0 ? "1" : "0";
    }
    s += ":";
    for (std::size_t i = 0; i != src.size(); ++i) {
      if (src[i] == 'a') {
        vrt::Ambient amb;
        s += fs[i].Ready() ? "1" : "0";
      }
    }
    return s;
  }
};

template <typename Target>
yaclib::Future<> CoroWaiter(Target& target, char kind, HereExec& exec, Shared& sh, std::string who) {
  if (kind == 'i') {
    co_await target.AwaitInline();
  } else if (kind == 's') {
    co_await target.AwaitSticky();
  } else {
    co_await target.AwaitOn(exec);
  }
  vrt::Obs("released", sh.Report(who));
  co_return {};
}

yaclib::Future<> Dummy() {
  co_return {};
}

template <typename Target>
void SpawnWaiters(vrt::Ctx& ctx, Target& target, const std::string& wts, Shared& sh, HereExec& exec,
                  std::vector<std::optional<yaclib::Future<>>>& coros) {
  for (std::size_t k = 0; k != wts.size(); ++k) {
    const char kind = wts[k];
    const std::string who = "W" + std::to_string(k + 1);
    ctx.Spawn(who, [&, k, kind, who] {
      if (kind == 'w') {
        {
          vrt::Api api{"Wait"};
          target.Wait();
          VRT_STACK_RETURN();
        }
        vrt::Obs("released", sh.Report(who));
      } else if (kind == 't') {
        bool ok = false;
        {
          vrt::Api api{"WaitFor"};
          ok = target.WaitFor(1ms);
          VRT_STACK_RETURN();
        }
        if (ok) {
          vrt::Obs("released", sh.Report(who));
        } else {
          vrt::Obs("timedout", who);
          {
            vrt::Api api{"Wait"};
            target.Wait();
            VRT_STACK_RETURN();
          }
          vrt::Obs("released", sh.Report(who));
        }
      } else {
        vrt::Api api{"co_await"};
        coros[k].emplace(CoroWaiter(target, kind, exec, sh, who));
      }
    });
  }
}

VRT_SCENARIO(wg, "WaitGroup / OneShotEvent: sources (Done, attached / consumed futures, Set) x waiters (blocking, timed, coroutine)") {
  Payload::ResetCounters();
  Shared sh;
  sh.src = ctx.Param("src", "d");
  const std::string wts = ctx.Param("wts", "w");
  const std::size_t n = sh.src.size();
  const bool bare = sh.src == "S";
  if (wts.find('t') != std::string::npos) {
    ctx.EnableTimeChoice();
  }
  {
    // where the callback word of a coroutine's promise lies inside the coroutine frame
    auto f = Dummy();
    using PT = yaclib::detail::PromiseType<void, yaclib::StopError, false, false>;
    auto* core = f.GetCore().Get();
    auto* frame = yaclib_std::coroutine_handle<PT>::from_promise(static_cast<PT&>(*core)).address();
    vrt::NameOffsetAlias(static_cast<long>(reinterpret_cast<char*>(core) - static_cast<char*>(frame)) + vh::CallbackOffset(), "kcb");
  }
  {
    // fields of the heap-allocated waiter of a timed wait (allocated inside WaitFor): mutex, condvar, reference count
    auto w = yaclib::MakeShared<yaclib::OneShotEvent::TimedWaiter>(2);
    auto* base = reinterpret_cast<const char*>(w.Get());
    static_cast<yaclib::Job&>(*w).Call();  // Set(): lock, notify_one, unlock; DecRef(): fetch_sub
    vrt::NameOffsetAlias(static_cast<long>(static_cast<const char*>(vrt::LastOpObject(0)) - base), "ref");
    vrt::NameOffsetAlias(static_cast<long>(static_cast<const char*>(vrt::LastOpObject(1)) - base), "mtx");
    vrt::NameOffsetAlias(static_cast<long>(static_cast<const char*>(vrt::LastOpObject(2)) - base), "cv");
  }
  sh.dn.assign(n, 0);
  std::vector<yaclib::Promise<Payload>> ps;
  std::size_t plain = 0;
  for (std::size_t i = 0; i != n; ++i) {
    auto [f, p] = yaclib::MakeContract<Payload>();
    vh::NameCore(f.GetCore().Get(), "c" + std::to_string(i + 1));
    sh.fs.push_back(std::move(f));
    ps.push_back(std::move(p));
    plain += sh.src[i] == 'd' ? 1 : 0;
  }
  // own = 0: M holds no unit of its own, the count can reach zero while Attach / Consume is still running
  const bool own = ctx.Param("own", "1") == "1";
  yaclib::WaitGroup<> group{(own ? 1 : 0) + plain};
  yaclib::OneShotEvent event;
  vrt::NameRange(&group, sizeof group, "wg");
  {
    (void)group.Count();
    vrt::NameField(vrt::LastOpObject(), "cnt");
    auto a = group.AwaitInline();
    (void)a.await_ready();
    vrt::NameField(vrt::LastOpObject(), "head");
    if (bare) {
      auto b = event.AwaitInline();
      (void)b.await_ready();
      vrt::NameField(vrt::LastOpObject(), "head");
    }
  }
  sh.count = [&] {
    if (bare) {
      return std::string("0");
    }
    vrt::Ambient amb;
    return std::to_string(group.Count());
  };
  HereExec exec;
  std::vector<std::optional<yaclib::Future<>>> coros(wts.size());
  std::vector<vh::Gate> gates(n);
  if (!bare) {
    ctx.Spawn("M", [&] {
      if (ctx.Param("batch", "0") == "1") {
        // ONE call for two futures (the implicit Add covers the whole batch): legal on a count of zero
        if (sh.src[0] == 'a') {
          vrt::Api api{"Attach"};
          group.Attach(sh.fs[0], sh.fs[1]);
        } else {
          vrt::Api api{"Consume"};
          group.Consume(std::move(sh.fs[0]), std::move(sh.fs[1]));
        }
        if (own) {
          vrt::Api api{"Done"};
          group.Done();
        }
        return;
      }
      for (std::size_t i = 0; i != n; ++i) {
        if (sh.src[i] == 'a') {
          vrt::Api api{"Attach"};
          group.Attach(sh.fs[i]);
        } else if (sh.src[i] == 'c') {
          vrt::Api api{"Consume"};
          group.Consume(std::move(sh.fs[i]));
        }
      }
      if (own) {
        vrt::Api api{"Done"};
        group.Done();
      }
    });
  }
  for (std::size_t i = 0; i != n; ++i) {
    vrt::NameField(&gates[i].flag, "gate" + std::to_string(i + 1));
    ctx.Spawn("P" + std::to_string(i + 1), [&, i] {
      gates[i].Pass();
      sh.dn[i] = 1;
      if (sh.src[i] == 'd') {
        vrt::Api api{"Done"};
        group.Done();
      } else if (sh.src[i] == 'S') {
        vrt::Api api{"Set"};
        event.Set();
      } else {
        vrt::Api api{"Set"};
        std::move(ps[i]).Set(Payload{11 + static_cast<int>(i)});
      }
    });
  }
  if (bare) {
    SpawnWaiters(ctx, event, wts, sh, exec, coros);
  } else {
    SpawnWaiters(ctx, group, wts, sh, exec, coros);
  }
  ctx.JoinAll();
  for (std::size_t k = 0; k != wts.size(); ++k) {
    if (coros[k]) {
      ctx.Final("coro" + std::to_string(k + 1), coros[k]->Ready() ? "ready" : "not_ready");
      coros[k].reset();
    }
  }
  for (std::size_t i = 0; i != n; ++i) {
    if (sh.src[i] == 'a') {
      ctx.Final("get" + std::to_string(i + 1), sh.fs[i].Ready() ? vh::Desc(std::move(sh.fs[i]).Get()) : std::string("not_ready"));
    }
  }
  ctx.Final("count", bare ? 0 : static_cast<long>(group.Count()));
  sh.fs.clear();
  ps.clear();
  ctx.Final("live", Payload::live);
  ctx.Final("read_moved", Payload::read_moved);
}

}  // namespace
