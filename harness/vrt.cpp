#include "vrt.hpp"

#include <sys/mman.h>

#include <yaclib/fault/config.hpp>
#include <yaclib/fault/detail/fiber/scheduler.hpp>
#include <yaclib/fault/verif.hpp>

#include <algorithm>
#include <csignal>
#include <cstdio>
#include <cstdlib>
#include <cstring>
#include <memory>
#include <new>
#include <random>
#include <unistd.h>
#include <unordered_map>
#include <yaclib_std/thread>

namespace vrt {
namespace {

using yaclib::verif::Kind;
using yaclib::verif::Op;

// ------------------------------------------------------------------------------------------------ state

struct ProcState {
  std::string name;
  std::uint64_t fid = 0;
  bool tracked = true;
  bool primed = false;
  bool done = false;
  bool final_emitted = false;
  int ambient = 0;
  const char* api = "";
  // pending visible operation
  bool has_op = false;
  Op op{};
  int phase = 0;
  std::uint64_t before = 0;
  std::string api_at_op;
  // slice accumulation
  std::string slice_op;  // json fields of the operation completed (or begun, for condvar waits) in this slice
  std::vector<std::string> obs;
  std::string uar;         // owner of the dead stack memory the pending operation touches ("" = none)
  bool next_spur = false;  // the next operation is the load of a spuriously failing weak CAS
  bool op_spur = false;
  std::vector<std::string> fences;  // orders of the atomic_thread_fence calls of this slice, in program order
  std::uintptr_t stack_probe = 0;
  std::uintptr_t dead_hi = 0;  // stack addresses in [stack_probe - kStackBytes, dead_hi) are dead (0 = none)
  int allocs = 0;
  // spin detection: the process repeated a non-modifying operation that saw the same value and nothing was modified since
  std::string ro_sig;
  int ro_count = 0;
  bool spinning = false;
  std::uint64_t spin_epoch = 0;
  bool park_forever = false;
};

struct Range {
  std::uintptr_t lo, hi;
  std::string name;
};

enum class Mode { kDfs, kRandom, kReplay };

constexpr std::uint32_t kStackPages = 32;
constexpr std::uintptr_t kStackBytes = std::uintptr_t{kStackPages} * 4096;

struct Choice {
  int chosen;
  int n;
  std::string what;  // name of the chosen alternative
};

struct Global {
  std::vector<Scenario> scenarios;
  std::vector<std::pair<std::string, CommandFn>> commands;
  // per run configuration
  Mode mode = Mode::kDfs;
  std::uint64_t seed = 1;
  long max_execs = 1000000;
  long preempt_bound = -1;
  std::uint64_t mod_epoch = 0;  // number of modifying operations so far (spin detection)
  int tailsplit = 0;       // per execution: how often a process may be preempted right AFTER a visible operation
  int tail_budget = 0;
  FILE* out = nullptr;
  bool quiet_events = false;
  // per execution
  bool active = false;
  std::unordered_map<std::uint64_t, ProcState*> by_fid;
  std::vector<std::unique_ptr<ProcState>> procs;
  ProcState* root = nullptr;
  ProcState* running = nullptr;
  ProcState* last_chooser = nullptr;
  std::uint64_t first_fid = 0;
  int auto_names = 0;
  std::vector<Choice> choices;  // decisions of this execution
  std::vector<int> prefix;      // forced prefix (dfs / replay by index)
  std::vector<std::string> replay_names;
  std::size_t replay_pos = 0;
  bool diverged = false;
  bool force_weak = false;
  std::string diverge_msg;
  std::mt19937_64 rng;
  std::vector<std::string> lines;  // event lines of this execution
  std::vector<std::pair<std::string, std::string>> finals;
  bool time_choice = false;
  bool anon_yield = false;
  bool time_announced = false;
  std::uint64_t last_time = 0;
  int time_budget = 1;
  int weak_budget = 0;
  int preemptions = 0;
  bool root_done = false;
  long n_events = 0;
  // naming
  std::map<std::uintptr_t, std::string> fields;
  std::map<std::uintptr_t, Range> ranges;        // by lo
  std::map<std::uintptr_t, Range> alloc_ranges;  // by lo
  std::map<long, std::string> off_alias;
  bool alloc_naming = true;
  // accounting
  AllocStats stats;
};

bool g_in_hook = false;  // reentrancy guard for operator new bookkeeping

struct HookGuard {
  bool prev;
  HookGuard() : prev{g_in_hook} {
    g_in_hook = true;
  }
  ~HookGuard() {
    g_in_hook = prev;
  }
};

Global& G() {
  static Global* g = [] {
    HookGuard hg;
    return new Global;
  }();
  return *g;
}

ProcState* Cur() {
  auto& g = G();
  if (!g.active) {
    return nullptr;
  }
  auto id = yaclib::fault::Scheduler::GetId();
  auto it = g.by_fid.find(id);
  return it == g.by_fid.end() ? nullptr : it->second;
}

const char* KindName(Kind k) {
  switch (k) {
    case Kind::kLoad: return "load";
    case Kind::kStore: return "store";
    case Kind::kXchg: return "xchg";
    case Kind::kCas: return "cas";
    case Kind::kCasWeak: return "casw";
    case Kind::kFetchAdd: return "fadd";
    case Kind::kFetchSub: return "fsub";
    case Kind::kFetchAnd: return "fand";
    case Kind::kFetchOr: return "for";
    case Kind::kFetchXor: return "fxor";
    case Kind::kLock: return "lock";
    case Kind::kTryLock: return "trylock";
    case Kind::kUnlock: return "unlock";
    case Kind::kLockShared: return "lock_shared";
    case Kind::kTryLockShared: return "trylock_shared";
    case Kind::kUnlockShared: return "unlock_shared";
    case Kind::kTryLockFor: return "trylock_for";
    case Kind::kTryLockSharedFor: return "trylock_shared_for";
    case Kind::kCvWait: return "cvwait";
    case Kind::kCvWaitFor: return "cvwait_for";
    case Kind::kNotifyOne: return "notify_one";
    case Kind::kNotifyAll: return "notify_all";
    case Kind::kFence: return "fence";
  }
  return "?";
}

const char* OrderName(int o) {
  switch (o) {
    case static_cast<int>(std::memory_order_relaxed): return "rlx";
    case static_cast<int>(std::memory_order_consume): return "con";
    case static_cast<int>(std::memory_order_acquire): return "acq";
    case static_cast<int>(std::memory_order_release): return "rel";
    case static_cast<int>(std::memory_order_acq_rel): return "acq_rel";
    case static_cast<int>(std::memory_order_seq_cst): return "sc";
    default: return "";
  }
}

std::string JsonStr(const std::string& s) {
  std::string r = "\"";
  for (char c : s) {
    if (c == '"' || c == '\\') {
      r += '\\';
      r += c;
    } else if (static_cast<unsigned char>(c) < 0x20) {
      r += ' ';
    } else {
      r += c;
    }
  }
  r += '"';
  return r;
}

const Range* FindRange(const std::map<std::uintptr_t, Range>& m, std::uintptr_t a) {
  auto it = m.upper_bound(a);
  if (it == m.begin()) {
    return nullptr;
  }
  --it;
  return a < it->second.hi ? &it->second : nullptr;
}

std::string WithOffset(const Range& r, std::uintptr_t a) {
  auto& g = G();
  long off = static_cast<long>(a - r.lo);
  if (off == 0) {
    auto al = g.off_alias.find(0);
    return al == g.off_alias.end() ? r.name : r.name + "." + al->second;
  }
  auto al = g.off_alias.find(off);
  if (al != g.off_alias.end()) {
    return r.name + "." + al->second;
  }
  return r.name + "+" + std::to_string(off);
}

std::string ObjName(std::uintptr_t a) {
  auto& g = G();
  if (a == 0) {
    return "-";
  }
  if (auto it = g.fields.find(a); it != g.fields.end()) {
    return it->second;
  }
  if (auto* r = FindRange(g.ranges, a)) {
    return WithOffset(*r, a);
  }
  if (auto* r = FindRange(g.alloc_ranges, a)) {
    return WithOffset(*r, a);
  }
  for (auto& p : g.procs) {
    if (p->stack_probe != 0 && a + kStackBytes > p->stack_probe && a < p->stack_probe + 4096) {
      return p->name + ".stk";
    }
  }
  return "?";
}

// abstract class of a word value
std::string Cls(std::uint64_t w, std::uint32_t size) {
  std::uint64_t max = size >= 8 ? ~std::uint64_t{0} : ((std::uint64_t{1} << (8 * size)) - 1);
  if (w == max && size >= 4) {
    return "MAX";
  }
  if (w < 65536) {
    return std::to_string(w);
  }
  if (size >= 8) {
    auto& g = G();
    auto a = static_cast<std::uintptr_t>(w);
    if (auto it = g.fields.find(a); it != g.fields.end()) {
      return "@" + it->second;
    }
    if (auto* r = FindRange(g.ranges, a)) {
      return "@" + r->name;
    }
    if (auto* r = FindRange(g.alloc_ranges, a)) {
      return "@" + r->name;
    }
    for (auto& p : g.procs) {
      if (p->stack_probe != 0 && a + kStackBytes > p->stack_probe && a < p->stack_probe + 4096) {
        return "@" + p->name + ".stk";
      }
    }
    // large counters (e.g. 2^32 units) are reported in hex
    char buf[32];
    std::snprintf(buf, sizeof buf, "x%llx", static_cast<unsigned long long>(w));
    if (w < (std::uint64_t{1} << 40) || (w >> 48) != 0) {
      return buf;
    }
    return "@?";
  }
  char buf[32];
  std::snprintf(buf, sizeof buf, "x%llx", static_cast<unsigned long long>(w));
  return buf;
}

void EmitLine(std::string line) {
  auto& g = G();
  g.lines.push_back(std::move(line));
}

void FlushSlice(ProcState* st) {
  if (st == nullptr || !st->tracked) {
    return;
  }
  HookGuard hg;
  if (st->slice_op.empty() && st->obs.empty() && st->fences.empty() && !(st->done && !st->final_emitted)) {
    return;
  }
  std::string s = "{\"e\":\"op\",\"p\":" + JsonStr(st->name);
  if (!st->slice_op.empty()) {
    s += "," + st->slice_op;
  } else {
    s += ",\"a\":\"none\",\"api\":" + JsonStr(st->api) +
         ",\"o\":\"-\",\"old\":\"-\",\"new\":\"-\",\"arg\":\"-\",\"exp\":\"-\",\"ok\":true,\"spur\":false,\"ord\":\"\",\"ford\":\"\"";
  }
  s += ",\"obs\":[";
  for (std::size_t i = 0; i != st->obs.size(); ++i) {
    if (i != 0) {
      s += ",";
    }
    s += st->obs[i];
  }
  s += "],\"fences\":[";
  for (std::size_t i = 0; i != st->fences.size(); ++i) {
    if (i != 0) {
      s += ",";
    }
    s += JsonStr(st->fences[i]);
  }
  s += "],\"done\":";
  s += st->done ? "true" : "false";
  s += "}";
  st->slice_op.clear();
  st->obs.clear();
  st->fences.clear();
  if (st->done) {
    st->final_emitted = true;
  }
  ++G().n_events;
  EmitLine(std::move(s));
}

std::string OpJson(ProcState* st, const Op& op, bool begin_only, std::uint64_t after) {
  std::string s = "\"a\":";
  std::string kind = KindName(op.kind);
  if (begin_only) {
    s += JsonStr(kind);  // cvwait / cvwait_for: released the mutex and parked
  } else if (op.kind == Kind::kCvWait || op.kind == Kind::kCvWaitFor) {
    s += JsonStr(kind == "cvwait" ? "cvwake" : "cvwake_for");
  } else {
    s += JsonStr(kind);
  }
  s += ",\"api\":" + JsonStr(st->api_at_op);
  s += ",\"o\":" + JsonStr(ObjName(reinterpret_cast<std::uintptr_t>(op.obj)));
  if (op.peek != nullptr) {
    s += ",\"old\":" + JsonStr(Cls(st->before, op.size));
    s += ",\"new\":" + JsonStr(Cls(after, op.size));
    bool has_arg = op.kind != Kind::kLoad;
    s += ",\"arg\":" + JsonStr(has_arg ? Cls(op.arg, op.size) : "-");
    if (op.kind == Kind::kCas || op.kind == Kind::kCasWeak) {
      s += ",\"exp\":" + JsonStr(Cls(op.arg2, op.size));
      s += std::string(",\"ok\":") + (st->before == op.arg2 ? "true" : "false");
    } else {
      s += ",\"exp\":\"-\",\"ok\":true";
    }
  } else {
    s += ",\"old\":\"-\",\"new\":\"-\",\"arg\":\"-\",\"exp\":\"-\",\"ok\":true";
  }
  s += std::string(",\"spur\":") + (st->op_spur ? "true" : "false");
  s += ",\"ord\":" + JsonStr(OrderName(op.order));
  s += ",\"ford\":" + JsonStr(OrderName(op.failure));
  return s;
}

// ------------------------------------------------------------------------------------------------ choices

int Choose(int n, const std::vector<std::string>& names, const char* tag) {
  auto& g = G();
  if (n <= 1 && std::strcmp(tag, "sched") != 0) {
    return 0;
  }
  int c = 0;
  std::size_t pos = g.choices.size();
  if (g.mode == Mode::kReplay && !g.replay_names.empty()) {
    // replay by alternative name; only scheduling choices consume names
    if (std::strcmp(tag, "sched") == 0) {
      if (g.replay_pos < g.replay_names.size()) {
        auto want = g.replay_names[g.replay_pos++];
        g.force_weak = false;
        if (!want.empty() && want.back() == '^') {  // during this slice a weak CAS fails spuriously
          want.pop_back();
          g.force_weak = true;
        }
        auto it = std::find(names.begin(), names.end(), want);
        if (it == names.end()) {
          if (!g.diverged) {
            g.diverged = true;
            g.diverge_msg = "schedule names " + want + " at decision " + std::to_string(pos) + " but it is not runnable";
          }
          c = 0;
        } else {
          c = static_cast<int>(it - names.begin());
        }
      } else {
        c = 0;
      }
    } else {
      c = 0;
    }
  } else if (pos < g.prefix.size()) {
    c = g.prefix[pos];
    if (c >= n) {
      g.diverged = true;
      g.diverge_msg = "prefix choice out of range at decision " + std::to_string(pos);
      c = 0;
    }
  } else if (g.mode == Mode::kRandom) {
    c = static_cast<int>(g.rng() % static_cast<std::uint64_t>(n));
  } else {
    c = 0;
  }
  g.choices.push_back(Choice{c, n, names.empty() ? std::to_string(c) : names[static_cast<std::size_t>(c)]});
  return c;
}

// ------------------------------------------------------------------------------------------------ hooks

const void* g_last_obj = nullptr;
const void* g_last_objs[8] = {};
unsigned g_last_pos = 0;

// the operation `op` of process st is about to execute: does it touch a dead part of somebody's stack?
void CheckDeadStack(ProcState* st, const Op& op) {
  if (op.obj == nullptr) {
    return;
  }
  auto a = reinterpret_cast<std::uintptr_t>(op.obj);
  auto inside = [](const ProcState& q, std::uintptr_t x) {
    return x < q.dead_hi && x + kStackBytes > q.stack_probe;
  };
  for (auto& q : G().procs) {
    if (q->dead_hi == 0 || q->stack_probe == 0) {
      continue;
    }
    if (q.get() == st) {
      // the owner builds something new there: it operates on it, or publishes a pointer to it
      if (inside(*q, a) || (op.peek != nullptr && op.size >= 8 && inside(*q, static_cast<std::uintptr_t>(op.arg)))) {
        q->dead_hi = 0;
      }
    } else if (inside(*q, a)) {
      st->uar = q->name;
    }
  }
}

void HookBeginOp(const Op& op) {
  g_last_obj = op.obj;
  g_last_objs[g_last_pos++ % 8] = op.obj;
  auto* st = Cur();
  if (st == nullptr || !st->tracked || st->ambient != 0) {
    if (st != nullptr) {
      st->has_op = false;
    }
    return;
  }
  HookGuard hg;
  if (op.kind == Kind::kFence) {
    st->fences.push_back(OrderName(op.order));
    return;
  }
  st->has_op = true;
  st->op = op;
  st->phase = 0;
  st->api_at_op = st->api;
  st->op_spur = st->next_spur;
  st->next_spur = false;
}

bool HookInject() {
  auto& g = G();
  if (!g.active) {
    return true;
  }
  auto* st = Cur();
  if (st == nullptr || !st->tracked || st->ambient != 0) {
    return true;
  }
  if (!st->has_op) {
    if (g.anon_yield) {
      yaclib::fault::Scheduler::RescheduleCurrent();  // an injection point without descriptor: just a scheduling point
    }
    return true;
  }
  if (st->phase == 0) {
    st->phase = 1;
    // the slice that led here is over; the next decision is who performs its pending operation
    yaclib::fault::Scheduler::RescheduleCurrent();
    if (st->park_forever) {
      // every runnable process spins on a value nobody is going to change: a livelock, reported as a deadlock
      yaclib::fault::Scheduler::Suspend();
    }
    // resumed: nobody else runs until the operation has been performed
    {
      HookGuard hg;
      CheckDeadStack(st, st->op);
    }
    if (st->op.peek != nullptr) {
      st->before = st->op.peek(st->op.obj);
    }
    if (st->op.kind == Kind::kCvWait || st->op.kind == Kind::kCvWaitFor) {
      HookGuard hg;
      st->slice_op = OpJson(st, st->op, true, 0);
    }
    return true;
  }
  HookGuard hg;
  std::uint64_t after = st->op.peek != nullptr ? st->op.peek(st->op.obj) : 0;
  if (!st->slice_op.empty()) {
    // a condvar wait that began and completed without any other fiber running in between cannot happen
    // (it parks), but a previous record must never be lost
    FlushSlice(st);
  }
  st->slice_op = OpJson(st, st->op, false, after);
  {
    // spin detection: a process that repeats a non-modifying operation on the same object with the same outcome is
    // waiting for somebody else; it is not scheduled again until another process has modified something
    const bool ro = st->op.peek != nullptr && after == st->before && st->op.kind != Kind::kFence;
    if (st->op_spur) {
      // a spuriously failing weak CAS says nothing about waiting
    } else if (ro) {
      std::string sig = std::string(KindName(st->op.kind)) + "|" + std::to_string(reinterpret_cast<std::uintptr_t>(st->op.obj)) + "|" +
                        std::to_string(st->before);
      if (sig == st->ro_sig) {
        // two identical reads in a row are common in straight-line code (check, then check again under a different
        // name); the third one is a loop
        if (++st->ro_count >= 3) {
          st->spinning = true;
          st->spin_epoch = g.mod_epoch;
        }
      } else {
        st->ro_sig = std::move(sig);
        st->ro_count = 1;
        st->spinning = false;
      }
    } else {
      ++g.mod_epoch;
      st->ro_sig.clear();
      st->ro_count = 0;
      st->spinning = false;
    }
  }
  if (!st->uar.empty()) {
    st->obs.insert(st->obs.begin(), "{\"k\":\"use_after_return\",\"v\":" + JsonStr(st->uar) + "}");
    st->uar.clear();
  }
  st->has_op = false;
  if (g.tail_budget > 0) {
    // "tail split": let other processes run between the operation and the plain code that follows it (finds
    // misplaced plain accesses right after a publishing operation); such executions no longer have one event per
    // slice and are judged by the abstract monitors only
    static const std::vector<std::string> kNames{"go", "split"};
    if (Choose(2, kNames, "tail") == 1) {
      --g.tail_budget;
      g_in_hook = false;
      yaclib::fault::Scheduler::RescheduleCurrent();
      g_in_hook = true;
    }
  }
  return true;
}

}  // namespace

// A harness-declared preemption point inside plain code (e.g. right after the harness pool made a job visible to its
// workers): taken only in tail-split executions, which are judged by the abstract monitors only.
void SplitPoint() {
  auto& g = G();
  if (!g.active || g.tail_budget <= 0 || g_in_hook) {
    return;
  }
  auto* st = Cur();
  if (st == nullptr || !st->tracked || st->ambient != 0) {
    return;
  }
  bool split = false;
  {
    HookGuard hg;
    static const std::vector<std::string> kNames{"go", "split"};
    split = Choose(2, kNames, "tail") == 1;
    if (split) {
      --g.tail_budget;
    }
  }
  if (split) {
    yaclib::fault::Scheduler::RescheduleCurrent();
  }
}

namespace {

ProcState* ProcFor(std::uint64_t fid) {
  auto& g = G();
  auto it = g.by_fid.find(fid);
  if (it != g.by_fid.end()) {
    return it->second;
  }
  // a fiber created by library code (e.g. a thread pool worker): name it by creation order
  auto st = std::make_unique<ProcState>();
  st->fid = fid;
  st->name = "T" + std::to_string(++g.auto_names);
  st->tracked = true;
  auto* p = st.get();
  g.procs.push_back(std::move(st));
  g.by_fid[fid] = p;
  return p;
}

int HookPickNext(const std::uint64_t* ids, int n) {
  auto& g = G();
  if (!g.active || g.root == nullptr) {
    return -1;  // the root fiber has not introduced itself yet: nothing to decide
  }
  HookGuard hg;
  FlushSlice(g.running);
  std::vector<std::pair<std::string, int>> cands;
  // fibers are created with increasing ids; auto-name unknown ones in id order for determinism
  std::vector<std::uint64_t> sorted(ids, ids + n);
  std::sort(sorted.begin(), sorted.end());
  for (auto id : sorted) {
    ProcFor(id);
  }
  for (int i = 0; i != n; ++i) {
    auto* st = ProcFor(ids[i]);
    if (!st->tracked) {
      g.running = st;
      return i;  // the root fiber is not a process of the model: it runs as soon as it can
    }
  }
  for (int i = 0; i != n; ++i) {
    auto* st = ProcFor(ids[i]);
    if (!st->primed) {
      st->primed = true;  // run a new process up to its first visible operation
      g.running = st;
      return i;
    }
  }
  for (int i = 0; i != n; ++i) {
    auto* st = ProcFor(ids[i]);
    if (st->spinning && st->spin_epoch == g.mod_epoch) {
      continue;  // spins on something nobody has changed since: not runnable
    }
    cands.emplace_back(st->name, i);
  }
  if (cands.empty()) {
    // everybody spins: park them one by one, the run ends as a deadlock
    auto* st = ProcFor(ids[0]);
    st->park_forever = true;
    g.running = st;
    g.last_chooser = st;
    return 0;
  }
  std::sort(cands.begin(), cands.end());
  std::vector<std::string> names;
  for (auto& c : cands) {
    names.push_back(c.first);
  }
  int c = 0;
  bool forced = false;
  if (g.preempt_bound >= 0 && g.last_chooser != nullptr && g.preemptions >= g.preempt_bound) {
    for (std::size_t k = 0; k != cands.size(); ++k) {
      if (cands[k].first == g.last_chooser->name) {
        c = static_cast<int>(k);
        forced = true;
      }
    }
  }
  if (!forced) {
    c = Choose(static_cast<int>(cands.size()), names, "sched");
    if (g.last_chooser != nullptr && cands[static_cast<std::size_t>(c)].first != g.last_chooser->name) {
      for (auto& cd : cands) {
        if (cd.first == g.last_chooser->name) {
          ++g.preemptions;
        }
      }
    }
  }
  auto* st = ProcFor(ids[cands[static_cast<std::size_t>(c)].second]);
  g.running = st;
  g.last_chooser = st;
  return cands[static_cast<std::size_t>(c)].second;
}

int HookPickWaiter(const std::uint64_t* ids, int n) {
  auto& g = G();
  if (!g.active) {
    return -1;
  }
  HookGuard hg;
  std::vector<std::pair<std::string, int>> cands;
  for (int i = 0; i != n; ++i) {
    cands.emplace_back(ProcFor(ids[i])->name, i);
  }
  std::sort(cands.begin(), cands.end());
  std::vector<std::string> names;
  for (auto& c : cands) {
    names.push_back(c.first);
  }
  int c = Choose(n, names, "waiter");
  if (auto* st = Cur(); st != nullptr && st->tracked && n > 1) {
    st->obs.push_back("{\"k\":\"wake\",\"v\":" + JsonStr(names[static_cast<std::size_t>(c)]) + "}");
  }
  return cands[static_cast<std::size_t>(c)].second;
}

bool HookAdvanceTime(int /*runnable*/, std::uint64_t /*now*/, std::uint64_t /*deadline*/) {
  auto& g = G();
  if (!g.active || !g.time_choice || g.time_budget <= 0) {
    return false;
  }
  HookGuard hg;
  static const std::vector<std::string> kNames{"wait", "fire"};
  FlushSlice(g.running);  // the slice that just ended (it put a fiber to sleep) comes first in the record
  if (Choose(2, kNames, "time") == 1) {
    --g.time_budget;
    EmitLine("{\"e\":\"time\"}");
    g.time_announced = true;
    return true;
  }
  return false;
}

// the clock also jumps when nothing is runnable: report that as a "time" record, too
void HookOnResume(std::uint64_t /*id*/, std::uint64_t time) {
  auto& g = G();
  if (!g.active) {
    return;
  }
  if (time != g.last_time) {
    g.last_time = time;
    if (!g.time_announced) {
      HookGuard hg;
      FlushSlice(g.running);
      EmitLine("{\"e\":\"time\"}");
    }
    g.time_announced = false;
  }
}

int HookWeakFail() {
  auto& g = G();
  if (!g.active) {
    return -1;
  }
  auto* st = Cur();
  if (st == nullptr || !st->tracked || st->ambient != 0 || g.weak_budget <= 0) {
    return 0;
  }
  HookGuard hg;
  static const std::vector<std::string> kNames{"ok", "spurious"};
  if (g.mode == Mode::kReplay && !g.replay_names.empty()) {
    if (g.force_weak) {
      g.force_weak = false;
      --g.weak_budget;
      st->next_spur = true;
      return 1;
    }
    return 0;
  }
  if (Choose(2, kNames, "weak") == 1) {
    --g.weak_budget;
    st->next_spur = true;
    return 1;
  }
  return 0;
}

bool HookRand(std::uint64_t /*max*/, std::uint64_t* out) {
  auto& g = G();
  if (!g.active) {
    return false;
  }
  *out = 0;
  return true;
}

void InstallHooks() {
  auto& h = yaclib::verif::GetHooks();
  h.begin_op = &HookBeginOp;
  h.inject = &HookInject;
  h.pick_next = &HookPickNext;
  h.pick_waiter = &HookPickWaiter;
  h.advance_time = &HookAdvanceTime;
  h.on_resume = &HookOnResume;
  h.weak_fail = &HookWeakFail;
  h.rand = &HookRand;
}

// ------------------------------------------------------------------------------------------------ executions

struct ExecResult {
  std::string status;  // ok | deadlock | diverged
};

std::vector<std::unique_ptr<yaclib_std::thread>>* g_threads = nullptr;

void CrashHandler(int sig) {
  auto& g = G();
  char buf[256];
  int n = std::snprintf(buf, sizeof buf, "{\"e\":\"crash\",\"signal\":%d,\"choices\":[", sig);
  FILE* f = g.out != nullptr ? g.out : stdout;
  for (auto& l : g.lines) {
    std::fputs(l.c_str(), f);
    std::fputc('\n', f);
  }
  std::fwrite(buf, 1, static_cast<std::size_t>(n), f);
  for (std::size_t i = 0; i != g.choices.size(); ++i) {
    std::fprintf(f, "%s%d", i != 0 ? "," : "", g.choices[i].chosen);
  }
  std::fputs("],\"sched\":[", f);
  for (std::size_t i = 0; i != g.choices.size(); ++i) {
    std::fprintf(f, "%s\"%s\"", i != 0 ? "," : "", g.choices[i].what.c_str());
  }
  std::fputs("]}\n", f);
  std::fflush(f);
  _exit(3);
}

ExecResult RunExecution(const Scenario& sc, const std::map<std::string, std::string>& params, long exec_no) {
  auto& g = G();
  g.by_fid.clear();
  g.procs.clear();
  g.root = nullptr;
  g.running = nullptr;
  g.last_chooser = nullptr;
  g.mod_epoch = 0;
  g.auto_names = 0;
  g.choices.clear();
  g.replay_pos = 0;
  g.diverged = false;
  g.diverge_msg.clear();
  g.lines.clear();
  g.finals.clear();
  g.tail_budget = g.tailsplit;
  g.time_choice = false;
  g.anon_yield = false;
  g.time_announced = false;
  g.last_time = 0;
  g.time_budget = 1;
  g.weak_budget = 0;
  g.preemptions = 0;
  g.root_done = false;
  g.fields.clear();
  g.ranges.clear();
  g.alloc_ranges.clear();
  auto stats0 = g.stats;

  {
    std::string s = "{\"e\":\"begin\",\"sc\":" + JsonStr(sc.name) + ",\"n\":" + std::to_string(exec_no) + ",\"params\":{";
    bool first = true;
    for (auto& [k, v] : params) {
      s += (first ? "" : ",") + JsonStr(k) + ":" + JsonStr(v);
      first = false;
    }
    s += "}";
    if (g.tailsplit > 0) {
      s += ",\"tailsplit\":true";
    }
    s += "}";
    EmitLine(s);
  }

  yaclib::fault::Scheduler scheduler;
  yaclib::fault::Scheduler::Set(&scheduler);
  yaclib::fiber::SetFaultTickLength(0);
  auto threads = std::make_unique<std::vector<std::unique_ptr<yaclib_std::thread>>>();
  g_threads = threads.get();
  Ctx ctx;
  ctx.params = params;
  g.active = true;
  auto root_fn = [&] {
    auto st = std::make_unique<ProcState>();
    st->fid = yaclib::fault::Scheduler::GetId();
    st->name = "root";
    st->tracked = false;
    st->primed = true;
    g.root = st.get();
    g.by_fid[st->fid] = st.get();
    g.procs.push_back(std::move(st));
    // any scenario: "weak=<n>" allows the controller n spurious weak-CAS failures per execution (the standard allows
    // them everywhere; used by exploration that is judged by the abstract monitors only)
    if (ctx.ParamInt("weak", -1) >= 0) {
      ctx.EnableWeakFail(static_cast<int>(ctx.ParamInt("weak", 0)));
    }
    sc.run(ctx);
    g.root_done = true;
  };
  auto* root = new yaclib_std::thread(root_fn);
  // the scheduler loop has finished: everything completed, or everything that is left is parked
  FlushSlice(g.running);
  g.active = false;
  ExecResult r;
  if (g.root_done) {
    root->join();
    delete root;
    r.status = g.diverged ? "diverged" : "ok";
  } else {
    r.status = "deadlock";
    // the stuck fibers (and whatever they own) are leaked on purpose
    root->detach();
    delete root;
    for (auto& t : *threads) {
      if (t && t->get_id() != 0) {  // (a fiber thread that was joined already has no id)
        t->detach();
      }
    }
    (void)threads.release();
  }
  g_threads = nullptr;
  yaclib::fault::Scheduler::Set(nullptr);

  std::string s = "{\"e\":\"end\",\"status\":" + JsonStr(r.status);
  if (r.status == "deadlock") {
    s += ",\"parked\":[";
    bool first = true;
    for (auto& p : g.procs) {
      if (p->tracked && !p->done) {
        s += (first ? "" : ",") + JsonStr(p->name);
        first = false;
      }
    }
    s += "]";
  }
  if (g.diverged) {
    s += ",\"diverge\":" + JsonStr(g.diverge_msg);
  }
  s += ",\"final\":{";
  for (std::size_t i = 0; i != g.finals.size(); ++i) {
    s += (i != 0 ? "," : "") + JsonStr(g.finals[i].first) + ":" + JsonStr(g.finals[i].second);
  }
  s += "},\"news\":" + std::to_string(g.stats.news - stats0.news);
  s += ",\"deletes\":" + std::to_string(g.stats.deletes - stats0.deletes);
  s += ",\"sched\":[";
  for (std::size_t i = 0; i != g.choices.size(); ++i) {
    s += (i != 0 ? "," : "") + JsonStr(g.choices[i].what);
  }
  s += "],\"choices\":[";
  for (std::size_t i = 0; i != g.choices.size(); ++i) {
    s += (i != 0 ? "," : "") + std::to_string(g.choices[i].chosen);
  }
  s += "]}";
  EmitLine(s);
  if (g.out != nullptr) {
    for (auto& l : g.lines) {
      std::fputs(l.c_str(), g.out);
      std::fputc('\n', g.out);
    }
  }
  g.lines.clear();
  return r;
}

}  // namespace

// ------------------------------------------------------------------------------------------------ public API

void Obs(const std::string& kind, const std::string& value) {
  auto* st = Cur();
  HookGuard hg;
  std::string s = "{\"k\":" + JsonStr(kind) + ",\"v\":" + JsonStr(value) + "}";
  if (st != nullptr && st->tracked) {
    st->obs.push_back(std::move(s));
  } else if (G().active) {
    EmitLine("{\"e\":\"robs\",\"obs\":[" + s + "]}");
  }
}

void NameSelf(const std::string& name) {
  auto& g = G();
  if (!g.active) {
    return;
  }
  HookGuard hg;
  auto* st = ProcFor(yaclib::fault::Scheduler::GetId());
  st->name = name;
}

Api::Api(const char* name) : prev{""} {
  if (auto* st = Cur()) {
    prev = st->api;
    st->api = name;
  }
}

Api::~Api() {
  if (auto* st = Cur()) {
    st->api = prev;
  }
}

Ambient::Ambient() {
  if (auto* st = Cur()) {
    ++st->ambient;
  }
}

Ambient::~Ambient() {
  if (auto* st = Cur()) {
    --st->ambient;
  }
}

void MarkStackDead(const void* frame) {
  if (auto* st = Cur()) {
    st->dead_hi = reinterpret_cast<std::uintptr_t>(frame);
  }
}

void NameField(const void* addr, const std::string& name) {
  HookGuard hg;
  G().fields[reinterpret_cast<std::uintptr_t>(addr)] = name;
}

void NameRange(const void* addr, std::size_t size, const std::string& name) {
  HookGuard hg;
  auto lo = reinterpret_cast<std::uintptr_t>(addr);
  G().ranges[lo] = Range{lo, lo + size, name};
}

void NameOffsetAlias(long off, const std::string& alias) {
  HookGuard hg;
  G().off_alias[off] = alias;
}

const void* LastOpObject(int back) {
  return back == 0 ? g_last_obj : g_last_objs[(g_last_pos - 1 - static_cast<unsigned>(back)) % 8];
}

std::string NameOf(std::uintptr_t addr) {
  HookGuard hg;
  return ObjName(addr);
}

std::string Ctx::Param(const std::string& k, const std::string& dflt) const {
  auto it = params.find(k);
  return it == params.end() ? dflt : it->second;
}

long Ctx::ParamInt(const std::string& k, long dflt) const {
  auto it = params.find(k);
  return it == params.end() ? dflt : std::atol(it->second.c_str());
}

void Ctx::Spawn(const std::string& name, ProcFn fn) {
  auto& g = G();
  HookGuard hg;
  auto st = std::make_unique<ProcState>();
  auto* p = st.get();
  p->name = name;
  g.procs.push_back(std::move(st));
  auto body = [p, fn = std::move(fn)] {
    char probe = 0;
    p->stack_probe = reinterpret_cast<std::uintptr_t>(&probe);
    fn();
    p->done = true;
  };
  auto t = std::make_unique<yaclib_std::thread>(std::move(body));
  p->fid = t->get_id();
  g.by_fid[p->fid] = p;
  g_threads->push_back(std::move(t));
}

void Ctx::JoinAll() {
  for (auto& t : *g_threads) {
    if (t && t->get_id() != 0) {
      t->join();
    }
  }
  HookGuard hg;
  g_threads->clear();
}

void Ctx::Final(const std::string& key, const std::string& value) {
  HookGuard hg;
  G().finals.emplace_back(key, value);
}

void Ctx::Final(const std::string& key, long value) {
  Final(key, std::to_string(value));
}

void Ctx::EnableTimeChoice() {
  G().time_choice = true;
}

void Ctx::EnableAnonYield() {
  G().anon_yield = true;
}

void Ctx::EnableWeakFail(int budget) {
  G().weak_budget = budget;
}

void Register(const Scenario& s) {
  HookGuard hg;
  G().scenarios.push_back(s);
}

void RegisterCommand(const char* name, CommandFn fn) {
  HookGuard hg;
  G().commands.emplace_back(name, fn);
}

AllocStats GetAllocStats() {
  return G().stats;
}

void SetAllocNaming(bool on) {
  G().alloc_naming = on;
}

// ------------------------------------------------------------------------------------------------ main

static void Usage() {
  std::fprintf(stderr,
               "usage: vrt <scenario> [key=value ...] [--mode dfs|rand|replay] [--max N] [--seed S]\n"
               "           [--preempt B] [--sched a,b,c | --choices 0,1,0] [--out FILE]\n"
               "       vrt --list\n");
}

int Main(int argc, char** argv) {
  auto& g = G();
  if (argc < 2) {
    Usage();
    return 2;
  }
  if (std::strcmp(argv[1], "--list") == 0) {
    for (auto& s : g.scenarios) {
      std::printf("%s\t%s\n", s.name, s.help);
    }
    return 0;
  }
  for (auto& c : g.commands) {
    if (c.first == argv[1]) {
      InstallHooks();
      return c.second(argc - 2, argv + 2);
    }
  }
  const Scenario* sc = nullptr;
  for (auto& s : g.scenarios) {
    if (std::strcmp(s.name, argv[1]) == 0) {
      sc = &s;
    }
  }
  if (sc == nullptr) {
    std::fprintf(stderr, "unknown scenario %s\n", argv[1]);
    return 2;
  }
  std::map<std::string, std::string> params;
  g.out = stdout;
  std::string sched_arg;
  std::string choices_arg;
  for (int i = 2; i < argc; ++i) {
    std::string a = argv[i];
    auto next = [&]() -> std::string {
      if (i + 1 >= argc) {
        Usage();
        std::exit(2);
      }
      return argv[++i];
    };
    if (a == "--mode") {
      auto m = next();
      g.mode = m == "dfs" ? Mode::kDfs : m == "rand" ? Mode::kRandom : Mode::kReplay;
    } else if (a == "--max") {
      g.max_execs = std::atol(next().c_str());
    } else if (a == "--seed") {
      g.seed = std::strtoull(next().c_str(), nullptr, 10);
    } else if (a == "--preempt") {
      g.preempt_bound = std::atol(next().c_str());
    } else if (a == "--tailsplit") {
      g.tailsplit = std::atoi(next().c_str());
    } else if (a == "--sched") {
      sched_arg = next();
    } else if (a == "--choices") {
      choices_arg = next();
    } else if (a == "--out") {
      g.out = std::fopen(next().c_str(), "w");
      if (g.out == nullptr) {
        std::perror("open");
        return 2;
      }
    } else if (auto eq = a.find('='); eq != std::string::npos) {
      params[a.substr(0, eq)] = a.substr(eq + 1);
    } else {
      Usage();
      return 2;
    }
  }
  InstallHooks();
  yaclib::fiber::SetStackSize(kStackPages);
  std::signal(SIGSEGV, &CrashHandler);
  std::signal(SIGABRT, &CrashHandler);
  std::signal(SIGBUS, &CrashHandler);
  std::signal(SIGFPE, &CrashHandler);
  std::set_terminate([] {
    CrashHandler(-1);
  });
  g.rng.seed(g.seed);

  long execs = 0;
  long deadlocks = 0;
  long diverged = 0;
  auto split = [](const std::string& s) {
    std::vector<std::string> r;
    std::string cur;
    for (char c : s) {
      if (c == ',') {
        r.push_back(cur);
        cur.clear();
      } else {
        cur += c;
      }
    }
    if (!cur.empty()) {
      r.push_back(cur);
    }
    return r;
  };
  if (g.mode == Mode::kReplay) {
    // one schedule from the command line, or one per line of stdin ("a,b,c" names; "#0,1,0" indices)
    std::vector<std::string> schedules;
    if (!sched_arg.empty()) {
      schedules.push_back(sched_arg);
    } else if (!choices_arg.empty()) {
      schedules.push_back("#" + choices_arg);
    } else {
      char* line = nullptr;
      std::size_t cap = 0;
      ssize_t len;
      while ((len = getline(&line, &cap, stdin)) > 0) {
        std::string l(line, static_cast<std::size_t>(len));
        while (!l.empty() && (l.back() == '\n' || l.back() == '\r')) {
          l.pop_back();
        }
        schedules.push_back(l);
      }
      std::free(line);
    }
    for (auto& s : schedules) {
      g.prefix.clear();
      g.replay_names.clear();
      std::map<std::string, std::string> p = params;
      std::string body = s;
      // optional "k=v;k=v|" parameter prefix
      if (auto bar = body.find('|'); bar != std::string::npos) {
        for (auto& kv : split(std::string(body.substr(0, bar)).append(","))) {
          if (auto eq = kv.find('='); eq != std::string::npos) {
            p[kv.substr(0, eq)] = kv.substr(eq + 1);
          }
        }
        body = body.substr(bar + 1);
      }
      if (!body.empty() && body[0] == '#') {
        for (auto& t : split(body.substr(1))) {
          g.prefix.push_back(std::atoi(t.c_str()));
        }
      } else {
        g.replay_names = split(body);
        if (g.replay_names.empty()) {
          g.replay_names.push_back("");  // keep replay-by-name mode
        }
      }
      auto r = RunExecution(*sc, p, execs);
      ++execs;
      deadlocks += r.status == "deadlock";
      diverged += r.status == "diverged";
    }
  } else if (g.mode == Mode::kRandom) {
    for (; execs < g.max_execs; ++execs) {
      g.prefix.clear();
      auto r = RunExecution(*sc, params, execs);
      deadlocks += r.status == "deadlock";
    }
  } else {
    g.prefix.clear();
    bool complete = false;
    for (; execs < g.max_execs;) {
      auto r = RunExecution(*sc, params, execs);
      ++execs;
      deadlocks += r.status == "deadlock";
      // backtrack
      auto cs = g.choices;
      while (!cs.empty() && cs.back().chosen + 1 >= cs.back().n) {
        cs.pop_back();
      }
      if (cs.empty()) {
        complete = true;
        break;
      }
      g.prefix.clear();
      for (auto& c : cs) {
        g.prefix.push_back(c.chosen);
      }
      ++g.prefix.back();
    }
    std::fprintf(g.out, "{\"e\":\"summary\",\"mode\":\"dfs\",\"executions\":%ld,\"complete\":%s,\"deadlocks\":%ld}\n", execs,
                 complete ? "true" : "false", deadlocks);
    std::fflush(g.out);
    if (g.out != stdout) {
      std::fclose(g.out);
    }
    return 0;
  }
  std::fprintf(g.out, "{\"e\":\"summary\",\"mode\":\"%s\",\"executions\":%ld,\"complete\":false,\"deadlocks\":%ld,\"diverged\":%ld}\n",
               g.mode == Mode::kRandom ? "rand" : "replay", execs, deadlocks, diverged);
  std::fflush(g.out);
  if (g.out != stdout) {
    std::fclose(g.out);
  }
  return 0;
}

}  // namespace vrt

int main(int argc, char** argv) {
  return vrt::Main(argc, argv);
}

// ---------------------------------------------------------------------------------------------------- new/delete

namespace {

// "no reuse" heap (command repro): every block gets an address no other block ever had in this process, so that the
// outcome of a pointer comparison in the program (the benign ABA of a lock-free push) cannot depend on what the
// process allocated and freed before the program began
char* g_arena_lo = nullptr;
char* g_arena_cur = nullptr;
char* g_arena_hi = nullptr;
bool g_no_reuse = false;
char* g_arena_top = nullptr;  // blocks handed out downwards from the end
bool g_arena_down = false;

void* ArenaAlloc(std::size_t size) {
  if (g_arena_lo == nullptr) {
    const std::size_t cap = std::size_t{1} << 33;
    void* m = mmap(nullptr, cap, PROT_READ | PROT_WRITE, MAP_PRIVATE | MAP_ANONYMOUS | MAP_NORESERVE, -1, 0);
    if (m == MAP_FAILED) {
      std::abort();
    }
    g_arena_lo = g_arena_cur = static_cast<char*>(m);
    g_arena_hi = g_arena_top = g_arena_lo + cap;
  }
  size = (size + 15) & ~std::size_t{15};
  if (size == 0) {
    size = 16;
  }
  if (g_arena_cur + size > g_arena_top) {
    std::abort();
  }
  if (g_arena_down) {
    // descending addresses: whatever orders objects by address sees the opposite order, nothing is ever reused
    g_arena_top -= size;
    return g_arena_top;
  }
  void* p = g_arena_cur;
  g_arena_cur += size;
  return p;
}

void* VrtAlloc(std::size_t size) {
  void* p = g_no_reuse ? ArenaAlloc(size) : std::malloc(size != 0 ? size : 1);
  if (p == nullptr) {
    std::abort();
  }
  if (!vrt::g_in_hook) {
    auto& g = vrt::G();
    ++g.stats.news;
    if (g.active && g.alloc_naming) {
      vrt::HookGuard hg;
      // allocations made in the middle of a visible operation belong to the fault layer (e.g. the scheduler's
      // sleep map node of a timed wait), not to the code under test: they do not take part in the naming
      if (auto* st = vrt::Cur(); st != nullptr && !st->has_op) {
        auto lo = reinterpret_cast<std::uintptr_t>(p);
        std::string name = st->name + ".a" + std::to_string(st->allocs++);
        g.alloc_ranges[lo] = vrt::Range{lo, lo + size, std::move(name)};
      }
    }
  }
  return p;
}

void VrtFree(void* p) noexcept {
  if (p == nullptr) {
    return;
  }
  if (!vrt::g_in_hook) {
    auto& g = vrt::G();
    ++g.stats.deletes;
    if (g.active && !g.alloc_ranges.empty()) {
      vrt::HookGuard hg;
      auto lo = reinterpret_cast<std::uintptr_t>(p);
      if (auto it = g.alloc_ranges.find(lo); it != g.alloc_ranges.end()) {
        // names given to (parts of) this block die with it: the address may be reused at once
        auto hi = it->second.hi;
        g.fields.erase(g.fields.lower_bound(lo), g.fields.lower_bound(hi));
        g.ranges.erase(g.ranges.lower_bound(lo), g.ranges.lower_bound(hi));
        g.alloc_ranges.erase(it);
      }
    }
  }
  if (p >= static_cast<void*>(g_arena_lo) && p < static_cast<void*>(g_arena_hi)) {
    return;  // never reused
  }
  std::free(p);
}

}  // namespace

namespace vrt {

void SetNoReuseHeap(bool on, bool descending) {
  g_no_reuse = on;
  g_arena_down = descending;
}

}  // namespace vrt

void* operator new(std::size_t size) {
  return VrtAlloc(size);
}
void* operator new[](std::size_t size) {
  return VrtAlloc(size);
}
void* operator new(std::size_t size, const std::nothrow_t&) noexcept {
  return VrtAlloc(size);
}
void* operator new[](std::size_t size, const std::nothrow_t&) noexcept {
  return VrtAlloc(size);
}
void operator delete(void* p) noexcept {
  VrtFree(p);
}
void operator delete[](void* p) noexcept {
  VrtFree(p);
}
void operator delete(void* p, std::size_t) noexcept {
  VrtFree(p);
}
void operator delete[](void* p, std::size_t) noexcept {
  VrtFree(p);
}
