// Shared helpers for scenario drivers: instrumented payload, recording executors, core field naming.
#pragma once

#include "vrt.hpp"

#include <yaclib/algo/detail/base_core.hpp>
#include <yaclib/exe/executor.hpp>
#include <yaclib/util/result.hpp>

#include <yaclib_std/atomic>

#include <exception>
#include <stdexcept>
#include <string>
#include <vector>

namespace vh {

// -------------------------------------------------------------------------- instrumented payload
struct ThrowOnConstruct {};  // Payload{ThrowOnConstruct{}} throws TestError("ctor")

struct Payload {
  int a = 0;
  int b = ~0;
  bool moved_from = false;
  static inline long live = 0;
  static inline long ctor = 0;
  static inline long dtor = 0;
  static inline long copies = 0;
  static inline long moves = 0;
  static inline long read_moved = 0;  // a moved-from object was copied / moved / inspected

  Payload() {
    ++live;
    ++ctor;
  }
  Payload(ThrowOnConstruct);  // throws before anything is constructed (defined below TestError)
  explicit Payload(int v) : a{v}, b{~v} {
    ++live;
    ++ctor;
  }
  Payload(const Payload& o) : a{o.a}, b{o.b} {
    if (o.moved_from) {
      ++read_moved;
    }
    ++live;
    ++ctor;
    ++copies;
  }
  Payload(Payload&& o) noexcept : a{o.a}, b{o.b} {
    if (o.moved_from) {
      ++read_moved;
    }
    o.moved_from = true;
    ++live;
    ++ctor;
    ++moves;
  }
  Payload& operator=(const Payload& o) {
    if (o.moved_from) {
      ++read_moved;
    }
    a = o.a;
    b = o.b;
    moved_from = false;
    ++copies;
    return *this;
  }
  Payload& operator=(Payload&& o) noexcept {
    if (o.moved_from) {
      ++read_moved;
    }
    a = o.a;
    b = o.b;
    moved_from = false;
    o.moved_from = true;
    ++moves;
    return *this;
  }
  ~Payload() {
    --live;
    ++dtor;
  }
  static void ResetCounters() {
    live = ctor = dtor = copies = moves = read_moved = 0;
  }
};

// move-only flavour
struct MoPayload {
  Payload p;
  MoPayload() = default;
  explicit MoPayload(int v) : p{v} {
  }
  MoPayload(MoPayload&&) noexcept = default;
  MoPayload& operator=(MoPayload&&) noexcept = default;
  MoPayload(const MoPayload&) = delete;
  MoPayload& operator=(const MoPayload&) = delete;
};

inline std::string Desc(const Payload& p) {
  std::string s = "v" + std::to_string(p.a);
  if (p.b != ~p.a) {
    s += "!torn";
  }
  if (p.moved_from) {
    ++Payload::read_moved;
    s += "!moved";
  }
  return s;
}
inline std::string Desc(const MoPayload& p) {
  return Desc(p.p);
}
inline std::string Desc(int v) {
  return "v" + std::to_string(v);
}
inline std::string Desc(yaclib::Unit) {
  return "unit";
}

struct TestError : std::runtime_error {
  using std::runtime_error::runtime_error;
};

inline Payload::Payload(ThrowOnConstruct) {
  throw TestError{"ctor"};
}

inline std::string DescExc(const std::exception_ptr& e) {
  try {
    std::rethrow_exception(e);
  } catch (const TestError& t) {
    return std::string("exc:") + t.what();
  } catch (const std::exception& t) {
    return std::string("exc?") + t.what();
  } catch (...) {
    return "exc??";
  }
}

template <typename V, typename E>
std::string Desc(const yaclib::Result<V, E>& r) {
  switch (r.State()) {
    case yaclib::ResultState::Value:
      if constexpr (std::is_void_v<V>) {
        return "unit";
      } else {
        return Desc(std::as_const(r).Value());
      }
    case yaclib::ResultState::Error:
      return "stop";
    case yaclib::ResultState::Exception:
      return DescExc(std::as_const(r).Exception());
    default:
      return "empty";
  }
}

// -------------------------------------------------------------------------- recording executor
// Not reference counted (outlives every scenario), jobs are run by whoever calls Drain().
class QueueExec final : public yaclib::IExecutor {
 public:
  explicit QueueExec(std::string name) : _name{std::move(name)} {
  }
  [[nodiscard]] Type Tag() const noexcept final {
    return Type::Custom;
  }
  [[nodiscard]] bool Alive() const noexcept final {
    return submits < reject_from;
  }
  void Submit(yaclib::Job& job) noexcept final {
    long k = submits++;
    if (k >= reject_from) {
      ++drops;
      vrt::Obs("drop", _name);
      job.Drop();
      return;
    }
    vrt::Obs("submit", _name);
    _jobs.push_back(&job);
  }
  std::size_t Drain() {
    std::size_t n = 0;
    while (!_jobs.empty()) {
      auto* j = _jobs.front();
      _jobs.erase(_jobs.begin());
      ++calls;
      ++n;
      auto* prev = current;
      current = this;
      j->Call();
      current = prev;
    }
    return n;
  }
  [[nodiscard]] bool Empty() const {
    return _jobs.empty();
  }
  const std::string& Name() const {
    return _name;
  }
  void Reset() {
    _jobs.clear();
    submits = calls = drops = 0;
    reject_from = 1L << 40;
  }
  long submits = 0;
  long calls = 0;
  long drops = 0;
  long reject_from = 1L << 40;
  static inline QueueExec* current = nullptr;

 private:
  std::string _name;
  std::vector<yaclib::Job*> _jobs;
};

// -------------------------------------------------------------------------- producer gate
// The first visible operation of a producer thread: without it the producer's plain code before its first
// library operation (storing the result) would always run before any consumer step, hiding early reads.
struct Gate {
  yaclib_std::atomic<int> flag{0};
  Gate() {
    vrt::NameField(&flag, "gate");
  }
  void Pass() {
    flag.store(1, std::memory_order_relaxed);
  }
};

// -------------------------------------------------------------------------- core field naming
struct CoreSpy : yaclib::detail::BaseCore {
  static auto Member() {
    return &CoreSpy::_callback;
  }
};

inline const void* CallbackWord(yaclib::detail::BaseCore* core) {
  return &(core->*CoreSpy::Member());
}

inline long CallbackOffset() {
  // any BaseCore: the offset of _callback from the start of the object
  auto* fake = reinterpret_cast<yaclib::detail::BaseCore*>(std::uintptr_t{4096});
  return static_cast<long>(reinterpret_cast<std::uintptr_t>(&(fake->*CoreSpy::Member())) - 4096);
}

inline void NameCore(yaclib::detail::BaseCore* core, const std::string& name) {
  vrt::NameField(CallbackWord(core), name + ".cb");
  vrt::NameRange(core, 64, name);
}

}  // namespace vh

// -------------------------------------------------------------------------- VerifPool
// An executor implemented in the harness with n worker fibers.  Its internals use no yaclib_std primitive: a worker
// that finds nothing to do parks itself directly in the fiber scheduler and Submit makes one parked worker runnable
// again, so the pool adds no visible operations of its own; which runnable worker runs next is a controller choice.
// Stop(): new submissions are refused (Dropped inline), queued jobs still run.  HardStop(): queued jobs are Dropped.
#include <yaclib/fault/detail/fiber/scheduler.hpp>

#include <deque>
#include <memory>
#include <yaclib_std/thread>

namespace vh {

class VerifPool final : public yaclib::IExecutor {
 public:
  explicit VerifPool(int workers) {
    for (int i = 0; i != workers; ++i) {
      _threads.push_back(std::make_unique<yaclib_std::thread>([this, i] {
        vrt::NameSelf("W" + std::to_string(i + 1));
        char probe = 0;
        (void)probe;
        Loop();
      }));
    }
  }
  [[nodiscard]] Type Tag() const noexcept final {
    return Type::Custom;
  }
  [[nodiscard]] bool Alive() const noexcept final {
    return !_stopped;
  }
  void Submit(yaclib::Job& job) noexcept final {
    if (_stopped) {
      vrt::Obs("pool_reject");
      job.Drop();
      return;
    }
    vrt::Obs("pool_submit");
    _queue.push_back(&job);
    WakeOne();
    // the job is visible to the workers now: in tail-split executions another worker may run it before the submitter's
    // next plain statement (a real pool gives no guarantee about that either)
    vrt::SplitPoint();
  }
  void Stop() {
    _stopped = true;
  }
  void HardStop() {
    _stopped = true;
    while (!_queue.empty()) {
      auto* j = _queue.front();
      _queue.pop_front();
      j->Drop();
    }
  }
  // after every client finished: let the workers drain the queue and exit
  void Finish() {
    _finish = true;
    while (!_idle.empty()) {
      WakeOne();
    }
  }
  void Join() {
    for (auto& t : _threads) {
      t->join();
    }
    _threads.clear();
  }

 private:
  void WakeOne() {
    if (!_idle.empty()) {
      auto* f = _idle.front();
      _idle.pop_front();
      yaclib::fault::Scheduler::GetScheduler()->Schedule(f);
    }
  }
  void Loop() {
    while (true) {
      if (!_queue.empty()) {
        auto* j = _queue.front();
        _queue.pop_front();
        vrt::Obs("take");
        j->Call();
        continue;
      }
      if (_finish) {
        return;
      }
      _idle.push_back(yaclib::fault::Scheduler::Current());
      yaclib::fault::Scheduler::Suspend();
    }
  }
  std::deque<yaclib::Job*> _queue;
  std::deque<yaclib::detail::fiber::FiberBase*> _idle;
  std::vector<std::unique_ptr<yaclib_std::thread>> _threads;
  bool _stopped = false;
  bool _finish = false;
};

}  // namespace vh
