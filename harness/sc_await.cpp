// Scenario "aw": one coroutine awaiting n futures that producers complete concurrently (C13).
//   form = fut     co_await std::move(f)            (n = 1, unique)         sfut  co_await shared future (n = 1)
//          await   co_await Await(f...)             sticky  co_await AwaitSticky(f...)      on  co_await AwaitOn(e, f...)
//   n    = 1 | 2                dyn  = 1: iterator forms (begin, count) for n = 2
//   k    = 2 (form sfut only): two coroutines (threads K and L) await the same SharedFuture
//   outs = one letter per producer: v value, x exception
//   exec = here (runs the job where it is submitted) | stop (rejects: Drop)   -- the executor of sticky / on
// K starts the coroutine: [co_await On(e) for sticky], the await, then it reports "resumed <outcomes>" and returns.
#include "common.hpp"

#include <yaclib/async/contract.hpp>
#include <yaclib/async/shared_contract.hpp>
#include <yaclib/coro/await.hpp>
#include <yaclib/coro/await_on.hpp>
#include <yaclib/coro/await_sticky.hpp>
#include <yaclib/coro/future.hpp>
#include <yaclib/coro/on.hpp>

#include <optional>
#include <vector>

namespace {

using vh::Payload;

class Exec final : public yaclib::IExecutor {
 public:
  bool stopped = false;
  [[nodiscard]] Type Tag() const noexcept final {
    return Type::Custom;
  }
  [[nodiscard]] bool Alive() const noexcept final {
    return !stopped;
  }
  void Submit(yaclib::Job& job) noexcept final {
    if (stopped) {
      vrt::Obs("rejected", "");
      job.Drop();
      return;
    }
    vrt::Obs("submitted", "");
    job.Call();
  }
  void IncRef() noexcept final {
  }
  void DecRef() noexcept final {
  }
  std::size_t GetRef() noexcept final {
    return 1;
  }
};

struct Local {
  static inline long live = 0;
  static inline long dtors = 0;
  Local() {
    ++live;
  }
  ~Local() {
    --live;
    ++dtors;
    vrt::Obs("local_dtor", "");
  }
};

struct Env {
  std::string form;
  int n = 1;
  bool dyn = false;
  bool stop = false;
  Exec exec;
  std::vector<yaclib::Future<Payload>> fs;
  yaclib::SharedFuture<Payload> sf;
  std::string Outcomes() {
    std::string s;
    for (auto& f : fs) {
      vrt::Ambient amb;
      s += (s.empty() ? "" : "+");
      s += !f.Valid() ? std::string("invalid") : !f.Ready() ? std::string("not_ready") : vh::Desc(std::as_const(f).Touch());
    }
    return s;
  }
};

yaclib::Future<int> Coro(Env& env, int id) {
  Local local;
  if (env.form == "sticky") {
    co_await On(env.exec);  // the coroutine's own executor; it may stop accepting afterwards
    env.exec.stopped = env.stop;
  }
  vrt::Obs("started", "");
  if (env.form == "fut") {
    try {
      Payload p = co_await std::move(env.fs[0]);
      vrt::Obs("resumed", vh::Desc(p));
    } catch (const vh::TestError& e) {
      vrt::Obs("resumed", std::string("exc:") + e.what());
    }
  } else if (env.form == "sfut") {
    // several coroutines may await the same SharedFuture: each reports "<id>:<outcome>"
    try {
      Payload p = co_await env.sf;
      vrt::Obs("resumed", std::to_string(id) + ":" + vh::Desc(p));
    } catch (const vh::TestError& e) {
      vrt::Obs("resumed", std::to_string(id) + ":exc:" + e.what());
    }
  } else if (env.form == "await") {
    if (env.n == 1) {
      co_await Await(env.fs[0]);
    } else if (env.dyn) {
      co_await Await(env.fs.begin(), env.fs.size());
    } else {
      co_await Await(env.fs[0], env.fs[1]);
    }
    vrt::Obs("resumed", env.Outcomes());
  } else if (env.form == "sticky") {
    if (env.n == 1) {
      co_await AwaitSticky(env.fs[0]);
    } else if (env.dyn) {
      co_await AwaitSticky(env.fs.begin(), env.fs.size());
    } else {
      co_await AwaitSticky(env.fs[0], env.fs[1]);
    }
    vrt::Obs("resumed", env.Outcomes());
  } else {
    if (env.n == 1) {
      co_await AwaitOn(env.exec, env.fs[0]);
    } else if (env.dyn) {
      co_await AwaitOn(env.exec, env.fs.begin(), env.fs.size());
    } else {
      co_await AwaitOn(env.exec, env.fs[0], env.fs[1]);
    }
    vrt::Obs("resumed", env.Outcomes());
  }
  co_return 7;
}

yaclib::Future<> Dummy() {
  co_return {};
}

VRT_SCENARIO(aw, "a coroutine awaiting 1-2 futures (co_await, Await, AwaitSticky, AwaitOn) that producers complete concurrently") {
  Payload::ResetCounters();
  Local::live = 0;
  Local::dtors = 0;
  Env env;
  env.form = ctx.Param("form", "await");
  env.n = static_cast<int>(ctx.ParamInt("n", 1));
  env.dyn = ctx.Param("dyn", "0") == "1";
  const std::string outs = ctx.Param("outs", "vv");
  env.stop = ctx.Param("exec", "here") == "stop";
  env.exec.stopped = env.stop && env.form == "on";
  {
    auto f = Dummy();
    using PT = yaclib::detail::PromiseType<void, yaclib::StopError, false, false>;
    auto* core = f.GetCore().Get();
    auto* frame = yaclib_std::coroutine_handle<PT>::from_promise(static_cast<PT&>(*core)).address();
    vrt::NameOffsetAlias(static_cast<long>(reinterpret_cast<char*>(core) - static_cast<char*>(frame)) + vh::CallbackOffset(), "kcb");
  }
  std::vector<yaclib::Promise<Payload>> ps;
  yaclib::SharedPromise<Payload> sp;
  if (env.form == "sfut") {
    auto [f, p] = yaclib::MakeSharedContract<Payload>();
    vh::NameCore(f.GetCore().Get(), "c1");
    env.sf = std::move(f);
    sp = std::move(p);
  } else {
    for (int i = 0; i != env.n; ++i) {
      auto [f, p] = yaclib::MakeContract<Payload>();
      vh::NameCore(f.GetCore().Get(), "c" + std::to_string(i + 1));
      env.fs.push_back(std::move(f));
      ps.push_back(std::move(p));
    }
  }
  std::optional<yaclib::Future<int>> result;
  std::optional<yaclib::Future<int>> result2;
  const int coros = static_cast<int>(ctx.ParamInt("k", 1));
  std::vector<vh::Gate> gates(static_cast<std::size_t>(env.n));
  for (int i = 0; i != env.n; ++i) {
    vrt::NameField(&gates[static_cast<std::size_t>(i)].flag, "gate" + std::to_string(i + 1));
    ctx.Spawn("P" + std::to_string(i + 1), [&, i] {
      vrt::Api api{"Set"};
      gates[static_cast<std::size_t>(i)].Pass();
      const bool exc = outs[static_cast<std::size_t>(i)] == 'x';
      if (env.form == "sfut") {
        if (exc) {
          std::move(sp).Set(std::make_exception_ptr(vh::TestError{"e1"}));
        } else {
          std::move(sp).Set(Payload{11});
        }
      } else if (exc) {
        std::move(ps[static_cast<std::size_t>(i)]).Set(std::make_exception_ptr(vh::TestError{"e" + std::to_string(i + 1)}));
      } else {
        std::move(ps[static_cast<std::size_t>(i)]).Set(Payload{11 + i});
      }
    });
  }
  ctx.Spawn("K", [&] {
    vrt::Api api{"co_await"};
    result.emplace(Coro(env, 1));
  });
  if (coros == 2) {
    ctx.Spawn("L", [&] {
      vrt::Api api{"co_await"};
      result2.emplace(Coro(env, 2));
    });
  }
  ctx.JoinAll();
  if (result) {
    ctx.Final("result", result->Ready() ? vh::Desc(std::as_const(*result).Touch()) : std::string("not_ready"));
    result.reset();
  }
  if (result2) {
    ctx.Final("result2", result2->Ready() ? vh::Desc(std::as_const(*result2).Touch()) : std::string("not_ready"));
    result2.reset();
  }
  ctx.Final("locals", Local::dtors);
  ctx.Final("locals_live", Local::live);
  env.fs.clear();
  env.sf = {};
  ps.clear();
  ctx.Final("live", Payload::live);
}

}  // namespace
