// Command "exec": executes sequential submission histories enumerated by ExecSeq.tla on the real executors with
// REUSED job objects (properties C05, C07).  Input, one program per line, tokens "<executor><job>" or "D":
//   M1 M2 D S1        executors: M manual, S / T strands over M, R strand over a rejecting executor, I inline, J stopped inline
//   chain=1S2 M1 D    (first token, optional) job 1 submits job 2 to S from inside its Call, unless job 2 is queued
// Output per line:  <index> calls=a,b,c;drops=a,b,c;log=c1,c2,d3,...
#include "common.hpp"

#include <yaclib/exe/inline.hpp>
#include <yaclib/exe/manual.hpp>
#include <yaclib/exe/strand.hpp>

#include <cstdio>
#include <iostream>
#include <sstream>
#include <string>
#include <vector>

namespace {

std::string* g_log = nullptr;

struct CountJob final : yaclib::Job {
  int id = 0, calls = 0, drops = 0;
  bool queued = false;                    // sitting in some executor's queue (the client may not submit it again)
  yaclib::IExecutor* chain_to = nullptr;  // re-entrant submission from inside Call
  CountJob* chain_job = nullptr;
  void Call() noexcept final {
    queued = false;
    ++calls;
    *g_log += (g_log->empty() ? "" : ",") + std::string("c") + std::to_string(id);
    if (chain_to != nullptr && !chain_job->queued) {
      chain_job->queued = true;
      chain_to->Submit(*chain_job);
    }
  }
  void Drop() noexcept final {
    queued = false;
    ++drops;
    *g_log += (g_log->empty() ? "" : ",") + std::string("d") + std::to_string(id);
  }
};

class RejectExec final : public yaclib::IExecutor {
 public:
  [[nodiscard]] Type Tag() const noexcept final {
    return Type::Custom;
  }
  [[nodiscard]] bool Alive() const noexcept final {
    return false;
  }
  void Submit(yaclib::Job& job) noexcept final {
    job.Drop();
  }
  void IncRef() noexcept final {
  }
  void DecRef() noexcept final {
  }
  std::size_t GetRef() noexcept final {
    return 1;
  }
};

std::string Run(const std::string& line) {
  std::string log;
  g_log = &log;
  CountJob jobs[3];
  for (int i = 0; i != 3; ++i) {
    jobs[i].id = i + 1;
  }
  {
    auto manual = yaclib::MakeManual();
    auto& m = static_cast<yaclib::ManualExecutor&>(*manual);
    RejectExec reject;
    auto s = yaclib::MakeStrand(manual);
    auto t = yaclib::MakeStrand(manual);
    auto r = yaclib::MakeStrand(yaclib::IExecutorPtr{yaclib::NoRefTag{}, &reject});
    auto& inl = yaclib::MakeInline();
    auto& stopped = yaclib::MakeInline(yaclib::StopTag{});
    std::istringstream is(line);
    std::string tok;
    while (is >> tok) {
      if (tok.rfind("chain=", 0) == 0) {
        const char e = tok[7];
        jobs[0].chain_job = &jobs[1];
        jobs[0].chain_to = e == 'M'   ? static_cast<yaclib::IExecutor*>(&m)
                           : e == 'S' ? s.Get()
                           : e == 'T' ? t.Get()
                           : e == 'R' ? r.Get()
                                      : &inl;
        continue;
      }
      if (tok == "D") {
        (void)m.Drain();
        continue;
      }
      auto& job = jobs[tok[1] - '1'];
      job.queued = true;  // cleared by Call / Drop (at once for the executors that do not queue)
      switch (tok[0]) {
        case 'M':
          m.Submit(job);
          break;
        case 'S':
          s->Submit(job);
          break;
        case 'T':
          t->Submit(job);
          break;
        case 'R':
          r->Submit(job);
          break;
        case 'I':
          inl.Submit(job);
          break;
        case 'J':
          stopped.Submit(job);
          break;
        default:
          break;
      }
    }
    (void)m.Drain();
  }
  std::string out = "calls=";
  for (int i = 0; i != 3; ++i) {
    out += (i != 0 ? "," : "") + std::to_string(jobs[i].calls);
  }
  out += ";drops=";
  for (int i = 0; i != 3; ++i) {
    out += (i != 0 ? "," : "") + std::to_string(jobs[i].drops);
  }
  g_log = nullptr;
  return out + ";log=" + log;
}

int ExecMain(int, char**) {
  std::string line;
  long idx = 0;
  while (std::getline(std::cin, line)) {
    if (line.empty()) {
      continue;
    }
    std::printf("%ld %s\n", idx, Run(line).c_str());
    std::fflush(stdout);
    ++idx;
  }
  return 0;
}

vrt::CommandRegistrar g_reg{"exec", &ExecMain};

}  // namespace
