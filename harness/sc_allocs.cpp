// Command "allocs": counts global operator new calls made INSIDE library calls (C20, second and third clause):
// combinators over n = 1..N plain futures (every policy / form), waits over n futures, Get, Strand submission of an
// existing job, co_await of futures.  One ndjson record per measurement:
//   {"api": "...", "n": n, "allocs": blocks allocated by the call(s), "kind": "combinator" | "zero"}
#include "common.hpp"

#include <yaclib/async/contract.hpp>
#include <yaclib/async/join.hpp>
#include <yaclib/async/make.hpp>
#include <yaclib/async/wait.hpp>
#include <yaclib/async/wait_for.hpp>
#include <yaclib/async/wait_until.hpp>
#include <yaclib/async/when_all.hpp>
#include <yaclib/async/when_any.hpp>
#include <yaclib/coro/await.hpp>
#include <yaclib/coro/future.hpp>
#include <yaclib/exe/strand.hpp>
#include <yaclib/exe/submit.hpp>
#include <yaclib/fault/detail/fiber/scheduler.hpp>

#include <chrono>
#include <cstdio>
#include <vector>
#include <yaclib_std/thread>

namespace {

using namespace std::chrono_literals;

std::uint64_t News() {
  return vrt::GetAllocStats().news;
}

void Emit(const char* api, std::size_t n, std::uint64_t allocs, const char* kind) {
  std::printf("{\"api\":\"%s\",\"n\":%zu,\"allocs\":%llu,\"kind\":\"%s\"}\n", api, n, static_cast<unsigned long long>(allocs), kind);
}

struct Inputs {
  std::vector<yaclib::Future<int>> fs;
  std::vector<yaclib::Promise<int>> ps;
  explicit Inputs(std::size_t n) {
    fs.reserve(n);
    ps.reserve(n);
    for (std::size_t i = 0; i != n; ++i) {
      auto [f, p] = yaclib::MakeContract<int>();
      fs.push_back(std::move(f));
      ps.push_back(std::move(p));
    }
  }
  void Fulfil(bool fail_first = false) {
    for (std::size_t i = 0; i != ps.size(); ++i) {
      if (fail_first && i == 0) {
        std::move(ps[i]).Set(yaclib::StopTag{});
      } else {
        std::move(ps[i]).Set(static_cast<int>(i));
      }
    }
  }
};

// the same inputs as FutureOn (a plain future that carries an executor)
struct OnInputs {
  std::vector<yaclib::FutureOn<int>> fs;
  std::vector<yaclib::Promise<int>> ps;
  explicit OnInputs(std::size_t n) {
    fs.reserve(n);
    ps.reserve(n);
    for (std::size_t i = 0; i != n; ++i) {
      auto [f, p] = yaclib::MakeContractOn<int>(yaclib::MakeInline());
      fs.push_back(std::move(f));
      ps.push_back(std::move(p));
    }
  }
  void Fulfil() {
    for (std::size_t i = 0; i != ps.size(); ++i) {
      std::move(ps[i]).Set(static_cast<int>(i));
    }
  }
};

// every wait form over a range of complete futures
template <typename In>
void ReadyWaits(const char* elem, std::size_t n) {
  using namespace std::chrono_literals;
  const std::string e = elem;
  In in{n};
  in.Fulfil();
  auto a0 = News();
  yaclib::Wait(in.fs.begin(), in.fs.end());
  Emit(("Wait(ready " + e + ")").c_str(), n, News() - a0, "zero");
  a0 = News();
  yaclib::Wait(in.fs.begin(), in.fs.size());
  Emit(("Wait(ready " + e + ", begin,n)").c_str(), n, News() - a0, "zero");
  a0 = News();
  (void)yaclib::WaitFor(1ms, in.fs.begin(), in.fs.end());
  Emit(("WaitFor(ready " + e + ")").c_str(), n, News() - a0, "zero");
  a0 = News();
  (void)yaclib::WaitUntil(std::chrono::steady_clock::now() + 1ms, in.fs.begin(), in.fs.end());
  Emit(("WaitUntil(ready " + e + ")").c_str(), n, News() - a0, "zero");
  if (n >= 3) {
    a0 = News();
    yaclib::Wait(in.fs[0], in.fs[1], in.fs[2]);
    Emit(("Wait(ready " + e + ", f1,f2,f3)").c_str(), 3, News() - a0, "zero");
    a0 = News();
    (void)yaclib::WaitFor(1ms, in.fs[0], in.fs[1]);
    Emit(("WaitFor(ready " + e + ", f1,f2)").c_str(), 2, News() - a0, "zero");
  }
  a0 = News();
  yaclib::Wait(in.fs[0]);
  Emit(("Wait(ready " + e + ", f)").c_str(), 1, News() - a0, "zero");
}

template <typename In>
void PendingWait(const char* api, std::size_t n, bool timed) {
  using namespace std::chrono_literals;
  In in{n};
  std::uint64_t in_wait = 0;
  // the waiter blocks; a second fiber fulfils: allocations of the fiber machinery itself are excluded by measuring
  // around the library call only (the producer fiber is created before the window)
  yaclib::fault::Scheduler scheduler;
  yaclib::fault::Scheduler::Set(&scheduler);
  yaclib_std::thread root([&] {
    yaclib_std::thread producer([&] {
      in.Fulfil();
    });
    auto a0 = News();
    if (timed) {
      (void)yaclib::WaitFor(1s, in.fs.begin(), in.fs.end());
    } else {
      yaclib::Wait(in.fs.begin(), in.fs.end());
    }
    in_wait = News() - a0;
    producer.join();
  });
  root.join();
  yaclib::fault::Scheduler::Set(nullptr);
  Emit(api, n, in_wait, "zero_fiber");
}

struct VoidInputs {
  std::vector<yaclib::Future<>> fs;
  std::vector<yaclib::Promise<>> ps;
  explicit VoidInputs(std::size_t n) {
    fs.reserve(n);
    ps.reserve(n);
    for (std::size_t i = 0; i != n; ++i) {
      auto [f, p] = yaclib::MakeContract<>();
      fs.push_back(std::move(f));
      ps.push_back(std::move(p));
    }
  }
};

// allocations of: building the combinator + completing every input + reading the result
// fail: 0 every input succeeds, 1 the first input fails (StopError), 2 the last one fails (completed first)
template <typename Build>
void Combinator(const char* api, std::size_t n, Build build, int fail = 0) {
  Inputs in{n};
  auto a0 = News();
  auto out = build(in);
  auto a1 = News();
  if (fail == 2) {
    // every other input completes successfully after the failure was seen
    std::move(in.ps.back()).Set(yaclib::StopTag{});
    for (std::size_t i = 0; i + 1 < in.ps.size(); ++i) {
      std::move(in.ps[i]).Set(static_cast<int>(i));
    }
  } else {
    in.Fulfil(fail == 1);
  }
  auto a2 = News();
  (void)std::move(out).Get();
  auto a3 = News();
  (void)a1;
  (void)a2;
  Emit(api, n, a3 - a0, "combinator");
}

struct NopJob final : yaclib::Job {
  int calls = 0;
  void Call() noexcept final {
    ++calls;
  }
  void Drop() noexcept final {
  }
};

class ManualExec final : public yaclib::IExecutor {
 public:
  std::vector<yaclib::Job*> jobs;
  ManualExec() {
    jobs.reserve(64);
  }
  [[nodiscard]] Type Tag() const noexcept final {
    return Type::Custom;
  }
  [[nodiscard]] bool Alive() const noexcept final {
    return true;
  }
  void Submit(yaclib::Job& job) noexcept final {
    jobs.push_back(&job);
  }
  void Drain() {
    while (!jobs.empty()) {
      auto* j = jobs.back();
      jobs.pop_back();
      j->Call();
    }
  }
  void IncRef() noexcept final {
  }
  void DecRef() noexcept final {
  }
  std::size_t GetRef() noexcept final {
    return 1;
  }
};

std::uint64_t g_await_allocs = 0;

yaclib::Future<int> AwaitOne(yaclib::Future<int>& f) {
  auto a0 = News();
  co_await Await(f);
  g_await_allocs += News() - a0;
  co_return 1;
}
yaclib::Future<int> AwaitMany(std::vector<yaclib::Future<int>>& fs) {
  auto a0 = News();
  co_await Await(fs.begin(), fs.size());
  g_await_allocs += News() - a0;
  co_return 1;
}
yaclib::Future<int> AwaitValue(yaclib::Future<int> f) {
  auto a0 = News();
  int v = co_await std::move(f);
  g_await_allocs += News() - a0;
  co_return v;
}

int AllocsMain(int argc, char** argv) {
  std::size_t max_n = 12;
  for (int i = 0; i < argc; ++i) {
    if (std::string(argv[i]) == "--max" && i + 1 < argc) {
      max_n = static_cast<std::size_t>(std::atol(argv[i + 1]));
    }
  }
  vrt::SetAllocNaming(false);
  using yaclib::FailPolicy;
  for (std::size_t n = 1; n <= max_n; ++n) {
    Combinator("WhenAll<FirstFail>(begin,n)", n, [](Inputs& in) { return yaclib::WhenAll(in.fs.begin(), in.fs.size()); });
    Combinator("WhenAll<None>(begin,n)", n, [](Inputs& in) { return yaclib::WhenAll<FailPolicy::None>(in.fs.begin(), in.fs.size()); });
    Combinator("WhenAll(begin,end)", n, [](Inputs& in) { return yaclib::WhenAll(in.fs.begin(), in.fs.end()); });
    Combinator("WhenAny<LastFail>(begin,n)", n, [](Inputs& in) { return yaclib::WhenAny(in.fs.begin(), in.fs.size()); });
    Combinator("WhenAny<FirstFail>(begin,n)", n, [](Inputs& in) { return yaclib::WhenAny<FailPolicy::FirstFail>(in.fs.begin(), in.fs.size()); });
    Combinator("WhenAny<None>(begin,n)", n, [](Inputs& in) { return yaclib::WhenAny<FailPolicy::None>(in.fs.begin(), in.fs.size()); });
    Combinator("Join(begin,n)", n, [](Inputs& in) { return yaclib::Join(in.fs.begin(), in.fs.size()); });
    // the same with a failing input: the cost stays a constant on the failure paths too
    for (int fail = 1; fail <= 2; ++fail) {
      const std::string tag = fail == 1 ? " first fails" : " last fails, completed first";
      Combinator(("WhenAll<FirstFail>(begin,n)" + tag).c_str(), n, [](Inputs& in) { return yaclib::WhenAll(in.fs.begin(), in.fs.size()); }, fail);
      Combinator(("WhenAll<None>(begin,n)" + tag).c_str(), n, [](Inputs& in) { return yaclib::WhenAll<FailPolicy::None>(in.fs.begin(), in.fs.size()); }, fail);
      Combinator(("WhenAny<LastFail>(begin,n)" + tag).c_str(), n, [](Inputs& in) { return yaclib::WhenAny(in.fs.begin(), in.fs.size()); }, fail);
      Combinator(("WhenAny<FirstFail>(begin,n)" + tag).c_str(), n, [](Inputs& in) { return yaclib::WhenAny<FailPolicy::FirstFail>(in.fs.begin(), in.fs.size()); }, fail);
      Combinator(("Join(begin,n)" + tag).c_str(), n, [](Inputs& in) { return yaclib::Join(in.fs.begin(), in.fs.size()); }, fail);
    }
    {
      VoidInputs in{n};
      auto a0 = News();
      auto out = yaclib::WhenAll(in.fs.begin(), in.fs.size());
      for (auto& p : in.ps) {
        std::move(p).Set();
      }
      (void)std::move(out).Get();
      Emit("WhenAll<void>(begin,n)", n, News() - a0, "combinator");
    }
    // waits on futures that are already complete, and on futures completed by another fiber; Future and FutureOn elements
    ReadyWaits<Inputs>("Future", n);
    ReadyWaits<OnInputs>("FutureOn", n);
    PendingWait<Inputs>("Wait(pending Future)", n, false);
    PendingWait<OnInputs>("Wait(pending FutureOn)", n, false);
    // (a timed wait that really blocks is not measured here: under the FIBER backend the scheduler's own sleep queue
    // allocates a node for the sleeper, which is the fault layer's cost, not the library's)
    {
      Inputs in{n};
      g_await_allocs = 0;
      auto c = n == 1 ? AwaitOne(in.fs[0]) : AwaitMany(in.fs);
      in.Fulfil();
      (void)std::move(c).Get();
      Emit(n == 1 ? "co_await Await(f)" : "co_await Await(begin,n)", n, g_await_allocs, "zero");
    }
  }
  {
    auto [f, p] = yaclib::MakeContract<int>();
    std::move(p).Set(1);
    auto a0 = News();
    (void)std::move(f).Get();
    Emit("Future::Get(ready)", 1, News() - a0, "zero");
  }
  {
    auto [f, p] = yaclib::MakeContract<int>();
    g_await_allocs = 0;
    auto c = AwaitValue(std::move(f));
    std::move(p).Set(5);
    (void)std::move(c).Get();
    Emit("co_await Future", 1, g_await_allocs, "zero");
  }
  {
    ManualExec e;
    auto strand = yaclib::MakeStrand(yaclib::IExecutorPtr{yaclib::NoRefTag{}, &e});
    NopJob jobs[4];
    auto a0 = News();
    for (auto& j : jobs) {
      strand->Submit(j);
    }
    auto a1 = News();
    e.Drain();
    Emit("Strand::Submit(job)", 4, a1 - a0, "zero");
    strand = nullptr;
  }
  return 0;
}

vrt::CommandRegistrar g_reg{"allocs", &AllocsMain};

}  // namespace
