// Scenario "st": k submitter threads push jobs on a Strand over a VerifPool with n workers; the pool may be stopped
// at any point (C07; executor clauses of C05; C03/C04 clauses).
//   subs = e.g. "21" (submitter i submits that many jobs)   workers = 1 | 2   stop = none | stop | hard   weak = 0 | 1
#include "common.hpp"

#include <yaclib/exe/strand.hpp>

#include <vector>

namespace {

struct StrandJob final : yaclib::Job {
  int id = 0;
  yaclib_std::atomic<int>* scratch = nullptr;
  int* plain = nullptr;
  void Call() noexcept final {
    vrt::Obs("enter", std::to_string(id));
    *plain = id;  // consecutive jobs write the same plain location (happens-before between jobs: C04)
    scratch->fetch_add(1, std::memory_order_relaxed);
    vrt::Obs("leave", std::to_string(id));
  }
  void Drop() noexcept final {
    vrt::Obs("drop", std::to_string(id));
  }
};

VRT_SCENARIO(st, "submitters, a Strand, an underlying pool of n workers that may be stopped") {
  const std::string subs = ctx.Param("subs", "11");
  const int workers = static_cast<int>(ctx.ParamInt("workers", 1));
  const std::string stop = ctx.Param("stop", "none");
  ctx.EnableWeakFail(static_cast<int>(ctx.ParamInt("weak", 0)));
  yaclib_std::atomic<int> scratch{0};
  vrt::NameField(&scratch, "scratch");
  int plain = 0;
  std::vector<std::vector<StrandJob>> jobs(subs.size());
  for (std::size_t s = 0; s != subs.size(); ++s) {
    jobs[s].resize(static_cast<std::size_t>(subs[s] - '0'));
    for (std::size_t j = 0; j != jobs[s].size(); ++j) {
      auto& job = jobs[s][j];
      job.id = static_cast<int>(10 * (s + 1) + j + 1);
      job.scratch = &scratch;
      job.plain = &plain;
      vrt::NameRange(&job, sizeof(job), "j" + std::to_string(job.id));
    }
  }
  auto pool = std::make_unique<vh::VerifPool>(workers);
  yaclib::IExecutorPtr strand;
  {
    strand = yaclib::MakeStrand(yaclib::IExecutorPtr{yaclib::NoRefTag{}, pool.get()});
  }
  // calibrate the names of the strand's two atomics: a Submit on the idle strand touches _jobs first
  vh::Gate gate;
  vrt::NameField(&gate.flag, "kgate");
  for (std::size_t s = 0; s != subs.size(); ++s) {
    ctx.Spawn("S" + std::to_string(s + 1), [&, s] {
      for (auto& job : jobs[s]) {
        vrt::Api api{"Submit"};
        strand->Submit(job);
      }
    });
  }
  if (stop != "none") {
    ctx.Spawn("K", [&] {
      vrt::Api api{"Stop"};
      gate.Pass();
      if (stop == "stop") {
        pool->Stop();
      } else {
        pool->HardStop();
      }
      vrt::Obs("stopped");
    });
  }
  ctx.JoinAll();
  pool->Finish();
  pool->Join();
  strand = nullptr;
  ctx.Final("scratch", scratch.load(std::memory_order_relaxed));
}

}  // namespace
