// Scenario "uc": one producer and one consumer on a Future/Promise pair (C01, C03, C04).
//   prod = val | err | exc | drop | thr_retry (the first Set throws while the Result is constructed, the producer then
//          sets the exception) | thr_drop (the first Set throws, the Promise is dropped)
//   cons = then_inline | then_exec | detach | detach_inline | detach_exec | get | get_const | wait | connect | drop
#include "common.hpp"

#include <yaclib/async/connect.hpp>
#include <yaclib/async/contract.hpp>
#include <yaclib/async/future.hpp>
#include <yaclib/async/promise.hpp>
#include <yaclib/async/wait.hpp>

#include <optional>

namespace {

using vh::Payload;
using R = yaclib::Result<Payload>;

vh::QueueExec g_exec{"q"};

VRT_SCENARIO(uc, "producer/consumer hand-off on one Future/Promise pair") {
  vrt::NameOffsetAlias(vh::CallbackOffset(), "cb");
  vrt::NameField(&yaclib::detail::MakeDrop(), "drop");
  Payload::ResetCounters();
  g_exec.Reset();
  ctx.EnableWeakFail(static_cast<int>(ctx.ParamInt("weak", 1)));  // the hand-off must not depend on a weak CAS succeeding
  const std::string prod = ctx.Param("prod", "val");
  const std::string cons = ctx.Param("cons", "then_inline");

  auto [f0, p0] = yaclib::MakeContract<Payload>();
  vh::NameCore(f0.GetCore().Get(), "c1");
  yaclib::Future<Payload> f = std::move(f0);
  yaclib::Promise<Payload> p = std::move(p0);

  // objects handed back to the root for the final inspection
  std::optional<yaclib::Future<int>> next;        // result of Then*/ThenInline
  std::optional<yaclib::Future<Payload>> kept;    // the future itself (get_const, wait)
  std::optional<yaclib::Future<Payload>> f2;      // connect target
  std::optional<yaclib::Promise<Payload>> p2;
  if (cons == "connect") {
    auto [ff, pp] = yaclib::MakeContract<Payload>();
    vh::NameCore(ff.GetCore().Get(), "c2");
    f2.emplace(std::move(ff));
    p2.emplace(std::move(pp));
  }

  vh::Gate gate;
  ctx.Spawn("P", [&] {
    vrt::Api api{"Set"};
    gate.Pass();
    if (prod == "val") {
      std::move(p).Set(Payload{7});
    } else if (prod == "err") {
      std::move(p).Set(yaclib::StopTag{});
    } else if (prod == "exc") {
      std::move(p).Set(std::make_exception_ptr(vh::TestError{"x"}));
    } else if (prod == "thr_retry" || prod == "thr_drop") {
      // Set is not noexcept: when constructing the Result throws, nothing was published and the Promise is still the
      // producer's -- it can set something else, or drop it (StopError)
      try {
        std::move(p).Set(vh::ThrowOnConstruct{});
      } catch (const vh::TestError&) {
        if (!p.Valid()) {
          vrt::Obs("promise_lost", "");
        } else if (prod == "thr_retry") {
          std::move(p).Set(std::make_exception_ptr(vh::TestError{"x"}));
        } else {
          auto dropped = std::move(p);
        }
      }
    } else {
      auto dropped = std::move(p);  // ~Promise
    }
  });

  ctx.Spawn("C", [&] {
    auto on_result = [](R&& r) {
      vrt::Obs("call", vh::Desc(r));
      return 1;
    };
    auto on_result_void = [](R&& r) {
      vrt::Obs("call", vh::Desc(r));
    };
    if (cons == "then_inline") {
      vrt::Api api{"ThenInline"};
      next.emplace(std::move(f).ThenInline(on_result));
    } else if (cons == "then_exec") {
      vrt::Api api{"Then"};
      next.emplace(std::move(f).Then(g_exec, on_result).On(nullptr));
    } else if (cons == "detach") {
      vrt::Api api{"Detach"};
      std::move(f).Detach();
    } else if (cons == "drop") {
      vrt::Api api{"~Future"};
      auto dropped = std::move(f);
    } else if (cons == "detach_inline") {
      vrt::Api api{"DetachInline"};
      std::move(f).DetachInline(on_result_void);
    } else if (cons == "detach_exec") {
      vrt::Api api{"DetachOn"};
      std::move(f).Detach(g_exec, on_result_void);
    } else if (cons == "get") {
      vrt::Api api{"Get"};
      auto r = std::move(f).Get();
      VRT_STACK_RETURN();
      vrt::Obs("get", vh::Desc(r));
    } else if (cons == "get_const") {
      vrt::Api api{"GetConst"};
      for (int i = 0; i != 2; ++i) {
        const auto* r = std::as_const(f).Get();
        if (r != nullptr) {
          vrt::Obs("ready", "1");
          vrt::Obs("read", vh::Desc(*r));
          break;
        }
        vrt::Obs("ready", "0");
      }
      kept.emplace(std::move(f));
    } else if (cons == "wait") {
      vrt::Api api{"Wait"};
      yaclib::Wait(f);
      VRT_STACK_RETURN();
      vrt::Obs("waited");
      vrt::Obs("ready", f.Ready() ? "1" : "0");
      kept.emplace(std::move(f));
    } else if (cons == "connect") {
      vrt::Api api{"Connect"};
      yaclib::Connect(std::move(f), std::move(*p2));
      p2.reset();
    }
  });

  ctx.JoinAll();
  // root: drain the recording executor and inspect what was handed back
  while (!g_exec.Empty()) {
    g_exec.Drain();
  }
  if (next) {
    ctx.Final("next_ready", next->Ready() ? 1 : 0);
    if (next->Ready()) {
      ctx.Final("next", vh::Desc(std::move(*next).Get()));
    }
    next.reset();
  }
  if (kept) {
    ctx.Final("kept_ready", kept->Ready() ? 1 : 0);
    if (kept->Ready()) {
      ctx.Final("kept", vh::Desc(std::move(*kept).Get()));
    }
    kept.reset();
  }
  if (f2) {
    ctx.Final("f2_ready", f2->Ready() ? 1 : 0);
    if (f2->Ready()) {
      ctx.Final("f2", vh::Desc(std::move(*f2).Get()));
    }
    f2.reset();
  }
  ctx.Final("live", Payload::live);
  ctx.Final("read_moved", Payload::read_moved);
  ctx.Final("submits", g_exec.submits);
  ctx.Final("calls", g_exec.calls);
}

}  // namespace
