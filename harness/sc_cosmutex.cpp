// Scenario "sm": reader and writer coroutines on an n-worker pool, several rounds each on one yaclib::SharedMutex (C15).
//   opts   = two digits <FIFO><ReadersFIFO>, e.g. 10
//   workers= 1 | 2 | 3
//   p1..p4 = program of coroutine i, one letter per round:
//        r  co_await LockShared()  ... UnlockHereShared()
//        w  co_await Lock()        ... UnlockHere()
//        g  co_await GuardShared() ... scope exit
//        G  co_await Guard()       ... scope exit
//        R  TryLockShared()        ... UnlockHereShared()   (round skipped when the try fails)
//        W  TryLock()              ... UnlockHere()
// Inside a section: "enter <i><s|x>:<last writer>", an exclusive section writes the shared cell, a shared one reads it,
// one visible operation on a scratch atomic, "leave <i>".
#include "common.hpp"

#include <yaclib/coro/await.hpp>
#include <yaclib/coro/future.hpp>
#include <yaclib/coro/on.hpp>
#include <yaclib/coro/shared_mutex.hpp>

#include <optional>
#include <vector>

namespace {

struct Env {
  vh::VerifPool* pool = nullptr;
  int data = 0;
  yaclib_std::atomic<int> scratch{0};
};

void Section(Env& env, int id, bool exclusive) {
  vrt::Obs("enter", std::to_string(id) + (exclusive ? "x:" : "s:") + std::to_string(env.data));
  if (exclusive) {
    env.data = id;
  }
  env.scratch.fetch_add(1, std::memory_order_relaxed);
  vrt::Obs("leave", std::to_string(id));
}

template <typename M>
yaclib::Future<> Worker(M& m, Env& env, int id, std::string prog) {
  co_await On(*env.pool);
  for (char form : prog) {
    switch (form) {
      case 'r':
        co_await m.LockShared();
        Section(env, id, false);
        m.UnlockHereShared();
        break;
      case 'w':
        co_await m.Lock();
        Section(env, id, true);
        m.UnlockHere();
        break;
      case 'g': {
        auto g = co_await m.GuardShared();
        Section(env, id, false);
      } break;
      case 'G': {
        auto g = co_await m.Guard();
        Section(env, id, true);
      } break;
      case 'R':
        if (m.TryLockShared()) {
          Section(env, id, false);
          m.UnlockHereShared();
        } else {
          vrt::Obs("tryfail", std::to_string(id));
        }
        break;
      case 'W':
        if (m.TryLock()) {
          Section(env, id, true);
          m.UnlockHere();
        } else {
          vrt::Obs("tryfail", std::to_string(id));
        }
        break;
      default:
        break;
    }
  }
  vrt::Obs("finish", std::to_string(id));
  co_return {};
}

template <typename M>
void Run(vrt::Ctx& ctx) {
  const int workers = static_cast<int>(ctx.ParamInt("workers", 2));
  Env env;
  vrt::NameField(&env.scratch, "scratch");
  M m;
  {
    // field names by calibration: a shared try touches the state word; an exclusive lock / unlock pair with a reader
    // inside would need the slow path, so the spinlock and the readers_wait word are named by their offsets from it
    (void)m.TryLockShared();
    vrt::NameField(vrt::LastOpObject(), "state");
    m.UnlockHereShared();
    vrt::NameRange(&m, sizeof m, "sm");
  }
  auto pool = std::make_unique<vh::VerifPool>(workers);
  env.pool = pool.get();
  std::vector<std::optional<yaclib::Future<>>> fs(4);
  for (int i = 0; i != 4; ++i) {
    const std::string prog = ctx.Param("p" + std::to_string(i + 1), "");
    if (prog.empty()) {
      continue;
    }
    fs[static_cast<std::size_t>(i)].emplace(Worker(m, env, i + 1, prog));
    vh::NameCore(fs[static_cast<std::size_t>(i)]->GetCore().Get(), "k" + std::to_string(i + 1));
  }
  ctx.JoinAll();
  pool->Finish();
  pool->Join();
  for (int i = 0; i != 4; ++i) {
    auto& f = fs[static_cast<std::size_t>(i)];
    if (f) {
      ctx.Final("co" + std::to_string(i + 1), f->Ready() ? "ready" : "not_ready");
      f.reset();
    }
  }
  ctx.Final("data", env.data);
  ctx.Final("free", m.TryLock() ? "1" : "0");
}

VRT_SCENARIO(sm, "coroutine SharedMutex: reader / writer coroutines x rounds on an n-worker pool, <FIFO,ReadersFIFO> options") {
  const std::string opts = ctx.Param("opts", "10");
  if (opts == "00") {
    Run<yaclib::SharedMutex<false, false>>(ctx);
  } else if (opts == "01") {
    Run<yaclib::SharedMutex<false, true>>(ctx);
  } else if (opts == "10") {
    Run<yaclib::SharedMutex<true, false>>(ctx);
  } else {
    Run<yaclib::SharedMutex<true, true>>(ctx);
  }
}

}  // namespace
