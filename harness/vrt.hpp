// vrt — verification run-time for YACLib conformance harnesses.
//
// The library is built with the FIBER fault backend and -DYACLIB_VERIF; every yaclib_std operation then
// passes through yaclib::InjectFault() and the hooks of <yaclib/fault/verif.hpp>.  vrt installs a
// controller behind those hooks which
//   * makes every scheduling decision (which fiber performs its next visible operation, which waiter a
//     notify wakes, whether a weak CAS fails spuriously, whether virtual time jumps to the next deadline),
//   * records one event per *slice* (= one visible operation of one process plus the plain code that
//     follows it up to the next visible operation) as an ndjson line,
//   * enumerates schedules (exhaustive DFS by re-execution, seeded random, PCT-like, or replay of a given
//     schedule).
// The events are checked against the TLA+ specifications by TLC (trace validation); vrt itself decides
// nothing about the properties.
#pragma once

#include <cstddef>
#include <cstdint>
#include <functional>
#include <map>
#include <string>
#include <vector>

namespace vrt {

// ---------------------------------------------------------------- scenario side API

// Observable event of the current process (callback ran, Get returned, object destroyed ...).  It is
// attached to the slice event in which it happened.
void Obs(const std::string& kind, const std::string& value = "");

// Name the calling fiber (a thread created by library / pool code, e.g. a worker) as a process of the model.
void NameSelf(const std::string& name);

// Label of the public API call in progress (used in event records as "api").
struct Api {
  explicit Api(const char* name);
  ~Api();
  const char* prev;
};

// Operations inside an Ambient scope are neither scheduling points nor recorded.
struct Ambient {
  Ambient();
  ~Ambient();
};

// Call right after a blocking library call returned: everything that call kept on the stack of the calling process
// (below `frame`) is dead now. An operation of ANOTHER process on such an address is recorded as the observation
// {"k":"use_after_return","v":"<owner>"} ("no completion touches the waiter after the call returned").
void MarkStackDead(const void* frame);
#define VRT_STACK_RETURN() ::vrt::MarkStackDead(__builtin_frame_address(0))

// Give a stable name to an atomic / lock / condvar object (exact address).
// harness-declared preemption point inside plain code; taken only in tail-split executions (monitors only)
void SplitPoint();
// operator new never hands out an address twice (see vrt.cpp); used by the reproducibility runs
// descending: later blocks get lower addresses (an address-ordered decision sees the opposite order)
void SetNoReuseHeap(bool on, bool descending = false);
void NameField(const void* addr, const std::string& name);
// Give a stable name to a memory range; fields inside are reported as name+offset, pointers into it as @name.
void NameRange(const void* addr, std::size_t size, const std::string& name);
// Inside any named range or allocation, report the atomic at byte offset `off` as "<range>.<alias>".
void NameOffsetAlias(long off, const std::string& alias);
// Address of the object of the most recent yaclib_std operation of the calling fiber/thread (also ambient ones);
// used to calibrate field names: perform one known operation, then NameField(LastOpObject(), "...").
// back = k: the object of the k-th operation before the most recent one (k < 8)
const void* LastOpObject(int back = 0);
// Name of the range/field containing addr ("" if unknown).
std::string NameOf(std::uintptr_t addr);

struct Ctx;
using ProcFn = std::function<void()>;

struct Ctx {
  std::map<std::string, std::string> params;
  std::string Param(const std::string& k, const std::string& dflt = "") const;
  long ParamInt(const std::string& k, long dflt) const;
  // start a tracked process (a fiber created with yaclib_std::thread)
  void Spawn(const std::string& name, ProcFn fn);
  // block the root fiber until all spawned processes have finished
  void JoinAll();
  // record a key of the final observable state ("end" record)
  void Final(const std::string& key, const std::string& value);
  void Final(const std::string& key, long value);
  // allow the controller to fire timers at any scheduling point of this execution
  void EnableTimeChoice();
  // allow spurious weak-CAS failures (at most `budget` per execution)
  void EnableWeakFail(int budget);
  // every injection point of the fault layer is a scheduling point, also those of operations without a hook descriptor
  void EnableAnonYield();
};

struct Scenario {
  const char* name;
  void (*run)(Ctx&);
  const char* help;
};

void Register(const Scenario& s);

struct Registrar {
  explicit Registrar(const Scenario& s) {
    Register(s);
  }
};

// non-fiber commands ("vrt <command> ..."), e.g. the sequential program interpreters
using CommandFn = int (*)(int argc, char** argv);
void RegisterCommand(const char* name, CommandFn fn);
struct CommandRegistrar {
  CommandRegistrar(const char* name, CommandFn fn) {
    RegisterCommand(name, fn);
  }
};

// ---------------------------------------------------------------- allocation accounting (C03 / C20)

struct AllocStats {
  std::uint64_t news = 0;
  std::uint64_t deletes = 0;
  std::int64_t live_bytes = 0;
};
AllocStats GetAllocStats();
// allocations made by tracked processes are named "<proc>.a<k>"
void SetAllocNaming(bool on);

// ---------------------------------------------------------------- driver

int Main(int argc, char** argv);

}  // namespace vrt

#define VRT_SCENARIO(ident, help)                                                                                       \
  static void ident(vrt::Ctx& ctx);                                                                                    \
  static vrt::Registrar ident##_registrar{vrt::Scenario{#ident, &ident, help}};                                       \
  static void ident(vrt::Ctx& ctx)
