// Command "when": executes sequential completion histories enumerated by WhenSeq.tla on the real combinators
// (properties C09, C10).  Input, one program per line:
//   <strat> <n> <outs> <order> <pre> <form> <kind>      e.g.  tuple_ff 2 xv 21 1 static mixed
// Output per line:  <index> out=<desc>;live=<payloads alive at the end>;leak=<allocation balance>
#include "common.hpp"

#include <yaclib/async/contract.hpp>
#include <yaclib/async/join.hpp>
#include <yaclib/async/shared_contract.hpp>
#include <yaclib/async/when_all.hpp>
#include <yaclib/async/when_any.hpp>

#include <cstdio>
#include <iostream>
#include <sstream>
#include <string>
#include <tuple>
#include <vector>

namespace {

using vh::Payload;
using yaclib::FailPolicy;

int g_sub_calls = 0;

template <typename T>
struct In {
  bool shared = false;
  yaclib::Future<T> u;
  yaclib::SharedFuture<T> s;
  yaclib::Promise<T> p;
  yaclib::SharedPromise<T> sp;
  void Make(bool sh) {
    shared = sh;
    if (sh) {
      auto [f, pr] = yaclib::MakeSharedContract<T>();
      s = std::move(f);
      sp = std::move(pr);
    } else {
      auto [f, pr] = yaclib::MakeContract<T>();
      u = std::move(f);
      p = std::move(pr);
    }
  }
  template <typename X>
  void SetAny(X&& x) {
    if (shared) {
      std::move(sp).Set(std::forward<X>(x));
    } else {
      std::move(p).Set(std::forward<X>(x));
    }
  }
  void Complete(int i, char letter) {
    if (letter == 'v') {
      SetAny(T{10 + i});
    } else if (letter == 'e') {
      SetAny(yaclib::StopTag{});
    } else {
      SetAny(std::make_exception_ptr(vh::TestError{"e" + std::to_string(i)}));
    }
  }
  // another subscriber of the same shared state (the combinator is not alone in its callback list)
  void Subscribe() {
    if (shared) {
      s.SubscribeInline([](const yaclib::Result<T>&) {
        ++g_sub_calls;
      });
    }
  }
  void Drop() {
    u = {};
    s = {};
  }
};

// call f(in1, in2, ...) with every input moved (unique) or copied (shared)
template <typename F>
auto Apply(F&& f) {
  return f();
}
template <typename F, typename I, typename... Rest>
auto Apply(F&& f, I& in, Rest&... rest) {
  if (in.shared) {
    return Apply(
      [&](auto&&... xs) {
        return f(decltype(in.s){in.s}, std::forward<decltype(xs)>(xs)...);
      },
      rest...);
  }
  return Apply(
    [&](auto&&... xs) {
      return f(std::move(in.u), std::forward<decltype(xs)>(xs)...);
    },
    rest...);
}

std::string D(const Payload& p) {
  return vh::Desc(p);
}
std::string D(int v) {
  return vh::Desc(v);
}
template <typename V>
std::string D(const yaclib::Result<V>& r) {
  return vh::Desc(r);
}
template <typename V>
std::string D(const std::vector<V>& v) {
  std::string s = "[";
  for (auto& x : v) {
    s += (s.size() > 1 ? "," : "") + D(x);
  }
  return s + "]";
}
template <typename... V>
std::string D(const std::tuple<V...>& t) {
  std::string s = "[";
  std::apply(
    [&](auto&... x) {
      ((s += (s.size() > 1 ? "," : "") + D(x)), ...);
    },
    t);
  return s + "]";
}

template <typename Fut>
std::string Take(Fut& f) {
  if (!f.Valid()) {
    return "invalid";
  }
  if (!f.Ready()) {
    return "not_ready";
  }
  auto r = std::move(f).Get();
  if (r.State() == yaclib::ResultState::Error) {
    return "stop";
  }
  if (r.State() == yaclib::ResultState::Exception) {
    return vh::DescExc(std::as_const(r).Exception());
  }
  if constexpr (std::is_same_v<std::decay_t<decltype(r)>, yaclib::Result<>>) {
    return "unit";
  } else {
    return D(std::as_const(r).Value());
  }
}

struct Prog {
  std::string strat, outs, order, form, kind;
  int n = 2, pre = 0;
};

template <typename I1, typename I2, typename I3, typename Build>
std::string Drive(const Prog& p, I1& a, I2& b, I3& c, Build build) {
  auto complete = [&](int i) {
    char l = p.outs[static_cast<std::size_t>(i - 1)];
    if (i == 1) {
      a.Complete(1, l);
    } else if (i == 2) {
      b.Complete(2, l);
    } else {
      c.Complete(3, l);
    }
  };
  for (int k = 0; k != p.pre; ++k) {
    complete(p.order[static_cast<std::size_t>(k)] - '0');
  }
  // every shared input has one subscriber before the combinator is built and one after
  a.Subscribe();
  b.Subscribe();
  if (p.n == 3) {
    c.Subscribe();
  }
  auto out = build();
  a.Subscribe();
  b.Subscribe();
  if (p.n == 3) {
    c.Subscribe();
  }
  for (int k = p.pre; k != p.n; ++k) {
    complete(p.order[static_cast<std::size_t>(k)] - '0');
  }
  std::string d = Take(out);
  out = {};
  return d;
}

// every strategy spelled out (the output types differ)
template <typename Call2, typename Call3, typename CallDynU, typename CallDynS>
std::string RunSame(const Prog& p, Call2 call2, Call3 call3, CallDynU dyn_u, CallDynS dyn_s) {
  In<Payload> a, b, c;
  a.Make(p.kind == "shared");
  b.Make(p.kind != "unique");
  c.Make(p.kind == "shared");
  if (p.form == "dynamic") {
    if (p.kind == "shared") {
      return Drive(p, a, b, c, [&] {
        std::vector<yaclib::SharedFuture<Payload>> v{a.s, b.s};
        if (p.n == 3) {
          v.push_back(c.s);
        }
        return dyn_s(v);
      });
    }
    return Drive(p, a, b, c, [&] {
      std::vector<yaclib::Future<Payload>> v;
      v.push_back(std::move(a.u));
      v.push_back(std::move(b.u));
      if (p.n == 3) {
        v.push_back(std::move(c.u));
      }
      return dyn_u(v);
    });
  }
  if (p.n == 2) {
    return Drive(p, a, b, c, [&] {
      return Apply(call2, a, b);
    });
  }
  return Drive(p, a, b, c, [&] {
    return Apply(call3, a, b, c);
  });
}

template <typename Call2, typename Call3>
std::string RunTuple(const Prog& p, Call2 call2, Call3 call3) {
  In<Payload> a;
  In<int> b;
  In<Payload> c;
  a.Make(p.kind == "shared");
  b.Make(p.kind != "unique");
  c.Make(p.kind == "shared");
  if (p.n == 2) {
    return Drive(p, a, b, c, [&] {
      return Apply(call2, a, b);
    });
  }
  return Drive(p, a, b, c, [&] {
    return Apply(call3, a, b, c);
  });
}

#define VRT_STRAT(NAME, EXPR_STATIC, EXPR_DYN)                                                                        \
  if (p.strat == NAME) {                                                                                               \
    auto st = [](auto&&... xs) {                                                                                       \
      return EXPR_STATIC(std::forward<decltype(xs)>(xs)...);                                                           \
    };                                                                                                                 \
    auto dy = [](auto& v) {                                                                                            \
      return EXPR_DYN(v.begin(), v.size());                                                                            \
    };                                                                                                                 \
    return RunSame(p, st, st, dy, dy);                                                                                 \
  }

std::string Run(const Prog& p) {
  VRT_STRAT("all_none", yaclib::WhenAll<FailPolicy::None>, yaclib::WhenAll<FailPolicy::None>)
  VRT_STRAT("all_ff", yaclib::WhenAll<FailPolicy::FirstFail>, yaclib::WhenAll<FailPolicy::FirstFail>)
  VRT_STRAT("join_none", yaclib::Join<FailPolicy::None>, yaclib::Join<FailPolicy::None>)
  VRT_STRAT("join_ff", yaclib::Join<FailPolicy::FirstFail>, yaclib::Join<FailPolicy::FirstFail>)
  VRT_STRAT("any_none", yaclib::WhenAny<FailPolicy::None>, yaclib::WhenAny<FailPolicy::None>)
  VRT_STRAT("any_ff", yaclib::WhenAny<FailPolicy::FirstFail>, yaclib::WhenAny<FailPolicy::FirstFail>)
  VRT_STRAT("any_lf", yaclib::WhenAny<FailPolicy::LastFail>, yaclib::WhenAny<FailPolicy::LastFail>)
  if (p.strat == "tuple_none") {
    auto st = [](auto&&... xs) {
      return yaclib::WhenAll<FailPolicy::None>(std::forward<decltype(xs)>(xs)...);
    };
    return RunTuple(p, st, st);
  }
  if (p.strat == "tuple_ff") {
    auto st = [](auto&&... xs) {
      return yaclib::WhenAll<FailPolicy::FirstFail>(std::forward<decltype(xs)>(xs)...);
    };
    return RunTuple(p, st, st);
  }
  return "badstrat";
}

int WhenMain(int, char**) {
  vrt::SetAllocNaming(false);
  std::string line;
  long idx = 0;
  while (std::getline(std::cin, line)) {
    if (line.empty()) {
      continue;
    }
    Prog p;
    std::istringstream is(line);
    is >> p.strat >> p.n >> p.outs >> p.order >> p.pre >> p.form >> p.kind;
    Payload::ResetCounters();
    g_sub_calls = 0;
    auto s0 = vrt::GetAllocStats();
    std::string d = Run(p);
    auto s1 = vrt::GetAllocStats();
    std::printf("%ld out=%s;live=%ld;leak=%ld;subs=%d\n", idx, d.c_str(), Payload::live,
                static_cast<long>(s1.news - s0.news) - static_cast<long>(s1.deletes - s0.deletes), g_sub_calls);
    std::fflush(stdout);
    ++idx;
  }
  return 0;
}

vrt::CommandRegistrar g_reg{"when", &WhenMain};

}  // namespace
