// Scenario "wh": WhenAll / Join / WhenAny over n unique futures completed by n producer threads while the registrar
// thread is still setting the combinator up (C09, C10; C03/C04 clauses).
//   strat = all_none | all_ff | join_none | join_ff | any_none | any_ff | any_lf
//   form  = static | dynamic        n = 2 | 3        outs = e.g. "vx" (per input: v value, e error, x exception)
#include "common.hpp"

#include <yaclib/async/contract.hpp>
#include <yaclib/async/future.hpp>
#include <yaclib/async/join.hpp>
#include <yaclib/async/when_all.hpp>
#include <yaclib/async/when_any.hpp>

#include <functional>
#include <optional>
#include <vector>

namespace {

using vh::Payload;
using yaclib::FailPolicy;

std::string DescOut(const yaclib::Result<std::vector<Payload>>& r) {
  if (r.State() != yaclib::ResultState::Value) {
    return vh::Desc(r.State() == yaclib::ResultState::Error ? yaclib::Result<int>{yaclib::StopTag{}}
                                                              : yaclib::Result<int>{std::as_const(r).Exception()});
  }
  std::string s = "[";
  for (auto& p : std::as_const(r).Value()) {
    s += (s.size() > 1 ? "," : "") + vh::Desc(p);
  }
  return s + "]";
}

std::string DescOut(const yaclib::Result<std::vector<yaclib::Result<Payload>>>& r) {
  if (r.State() != yaclib::ResultState::Value) {
    return "failed?";
  }
  std::string s = "[";
  for (auto& p : std::as_const(r).Value()) {
    s += (s.size() > 1 ? "," : "") + vh::Desc(p);
  }
  return s + "]";
}

std::string DescOut(const yaclib::Result<Payload>& r) {
  return vh::Desc(r);
}

std::string DescOut(const yaclib::Result<void>& r) {
  return vh::Desc(r);
}

struct OutHolder {
  std::function<bool()> ready;
  std::function<std::string()> take;  // consumes the future
  std::function<void()> drop;
};

template <typename F>
OutHolder Hold(F&& f) {
  auto sp = std::make_shared<std::decay_t<F>>(std::move(f));
  OutHolder h;
  h.ready = [sp] {
    return sp->Valid() && sp->Ready();
  };
  h.take = [sp]() -> std::string {
    if (!sp->Valid()) {
      return "invalid";
    }
    if (!sp->Ready()) {
      return "not_ready";
    }
    return DescOut(std::move(*sp).Get());
  };
  h.drop = [sp] {
    *sp = {};
  };
  return h;
}

template <typename It>
OutHolder Build(const std::string& strat, const std::string& form, std::vector<yaclib::Future<Payload>>& fs, It begin) {
  const std::size_t n = fs.size();
  const bool dyn = form == "dynamic";
#define VRT_WHEN(CALL_DYN, CALL2, CALL3)                                                                               \
  if (dyn) {                                                                                                           \
    return Hold(CALL_DYN);                                                                                             \
  }                                                                                                                    \
  if (n == 2) {                                                                                                        \
    return Hold(CALL2);                                                                                                \
  }                                                                                                                    \
  return Hold(CALL3);
  if (strat == "all_none") {
    VRT_WHEN(yaclib::WhenAll<FailPolicy::None>(begin, n), yaclib::WhenAll<FailPolicy::None>(std::move(fs[0]), std::move(fs[1])),
             yaclib::WhenAll<FailPolicy::None>(std::move(fs[0]), std::move(fs[1]), std::move(fs[2])))
  }
  if (strat == "all_ff") {
    VRT_WHEN(yaclib::WhenAll<FailPolicy::FirstFail>(begin, n),
             yaclib::WhenAll<FailPolicy::FirstFail>(std::move(fs[0]), std::move(fs[1])),
             yaclib::WhenAll<FailPolicy::FirstFail>(std::move(fs[0]), std::move(fs[1]), std::move(fs[2])))
  }
  if (strat == "join_none") {
    VRT_WHEN(yaclib::Join<FailPolicy::None>(begin, n), yaclib::Join<FailPolicy::None>(std::move(fs[0]), std::move(fs[1])),
             yaclib::Join<FailPolicy::None>(std::move(fs[0]), std::move(fs[1]), std::move(fs[2])))
  }
  if (strat == "join_ff") {
    VRT_WHEN(yaclib::Join<FailPolicy::FirstFail>(begin, n),
             yaclib::Join<FailPolicy::FirstFail>(std::move(fs[0]), std::move(fs[1])),
             yaclib::Join<FailPolicy::FirstFail>(std::move(fs[0]), std::move(fs[1]), std::move(fs[2])))
  }
  if (strat == "any_none") {
    VRT_WHEN(yaclib::WhenAny<FailPolicy::None>(begin, n), yaclib::WhenAny<FailPolicy::None>(std::move(fs[0]), std::move(fs[1])),
             yaclib::WhenAny<FailPolicy::None>(std::move(fs[0]), std::move(fs[1]), std::move(fs[2])))
  }
  if (strat == "any_ff") {
    VRT_WHEN(yaclib::WhenAny<FailPolicy::FirstFail>(begin, n),
             yaclib::WhenAny<FailPolicy::FirstFail>(std::move(fs[0]), std::move(fs[1])),
             yaclib::WhenAny<FailPolicy::FirstFail>(std::move(fs[0]), std::move(fs[1]), std::move(fs[2])))
  }
  VRT_WHEN(yaclib::WhenAny<FailPolicy::LastFail>(begin, n), yaclib::WhenAny<FailPolicy::LastFail>(std::move(fs[0]), std::move(fs[1])),
           yaclib::WhenAny<FailPolicy::LastFail>(std::move(fs[0]), std::move(fs[1]), std::move(fs[2])))
#undef VRT_WHEN
}

VRT_SCENARIO(wh, "WhenAll / Join / WhenAny over n unique futures completing while the combinator is set up") {
  vrt::NameOffsetAlias(vh::CallbackOffset(), "cb");
  Payload::ResetCounters();
  const std::string strat = ctx.Param("strat", "all_ff");
  const std::string form = ctx.Param("form", "static");
  const std::string outs = ctx.Param("outs", "vv");
  const int n = static_cast<int>(outs.size());
  std::vector<yaclib::Future<Payload>> fs;
  std::vector<yaclib::Promise<Payload>> ps;
  for (int i = 0; i != n; ++i) {
    auto [f, p] = yaclib::MakeContract<Payload>();
    vh::NameCore(f.GetCore().Get(), "c" + std::to_string(i + 1));
    fs.push_back(std::move(f));
    ps.push_back(std::move(p));
  }
  std::vector<vh::Gate> gates(static_cast<std::size_t>(n));
  std::optional<OutHolder> out;
  bool r_returned = false;
  for (int i = 0; i != n; ++i) {
    vrt::NameField(&gates[static_cast<std::size_t>(i)].flag, "gate" + std::to_string(i + 1));
    ctx.Spawn("P" + std::to_string(i + 1), [&, i] {
      vrt::Api api{"Set"};
      gates[static_cast<std::size_t>(i)].Pass();
      auto& p = ps[static_cast<std::size_t>(i)];
      char o = outs[static_cast<std::size_t>(i)];
      if (o == 'v') {
        std::move(p).Set(Payload{11 + i});
      } else if (o == 'e') {
        std::move(p).Set(yaclib::StopTag{});
      } else {
        std::move(p).Set(std::make_exception_ptr(vh::TestError{"e" + std::to_string(i + 1)}));
      }
      std::string bit = "?";
      if (r_returned) {
        vrt::Ambient amb;
        bit = out->ready() ? "1" : "0";
      }
      vrt::Obs("set_done", std::to_string(i + 1) + ":" + bit);
    });
  }
  ctx.Spawn("R", [&] {
    vrt::Api api{"When"};
    out.emplace(Build(strat, form, fs, fs.begin()));
    r_returned = true;
    std::string bit;
    {
      vrt::Ambient amb;
      bit = out->ready() ? "1" : "0";
    }
    vrt::Obs("registered", bit);
  });
  ctx.JoinAll();
  ctx.Final("out", out->take());
  out->drop();
  out.reset();
  fs.clear();
  ctx.Final("live", Payload::live);
  ctx.Final("read_moved", Payload::read_moved);
}

}  // namespace
