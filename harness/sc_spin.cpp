// Scenario "sl": k threads, several rounds each of lock / critical section / unlock on yaclib::detail::Spinlock, the
// internal lock of the coroutine SharedMutex (C15).
//   rounds = one digit per thread, e.g. 211
// Inside the section: "enter <i>:<last writer>", a plain write of the shared cell, one visible operation on a scratch
// atomic (so that another thread can run while the section is open), "leave <i>".
#include "common.hpp"

#include <yaclib/util/detail/spinlock.hpp>

#include <cstdint>

namespace {

VRT_SCENARIO(sl, "Spinlock: k threads x rounds of lock / critical section / unlock") {
  const std::string rounds = ctx.Param("rounds", "11");
  yaclib::detail::Spinlock<std::uint32_t> lock;
  vrt::NameField(&lock, "lock");
  yaclib_std::atomic<int> scratch{0};
  vrt::NameField(&scratch, "scratch");
  int data = 0;
  int entries = 0;
  for (std::size_t i = 0; i != rounds.size(); ++i) {
    const int id = static_cast<int>(i) + 1;
    const int n = rounds[i] - '0';
    ctx.Spawn("T" + std::to_string(id), [&, id, n] {
      for (int r = 0; r != n; ++r) {
        lock.lock();
        vrt::Obs("enter", std::to_string(id) + ":" + std::to_string(data));
        data = id;
        ++entries;
        scratch.fetch_add(1, std::memory_order_relaxed);
        vrt::Obs("leave", std::to_string(id));
        lock.unlock();
      }
    });
  }
  ctx.JoinAll();
  ctx.Final("entries", entries);
}

}  // namespace
