// Stand-alone executable "cseq": run-time interpreter of the coroutine programs enumerated by CoroSeq.tla on the real
// coroutine layer (C13, the coroutine parts of C12 and C05).  It is built against three library configurations
// (symmetric transfer everywhere / not in final_suspend / nowhere) and has no dependency on the fault layer.
// Input, one program per line:
//   kind=task;start=tf;rej=19;second=none;body=on1/co.n.p.v/cur
// Output, one line per program:
//   <index> log=<entries>;final=<desc>;sub=a,b;calls=a,b;drops=a,b;frames=<begun>,<destroyed>,<live>;leak=<n>
// A log entry is <coroutine>:<statement index or tag>=<observation>@<executor that was running it, "-" for none>.
#include <yaclib/async/contract.hpp>
#include <yaclib/async/future.hpp>
#include <yaclib/async/shared_contract.hpp>
#include <yaclib/async/shared_future.hpp>
#include <yaclib/coro/await.hpp>
#include <yaclib/coro/await_on.hpp>
#include <yaclib/coro/await_sticky.hpp>
#include <yaclib/coro/current_executor.hpp>
#include <yaclib/coro/future.hpp>
#include <yaclib/coro/on.hpp>
#include <yaclib/coro/shared_future.hpp>
#include <yaclib/coro/task.hpp>
#include <yaclib/coro/yield.hpp>
#include <yaclib/exe/inline.hpp>
#include <yaclib/lazy/make.hpp>
#include <yaclib/lazy/schedule.hpp>
#include <yaclib/lazy/task.hpp>

#include <cstdio>
#include <cstdlib>
#include <deque>
#include <iostream>
#include <new>
#include <optional>
#include <sstream>
#include <string>
#include <vector>

namespace {

long g_news = 0;
long g_deletes = 0;

}  // namespace

void* operator new(std::size_t n) {
  ++g_news;
  void* p = std::malloc(n == 0 ? 1 : n);
  if (p == nullptr) {
    std::abort();
  }
  return p;
}
void operator delete(void* p) noexcept {
  if (p != nullptr) {
    ++g_deletes;
    std::free(p);
  }
}
void operator delete(void* p, std::size_t) noexcept {
  ::operator delete(p);
}

namespace {

struct TE {  // exception thrown by bodies and producers
  int tag;
};

class QExec;
QExec* g_running = nullptr;  // the executor whose drain is calling a job right now

// FIFO executor drained by the driver; starts rejecting at its reject_from-th submission
class QExec final : public yaclib::IExecutor {
 public:
  [[nodiscard]] Type Tag() const noexcept final {
    return Type::Custom;
  }
  [[nodiscard]] bool Alive() const noexcept final {
    return submits < reject_from;
  }
  void Submit(yaclib::Job& job) noexcept final {
    const long k = submits++;
    if (k >= reject_from) {
      ++drops;
      job.Drop();
      return;
    }
    q.push_back(&job);
  }
  bool RunOne() {
    if (q.empty()) {
      return false;
    }
    auto* job = q.front();
    q.pop_front();
    ++calls;
    auto* prev = g_running;
    g_running = this;
    job->Call();
    g_running = prev;
    return true;
  }
  void IncRef() noexcept final {
  }
  void DecRef() noexcept final {
  }
  std::size_t GetRef() noexcept final {
    return 1;
  }
  void Reset(long rej) {
    q.clear();
    submits = calls = drops = 0;
    reject_from = rej;
  }
  std::deque<yaclib::Job*> q;
  long submits = 0, calls = 0, drops = 0, reject_from = 9;
  const char* name = "";
};

struct Stmt {
  std::string op, a, b, c;  // op . kind-or-template . timing . outcome
};

struct Env {
  QExec e1, e2;
  std::vector<std::string> log;
  // awaitable of statement i of the main coroutine
  std::vector<yaclib::Future<int>> fu;
  std::vector<yaclib::FutureOn<int>> fn;
  std::vector<yaclib::SharedFuture<int>> fs;
  std::vector<yaclib::Promise<int>> pu;
  std::vector<yaclib::SharedPromise<int>> ps;
  std::vector<yaclib::Task<int>> tasks;
  std::vector<int> pending;  // 0 nothing to fulfil, 1 unique promise, 2 shared promise
  std::vector<Stmt> body;
  long begun = 0, destroyed = 0, live = 0;

  const char* Name(yaclib::IExecutor* e) {
    return e == &e1                                       ? "e1"
           : e == &e2                                     ? "e2"
           : e == &yaclib::MakeInline()                   ? "inline"
           : e == &yaclib::MakeInline(yaclib::StopTag{}) ? "stopped"
           : e == nullptr                                 ? "null"
                                                          : "other";
  }
  void Log(const std::string& who, const std::string& what, const std::string& obs) {
    log.push_back(who + ":" + what + "=" + obs + "@" + (g_running != nullptr ? g_running->name : "-"));
  }
};

struct Local {  // a live local of every coroutine frame
  Env& env;
  explicit Local(Env& e) : env{e} {
    ++env.begun;
    ++env.live;
  }
  Local(const Local&) = delete;
  ~Local() {
    ++env.destroyed;
    --env.live;
  }
};

std::string DescR(const yaclib::Result<int>& r) {
  switch (r.State()) {
    case yaclib::ResultState::Value: return "v" + std::to_string(std::as_const(r).Value());
    case yaclib::ResultState::Error: return "stop";
    case yaclib::ResultState::Exception:
      try {
        std::rethrow_exception(std::as_const(r).Exception());
      } catch (const TE& t) {
        return "exc" + std::to_string(t.tag);
      } catch (...) {
        return "exc?";
      }
    default: return "empty";
  }
}

template <typename P>
void Fulfil(P&& p, const std::string& outcome, int value) {
  if (outcome == "e") {
    std::forward<P>(p).Set(yaclib::StopTag{});
  } else if (outcome == "x") {
    std::forward<P>(p).Set(std::make_exception_ptr(TE{value}));
  } else {
    std::forward<P>(p).Set(value);
  }
}

yaclib::Task<int> MakeChild(Env& env, int slot, const std::string& tmpl);

// The one coroutine body of every coroutine kind: interprets its statements.  `slot_of` maps a statement index of this
// body to the awaitable slot it uses (the second coroutine awaits a slot of the main one).
template <typename Ret>
Ret Body(Env& env, std::string id, std::vector<Stmt> body, std::vector<int> slot_of, int acc) {
  Local local{env};
  env.Log(id, "begin", "");
  for (std::size_t i = 0; i != body.size(); ++i) {
    const Stmt& s = body[i];
    const auto idx = std::to_string(i + 1);
    const auto slot = static_cast<std::size_t>(slot_of[i]);
    try {
      if (s.op == "on1") {
        co_await On(env.e1);
        env.Log(id, idx, "ok");
      } else if (s.op == "on2") {
        co_await On(env.e2);
        env.Log(id, idx, "ok");
      } else if (s.op == "yield") {
        co_await yaclib::kYield;
        env.Log(id, idx, "ok");
      } else if (s.op == "yieldx") {
        auto& e = co_await yaclib::Yield();
        env.Log(id, idx, env.Name(&e));
      } else if (s.op == "cur") {
        auto& e = co_await yaclib::CurrentExecutor();
        env.Log(id, idx, env.Name(&e));
      } else if (s.op == "throw") {
        throw TE{9};
      } else if (s.op == "co") {
        int v = 0;
        if (s.a == "u") {
          v = co_await std::move(env.fu[slot]);
        } else if (s.a == "n") {
          v = co_await std::move(env.fn[slot]);
        } else {
          v = co_await env.fs[slot];
        }
        acc += v;
        env.Log(id, idx, "v" + std::to_string(v));
      } else if (s.op == "aw") {
        if (s.a == "u") {
          co_await Await(env.fu[slot]);
        } else if (s.a == "n") {
          co_await Await(env.fn[slot]);
        } else {
          co_await Await(env.fs[slot]);
        }
        env.Log(id, idx, "ok");
      } else if (s.op == "st") {
        if (s.a == "u") {
          co_await AwaitSticky(env.fu[slot]);
        } else if (s.a == "n") {
          co_await AwaitSticky(env.fn[slot]);
        } else {
          co_await AwaitSticky(env.fs[slot]);
        }
        env.Log(id, idx, "ok");
      } else if (s.op == "ao1") {
        if (s.a == "u") {
          co_await AwaitOn(env.e1, env.fu[slot]);
        } else if (s.a == "n") {
          co_await AwaitOn(env.e1, env.fn[slot]);
        } else {
          co_await AwaitOn(env.e1, env.fs[slot]);
        }
        env.Log(id, idx, "ok");
      } else if (s.op == "cot") {
        int v = co_await std::move(env.tasks[slot]);
        acc += v;
        env.Log(id, idx, "v" + std::to_string(v));
      } else if (s.op == "awt") {
        co_await Await(env.tasks[slot]);
        env.Log(id, idx, DescR(std::as_const(env.tasks[slot]).Touch()));
      }
    } catch (const TE& t) {
      if (s.op == "throw") {
        throw;
      }
      env.Log(id, idx, "exc" + std::to_string(t.tag));
    } catch (const yaclib::ResultError<yaclib::StopError>&) {
      env.Log(id, idx, "stop");
    }
  }
  env.Log(id, "end", "");
  co_return acc + 1;
}

std::vector<Stmt> ParseBody(const std::string& text) {
  std::vector<Stmt> out;
  std::istringstream is(text);
  std::string item;
  while (std::getline(is, item, '/')) {
    if (item.empty() || item == "-") {
      continue;
    }
    Stmt s;
    std::istringstream ps(item);
    std::getline(ps, s.op, '.');
    std::getline(ps, s.a, '.');
    std::getline(ps, s.b, '.');
    std::getline(ps, s.c, '.');
    out.push_back(s);
  }
  return out;
}

yaclib::Task<int> MakeChild(Env& env, int slot, const std::string& tmpl) {
  const auto id = "C" + std::to_string(slot + 1);
  if (tmpl == "cval") {
    return Body<yaclib::Task<int>>(env, id, ParseBody("cur"), {0}, 20);
  }
  if (tmpl == "con2") {
    return Body<yaclib::Task<int>>(env, id, ParseBody("on2/cur"), {0, 0}, 20);
  }
  if (tmpl == "cthrow") {
    return Body<yaclib::Task<int>>(env, id, ParseBody("cur/throw"), {0, 0}, 20);
  }
  if (tmpl == "mkv") {
    return yaclib::MakeTask<int>(24);
  }
  if (tmpl == "mke") {
    return yaclib::MakeTask<int>(yaclib::StopTag{});
  }
  const bool thr = tmpl == "sch2x";
  // schs: the head sits on the inline executor that refuses everything
  yaclib::IExecutor& e = tmpl == "schs" ? yaclib::MakeInline(yaclib::StopTag{}) : static_cast<yaclib::IExecutor&>(env.e2);
  return yaclib::Schedule(e, [&env, id, thr] {
    env.Log("J" + id.substr(1), "run", "");
    if (thr) {
      throw TE{8};
    }
    return 25;
  });
}

struct Program {
  std::string kind = "future", start = "-", rej = "99", second = "none";
  std::vector<Stmt> body;
};

bool Step(Env& env) {
  if (env.e1.RunOne()) {
    return true;
  }
  if (env.e2.RunOne()) {
    return true;
  }
  for (std::size_t i = 0; i != env.pending.size(); ++i) {
    if (env.pending[i] != 0) {
      const int kind = env.pending[i];
      env.pending[i] = 0;
      const auto& s = env.body[i];
      const int value = 10 + static_cast<int>(i) + 1;
      if (kind == 1) {
        Fulfil(std::move(env.pu[i]), s.c, value);
      } else {
        Fulfil(std::move(env.ps[i]), s.c, value);
      }
      return true;
    }
  }
  return false;
}

void RunInner(const Program& p, std::string& out) {
  Env env;
  env.e1.name = "e1";
  env.e2.name = "e2";
  env.e1.Reset(p.rej[0] - '0');
  env.e2.Reset(p.rej[1] - '0');
  env.body = p.body;
  const auto n = p.body.size();
  env.fu.resize(n);
  env.fn.resize(n);
  env.fs.resize(n);
  env.pu.resize(n);
  env.ps.resize(n);
  env.tasks.resize(n);
  env.pending.assign(n, 0);
  std::vector<int> slots;
  int first_shared = -1;
  for (std::size_t i = 0; i != n; ++i) {
    const auto& s = p.body[i];
    slots.push_back(static_cast<int>(i));
    const int value = 10 + static_cast<int>(i) + 1;
    if (s.op == "co" || s.op == "aw" || s.op == "st" || s.op == "ao1") {
      if (s.a == "u") {
        auto [f, pr] = yaclib::MakeContract<int>();
        env.fu[i] = std::move(f);
        env.pu[i] = std::move(pr);
        env.pending[i] = 1;
      } else if (s.a == "n") {
        auto [f, pr] = yaclib::MakeContractOn<int>(env.e2);
        env.fn[i] = std::move(f);
        env.pu[i] = std::move(pr);
        env.pending[i] = 1;
      } else {
        auto [f, pr] = yaclib::MakeSharedContract<int>();
        env.fs[i] = std::move(f);
        env.ps[i] = std::move(pr);
        env.pending[i] = 2;
        if (first_shared < 0) {
          first_shared = static_cast<int>(i);
        }
      }
      if (s.b == "r") {  // ready before anybody awaits it
        if (env.pending[i] == 1) {
          Fulfil(std::move(env.pu[i]), s.c, value);
        } else {
          Fulfil(std::move(env.ps[i]), s.c, value);
        }
        env.pending[i] = 0;
      }
    } else if (s.op == "cot" || s.op == "awt") {
      env.tasks[i] = MakeChild(env, static_cast<int>(i), s.a);
    }
  }
  const bool with_second = p.second != "none" && first_shared >= 0;
  std::optional<yaclib::Future<int>> fb;
  auto start_second = [&] {
    Stmt co{"co", "s", "p", "v"};
    fb.emplace(Body<yaclib::Future<int>>(env, "B", {Stmt{"on2", "", "", ""}, co, Stmt{"cur", "", "", ""}},
                                         {0, first_shared, 0}, 0));
  };
  if (with_second && p.second == "before") {
    start_second();
  }
  std::optional<yaclib::Future<int>> fa;
  std::optional<yaclib::FutureOn<int>> fa_on;
  std::optional<yaclib::SharedFuture<int>> sa;
  bool detached = false;
  if (p.kind == "future") {
    fa.emplace(Body<yaclib::Future<int>>(env, "A", p.body, slots, 0));
  } else if (p.kind == "shared") {
    sa.emplace(Body<yaclib::SharedFuture<int>>(env, "A", p.body, slots, 0));
  } else {
    auto task = Body<yaclib::Task<int>>(env, "A", p.body, slots, 0);
    // a Task does nothing until it is started: let the queued jobs run first (promises are fulfilled later)
    while (env.e1.RunOne() || env.e2.RunOne()) {
    }
    env.Log("M", "created", "");
    if (p.start == "tf") {
      fa.emplace(std::move(task).ToFuture());
    } else if (p.start == "tf1") {
      fa_on.emplace(std::move(task).ToFuture(env.e1));
    } else if (p.start == "det") {
      std::move(task).Detach();
      detached = true;
    } else if (p.start == "det1") {
      std::move(task).Detach(env.e1);
      detached = true;
    } else {  // drop: destroyed without having been started
      task = {};
      detached = true;
    }
  }
  if (with_second && p.second == "after") {
    start_second();
  }
  while (Step(env)) {
  }
  // what is left of the awaited objects: Await / AwaitSticky / AwaitOn leave them valid and ready, and a continuation
  // attached without an executor to a FutureOn still runs on that future's executor
  for (std::size_t i = 0; i != n; ++i) {
    const auto& s = p.body[i];
    const auto idx = std::to_string(i + 1);
    if (s.op != "aw" && s.op != "st" && s.op != "ao1") {
      continue;
    }
    if (s.a == "u") {
      auto& f = env.fu[i];
      env.Log("F", idx, !f.Valid() ? "invalid" : !f.Ready() ? "not_ready" : DescR(std::as_const(f).Touch()));
    } else if (s.a == "s") {
      auto& f = env.fs[i];
      env.Log("F", idx, !f.Valid() ? "invalid" : !f.Ready() ? "not_ready" : DescR(f.Touch()));
    } else {
      auto& f = env.fn[i];
      env.Log("F", idx, !f.Valid() ? "invalid" : !f.Ready() ? "not_ready" : DescR(std::as_const(f).Touch()));
      if (f.Valid() && f.Ready()) {
        std::move(f)
          .Then([&env, idx](yaclib::Result<int>&& r) {
            env.Log("P", idx, DescR(r));
          })
          .Detach();
        while (Step(env)) {
        }
      }
    }
  }
  std::string final_desc;
  auto take = [&](auto& f) {
    final_desc = !f.Valid() ? "invalid" : !f.Ready() ? "not_ready" : DescR(std::move(f).Get());
  };
  if (detached) {
    final_desc = "detached";
  } else if (fa) {
    take(*fa);
  } else if (fa_on) {
    take(*fa_on);
  } else if (sa) {
    final_desc = !sa->Ready() ? "not_ready" : DescR(sa->Get());
    if (sa->Ready() && DescR(sa->Get()) != final_desc) {
      final_desc += "!unstable";
    }
  }
  if (fb) {
    env.Log("B", "final", !fb->Ready() ? "not_ready" : DescR(std::move(*fb).Get()));
  }
  fa.reset();
  fa_on.reset();
  sa.reset();
  fb.reset();
  env.tasks.clear();
  env.fu.clear();
  env.fn.clear();
  env.fs.clear();
  env.pu.clear();
  env.ps.clear();
  while (Step(env)) {
  }
  out += "log=";
  for (std::size_t i = 0; i != env.log.size(); ++i) {
    out += (i != 0 ? "," : "") + env.log[i];
  }
  out += ";final=" + final_desc;
  out += ";sub=" + std::to_string(env.e1.submits) + "," + std::to_string(env.e2.submits);
  out += ";calls=" + std::to_string(env.e1.calls) + "," + std::to_string(env.e2.calls);
  out += ";drops=" + std::to_string(env.e1.drops) + "," + std::to_string(env.e2.drops);
  out += ";frames=" + std::to_string(env.begun) + "," + std::to_string(env.destroyed) + "," + std::to_string(env.live);
}

std::string RunProgram(const Program& p) {
  std::string out;
  out.reserve(1 << 16);  // no allocation for the report itself inside the measured region
  const long before = g_news - g_deletes;
  RunInner(p, out);
  const long leak = (g_news - g_deletes) - before;
  out += ";leak=" + std::to_string(leak);
  return out;
}

Program Parse(const std::string& line) {
  Program p;
  std::istringstream is(line);
  std::string kv;
  while (std::getline(is, kv, ';')) {
    const auto eq = kv.find('=');
    if (eq == std::string::npos) {
      continue;
    }
    const auto k = kv.substr(0, eq);
    const auto v = kv.substr(eq + 1);
    if (k == "kind") {
      p.kind = v;
    } else if (k == "start") {
      p.start = v;
    } else if (k == "rej") {
      p.rej = v;
    } else if (k == "second") {
      p.second = v;
    } else if (k == "body") {
      p.body = ParseBody(v);
    }
  }
  return p;
}

}  // namespace

int main() {
  std::string line;
  long idx = 0;
  while (std::getline(std::cin, line)) {
    if (line.empty()) {
      continue;
    }
    const auto p = Parse(line);
    const std::string out = RunProgram(p);
    std::printf("%ld %s\n", idx, out.c_str());
    std::fflush(stdout);
    ++idx;
  }
  return 0;
}
