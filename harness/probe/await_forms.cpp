// Compile probe (C13): every documented way of awaiting must at least instantiate.  Compiled with -fsyntax-only per
// form (-DFORM=n), so a form that cannot be compiled is reported by name instead of breaking the whole harness.
#include <yaclib/async/contract.hpp>
#include <yaclib/async/make.hpp>
#include <yaclib/async/share.hpp>
#include <yaclib/async/shared_contract.hpp>
#include <yaclib/coro/await.hpp>
#include <yaclib/coro/await_on.hpp>
#if FORM == 5 || FORM == 6 || FORM == 7 || FORM == 14 || FORM == 15 || FORM == 18 || FORM == 24
#  include <yaclib/coro/await_sticky.hpp>
#endif
#include <yaclib/coro/current_executor.hpp>
#include <yaclib/coro/future.hpp>
#include <yaclib/coro/on.hpp>
#include <yaclib/coro/shared_future.hpp>
#include <yaclib/coro/task.hpp>
#include <yaclib/coro/yield.hpp>
#include <yaclib/exe/inline.hpp>
#include <yaclib/lazy/make.hpp>

#include <vector>

using yaclib::Future;
using yaclib::SharedFuture;

yaclib::Future<int> Probe(Future<int>& a, Future<int>& b, SharedFuture<int>& s, SharedFuture<int>& t, std::vector<Future<int>>& v,
                          std::vector<SharedFuture<int>>& sv, yaclib::IExecutor& e) {
#if FORM == 1
  co_await Await(a);
#elif FORM == 2
  co_await Await(a, b);
#elif FORM == 3
  co_await Await(v.begin(), v.size());
#elif FORM == 4
  co_await Await(v.begin(), v.end());
#elif FORM == 5
  co_await AwaitSticky(a);
#elif FORM == 6
  co_await AwaitSticky(a, b);
#elif FORM == 7
  co_await AwaitSticky(v.begin(), v.size());
#elif FORM == 8
  co_await AwaitOn(e, a);
#elif FORM == 9
  co_await AwaitOn(e, a, b);
#elif FORM == 10
  co_await AwaitOn(e, v.begin(), v.size());
#elif FORM == 11
  co_await Await(s);
#elif FORM == 12
  co_await Await(s, t);
#elif FORM == 13
  co_await Await(a, s);
#elif FORM == 14
  co_await AwaitSticky(s, t);
#elif FORM == 15
  co_await AwaitSticky(a, s);
#elif FORM == 16
  co_await AwaitOn(e, s, t);
#elif FORM == 17
  co_await Await(sv.begin(), sv.size());
#elif FORM == 18
  co_await AwaitSticky(sv.begin(), sv.size());
#elif FORM == 19
  co_await AwaitOn(e, sv.begin(), sv.size());
#elif FORM == 20
  int x = co_await std::move(a);
  (void)x;
#elif FORM == 21
  int x = co_await s;
  (void)x;
#elif FORM == 22
  int x = co_await yaclib::MakeTask<int>(1);
  (void)x;
#elif FORM == 23
  co_await On(e);
  co_await yaclib::Yield();
  auto& c = co_await yaclib::CurrentExecutor();
  (void)c;
#elif FORM == 24
  co_await AwaitSticky(s);
#elif FORM == 25
  co_await AwaitOn(e, s);
#endif
  co_return 0;
}
