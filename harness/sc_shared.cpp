// Scenario "sh": one fulfilling thread and two/three observer threads on copies of one SharedFuture (C06, C03, C04).
//   O1, O2, O3 = then_inline | then_exec | subscribe | share | copy_drop | ready | get | get_const | none
//   prod = val | err | drop
#include "common.hpp"

#include <yaclib/async/connect.hpp>
#include <yaclib/async/contract.hpp>
#include <yaclib/async/share.hpp>
#include <yaclib/async/shared_contract.hpp>
#include <yaclib/async/shared_future.hpp>
#include <yaclib/async/make.hpp>
#include <yaclib/async/wait.hpp>
#include <yaclib/async/when_all.hpp>
#include <yaclib/coro/await.hpp>
#include <yaclib/coro/future.hpp>

#include <optional>

namespace {

using vh::Payload;
using R = yaclib::Result<Payload>;

vh::QueueExec g_exec{"q"};

struct Obs {
  std::optional<yaclib::SharedFuture<Payload>> sf;
  std::optional<yaclib::Future<int>> next;
  std::optional<yaclib::Future<Payload>> shared;
  std::optional<yaclib::Future<std::vector<yaclib::Result<Payload>>>> when;
  std::optional<yaclib::Future<int>> awaited;       // a coroutine awaiting this copy together with a ready SharedFuture
  std::optional<yaclib::SharedFuture<Payload>> ready;  // fulfilled before anything starts
};

VRT_SCENARIO(sh, "fulfiller + observers on copies of one SharedFuture") {
  vrt::NameOffsetAlias(vh::CallbackOffset(), "cb");
  vrt::NameField(&yaclib::detail::MakeDrop(), "drop");
  Payload::ResetCounters();
  g_exec.Reset();
  ctx.EnableWeakFail(static_cast<int>(ctx.ParamInt("weak", 0)));
  const std::string prod = ctx.Param("prod", "val");
  const std::string ops[3] = {ctx.Param("O1", "then_inline"), ctx.Param("O2", "none"), ctx.Param("O3", "none")};

  auto [f0, p0] = yaclib::MakeSharedContract<Payload>();
  vh::NameCore(f0.GetCore().Get(), "sc");
  {
    auto calib = f0;  // copy + destroy: the two operations touch the reference counter
  }
  vrt::NameField(vrt::LastOpObject(), "sc.rc");
  yaclib::SharedPromise<Payload> p = std::move(p0);
  Obs obs[3];
  int n = 0;
  for (int i = 0; i != 3; ++i) {
    if (ops[i] != "none") {
      n = i + 1;
    }
  }
  for (int i = 0; i != n; ++i) {
    if (i + 1 == n) {
      obs[i].sf.emplace(std::move(f0));
    } else {
      obs[i].sf.emplace(f0);
    }
    if (ops[i] == "await2") {
      vrt::Ambient amb;
      auto [rf, rp] = yaclib::MakeSharedContract<Payload>();
      std::move(rp).Set(Payload{5});
      obs[i].ready.emplace(std::move(rf));
    }
  }

  vh::Gate gate;
  ctx.Spawn("P", [&] {
    vrt::Api api{"Set"};
    gate.Pass();
    if (prod == "val") {
      std::move(p).Set(Payload{7});
    } else if (prod == "err") {
      std::move(p).Set(yaclib::StopTag{});
    } else {
      auto dropped = std::move(p);
    }
  });

  for (int i = 0; i != n; ++i) {
    const std::string name = "O" + std::to_string(i + 1);
    ctx.Spawn(name, [&, i, name] {
      auto& me = obs[i];
      auto& sf = *me.sf;
      const auto& op = ops[i];
      auto on_result = [name](const R& r) {
        vrt::Obs("call", name + ":" + vh::Desc(r));
        return 1;
      };
      auto on_result_void = [name](const R& r) {
        vrt::Obs("call", name + ":" + vh::Desc(r));
      };
      if (op == "then_inline") {
        vrt::Api api{"ThenInline"};
        me.next.emplace(sf.ThenInline(on_result));
      } else if (op == "then_exec") {
        vrt::Api api{"Then"};
        me.next.emplace(sf.Then(g_exec, on_result).On(nullptr));
      } else if (op == "subscribe") {
        vrt::Api api{"SubscribeInline"};
        sf.SubscribeInline(on_result_void);
      } else if (op == "share") {
        vrt::Api api{"Share"};
        me.shared.emplace(yaclib::Share(sf));
      } else if (op == "whenall") {
        // the combinator takes over this copy and later RETIRES the value from the shared state: a copy, or a move when
        // it is provably the last owner
        vrt::Api api{"WhenAll"};
        me.when.emplace(yaclib::WhenAll<yaclib::FailPolicy::None>(std::move(sf), yaclib::MakeFuture<Payload>(Payload{3})));
      } else if (op == "await2") {
        // a coroutine awaits this copy TOGETHER with a SharedFuture that is already fulfilled (the multi-await event
        // discounts the ready one while the other may complete concurrently)
        vrt::Api api{"Await"};
        me.awaited.emplace([](yaclib::SharedFuture<Payload> a, yaclib::SharedFuture<Payload> b, std::string who) -> yaclib::Future<int> {
          co_await Await(a, b);
          vrt::Obs("resumed", who);
          co_return 1;
        }(sf, *me.ready, name));
      } else if (op == "copy_drop") {
        vrt::Api api{"Copy"};
        auto copy = sf;
      } else if (op == "ready") {
        vrt::Api api{"Ready"};
        if (sf.Ready()) {
          vrt::Obs("ready", "1");
          vrt::Obs("read", name + ":" + vh::Desc(std::as_const(sf).Touch()));
        } else {
          vrt::Obs("ready", "0");
        }
      } else if (op == "get") {
        vrt::Api api{"Get"};
        auto r = std::move(sf).Get();
        VRT_STACK_RETURN();
        vrt::Obs("get", name + ":" + vh::Desc(r));
      } else if (op == "get_const") {
        vrt::Api api{"GetConst"};
        const auto& r = std::as_const(sf).Get();
        VRT_STACK_RETURN();
        vrt::Obs("get", name + ":" + vh::Desc(r));
      }
      {
        vrt::Api api{"~SharedFuture"};
        me.sf.reset();
      }
    });
  }

  ctx.JoinAll();
  while (!g_exec.Empty()) {
    g_exec.Drain();
  }
  for (int i = 0; i != n; ++i) {
    const std::string name = "O" + std::to_string(i + 1);
    if (obs[i].next) {
      ctx.Final(name + "_next", obs[i].next->Ready() ? vh::Desc(std::move(*obs[i].next).Get()) : std::string("not_ready"));
      obs[i].next.reset();
    }
    if (obs[i].when) {
      std::string d = "not_ready";
      if (obs[i].when->Ready()) {
        auto r = std::move(*obs[i].when).Get();
        d = r.State() == yaclib::ResultState::Value ? vh::Desc(std::as_const(r).Value()[0]) : std::string("failed");
      }
      ctx.Final(name + "_when", d);
      obs[i].when.reset();
    }
    if (obs[i].awaited) {
      ctx.Final(name + "_await", obs[i].awaited->Ready() ? "ready" : "not_ready");
      obs[i].awaited.reset();
    }
    obs[i].ready.reset();
    if (obs[i].shared) {
      ctx.Final(name + "_share",
                obs[i].shared->Ready() ? vh::Desc(std::move(*obs[i].shared).Get()) : std::string("not_ready"));
      obs[i].shared.reset();
    }
  }
  ctx.Final("live", Payload::live);
  ctx.Final("read_moved", Payload::read_moved);
}

}  // namespace
