// Scenario "tp": submitters, a FairThreadPool with n workers and one thread calling Stop / SoftStop / HardStop at
// any moment, followed by Wait (C08; executor clauses of C05; C03/C04 clauses).
//   subs = e.g. "21"   workers = 1 | 2   stop = stop | soft | hard | softonly (SoftStop and nothing else)
//   chain = 1: a submitter submits only its first job, every job submits the next one of its submitter from inside
//              Call (a follow-up).  chain / softonly executions are judged by the abstract monitors only.
#include "common.hpp"

#include <yaclib/runtime/fair_thread_pool.hpp>

#include <vector>

namespace {

struct PoolJob final : yaclib::Job {
  int id = 0;
  int* plain = nullptr;
  yaclib::IExecutor* pool = nullptr;
  PoolJob* next = nullptr;  // follow-up job (chain mode)
  void Call() noexcept final {
    *plain += 1;  // fibers never run in parallel: a plain counter is fine for the final tally
    vrt::Obs("call", std::to_string(id));
    if (next != nullptr) {
      pool->Submit(*next);
    }
  }
  void Drop() noexcept final {
    vrt::Obs("drop", std::to_string(id));
  }
};

VRT_SCENARIO(tp, "submitters, FairThreadPool workers, a stopper, then Wait") {
  const std::string subs = ctx.Param("subs", "11");
  const auto workers = static_cast<std::uint64_t>(ctx.ParamInt("workers", 1));
  const std::string stop = ctx.Param("stop", "stop");
  int plain = 0;
  std::vector<std::vector<PoolJob>> jobs(subs.size());
  for (std::size_t s = 0; s != subs.size(); ++s) {
    jobs[s].resize(static_cast<std::size_t>(subs[s] - '0'));
    for (std::size_t j = 0; j != jobs[s].size(); ++j) {
      jobs[s][j].id = static_cast<int>(10 * (s + 1) + j + 1);
      jobs[s][j].plain = &plain;
    }
  }
  yaclib::FairThreadPool pool{workers};
  vrt::NameRange(&pool, sizeof(pool), "pool");
  const bool chain = ctx.Param("chain", "0") == "1";
  if (chain) {
    for (auto& js : jobs) {
      for (std::size_t j = 0; j + 1 < js.size(); ++j) {
        js[j].pool = &pool;
        js[j].next = &js[j + 1];
      }
    }
  }
  vh::Gate gate;
  vrt::NameField(&gate.flag, "kgate");
  for (std::size_t s = 0; s != subs.size(); ++s) {
    ctx.Spawn("S" + std::to_string(s + 1), [&, s] {
      for (auto& job : jobs[s]) {
        vrt::Api api{"Submit"};
        pool.Submit(job);
        if (chain) {
          break;  // the rest are follow-ups
        }
      }
    });
  }
  ctx.Spawn("K", [&] {
    vrt::Api api{"Stop"};
    gate.Pass();
    if (stop == "stop") {
      pool.Stop();
    } else if (stop == "softonly") {
      pool.SoftStop();  // stops at once when idle, otherwise when the last accepted job (and its follow-ups) is done
    } else if (stop == "soft") {
      pool.SoftStop();
      vrt::Obs("soft_returned");
      pool.Stop();  // SoftStop only requests the stop when jobs are pending: make sure the pool stops eventually
    } else {
      pool.HardStop();
    }
    vrt::Obs("stop_returned");
  });
  ctx.JoinAll();
  pool.Wait();
  vrt::Obs("wait_returned");
  ctx.Final("ran", plain);
}

}  // namespace
