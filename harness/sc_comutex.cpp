// Scenario "cm": k coroutines on an n-worker pool, each doing several lock / unlock rounds on one yaclib::Mutex (C14).
//   opts   = two digits <Batching><FIFO>, e.g. 10
//   workers= 1 | 2 | 3
//   p1..p4 = program of coroutine i, one letter per round:
//        a  co_await Lock()        ... co_await Unlock()
//        b  co_await Lock()        ... UnlockHere()
//        c  co_await Lock()        ... co_await UnlockOn(pool)
//        g  co_await Guard()       ... scope exit
//        h  co_await Guard()       ... co_await guard.Unlock()
//        s  co_await GuardSticky() ... co_await guard.Unlock()
//        t  TryLock()              ... UnlockHere()        (round skipped when the try fails)
//        y  TryGuard()             ... scope exit
//        z  deferred guard, guard.TryLock() ... scope exit
// Inside the critical section: "enter <i>:<last writer>", a plain write of the shared cell, one visible operation on a
// scratch atomic (so that another worker can run while the section is open), "leave <i>".
#include "common.hpp"

#include <yaclib/coro/await.hpp>
#include <yaclib/coro/future.hpp>
#include <yaclib/coro/mutex.hpp>
#include <yaclib/coro/on.hpp>

#include <optional>
#include <vector>

namespace {

struct Env {
  vh::VerifPool* pool = nullptr;
  int data = 0;  // plain cell written in every critical section
  yaclib_std::atomic<int> scratch{0};
};

void Section(Env& env, int id) {
  vrt::Obs("enter", std::to_string(id) + ":" + std::to_string(env.data));
  env.data = id;
  env.scratch.fetch_add(1, std::memory_order_relaxed);
  vrt::Obs("leave", std::to_string(id));
}

template <typename M>
yaclib::Future<> Worker(M& m, Env& env, int id, std::string prog) {
  co_await On(*env.pool);
  for (char form : prog) {
    switch (form) {
      case 'a':
        co_await m.Lock();
        Section(env, id);
        co_await m.Unlock();
        break;
      case 'b':
        co_await m.Lock();
        Section(env, id);
        m.UnlockHere();
        break;
      case 'c':
        co_await m.Lock();
        Section(env, id);
        co_await m.UnlockOn(*env.pool);
        break;
      case 'g': {
        auto g = co_await m.Guard();
        Section(env, id);
      } break;
      case 'h': {
        auto g = co_await m.Guard();
        Section(env, id);
        co_await g.Unlock();
      } break;
      case 's': {
        auto g = co_await m.GuardSticky();
        Section(env, id);
        co_await g.Unlock();
      } break;
      case 't':
        if (m.TryLock()) {
          Section(env, id);
          m.UnlockHere();
        } else {
          vrt::Obs("tryfail", std::to_string(id));
        }
        break;
      case 'y': {
        auto g = m.TryGuard();
        if (g) {
          Section(env, id);
        } else {
          vrt::Obs("tryfail", std::to_string(id));
        }
      } break;
      case 'z': {
        yaclib::UniqueGuard<M> g{m, std::defer_lock};
        if (g.TryLock()) {
          Section(env, id);
        } else {
          vrt::Obs("tryfail", std::to_string(id));
        }
      } break;
      default:
        break;
    }
  }
  vrt::Obs("finish", std::to_string(id));
  co_return {};
}

template <typename M>
void Run(vrt::Ctx& ctx) {
  const int workers = static_cast<int>(ctx.ParamInt("workers", 2));
  Env env;
  vrt::NameField(&env.scratch, "scratch");
  M m;
  {
    (void)m.TryLock();
    vrt::NameField(vrt::LastOpObject(), "sender");
    m.UnlockHere();
  }
  auto pool = std::make_unique<vh::VerifPool>(workers);
  env.pool = pool.get();
  std::vector<std::optional<yaclib::Future<>>> fs(4);
  for (int i = 0; i != 4; ++i) {
    const std::string prog = ctx.Param("p" + std::to_string(i + 1), "");
    if (prog.empty()) {
      continue;
    }
    fs[static_cast<std::size_t>(i)].emplace(Worker(m, env, i + 1, prog));
    vh::NameCore(fs[static_cast<std::size_t>(i)]->GetCore().Get(), "k" + std::to_string(i + 1));
  }
  ctx.JoinAll();
  pool->Finish();
  pool->Join();
  for (int i = 0; i != 4; ++i) {
    auto& f = fs[static_cast<std::size_t>(i)];
    if (f) {
      ctx.Final("co" + std::to_string(i + 1), f->Ready() ? "ready" : "not_ready");
      f.reset();
    }
  }
  ctx.Final("data", env.data);
  ctx.Final("free", m.TryLock() ? "1" : "0");
}

VRT_SCENARIO(cm, "coroutine Mutex: k coroutines x rounds of lock / unlock forms on an n-worker pool, <Batching,FIFO> options") {
  const std::string opts = ctx.Param("opts", "10");
  if (opts == "00") {
    Run<yaclib::Mutex<false, false>>(ctx);
  } else if (opts == "01") {
    Run<yaclib::Mutex<false, true>>(ctx);
  } else if (opts == "10") {
    Run<yaclib::Mutex<true, false>>(ctx);
  } else {
    Run<yaclib::Mutex<true, true>>(ctx);
  }
}

}  // namespace
