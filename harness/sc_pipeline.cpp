// Command "pipeline": run-time interpreter of the programs enumerated by Pipeline.tla on the real API
// (C02, C05, C12, C20, sequential part of C03).  Reads one program per line from stdin:
//   mode=eager;src=ready_val;start=get;rej=e1:9,e2:9;steps=inline:V:val,e1:R:throw
// and prints one result line per program:
//   <index> final=v3;invoked=0,1;ran=-,e1;sub=1,0;calls=1,0;drops=0,0;allocs=3;leak=0;flive=0
// Programs run in a forked child so that a crashing program (a finding) does not lose the batch.
#include "common.hpp"

#include <yaclib/async/contract.hpp>
#include <yaclib/async/future.hpp>
#include <yaclib/async/make.hpp>
#include <yaclib/async/run.hpp>
#include <yaclib/async/shared_contract.hpp>
#include <yaclib/async/shared_future.hpp>
#include <yaclib/lazy/make.hpp>
#include <yaclib/lazy/schedule.hpp>
#include <yaclib/lazy/task.hpp>

#include <csignal>
#include <cstdio>
#include <cstring>
#include <iostream>
#include <sstream>
#include <sys/mman.h>
#include <sys/wait.h>
#include <unistd.h>
#include <variant>

namespace {

using yaclib::Future;
using yaclib::FutureOn;
using yaclib::Result;
using yaclib::Task;

struct TE {  // exception thrown by callbacks: no heap involved
  int tag;
};

// inline executor that records submissions and can start rejecting
class RecExec final : public yaclib::IExecutor {
 public:
  [[nodiscard]] Type Tag() const noexcept final {
    return Type::Custom;
  }
  [[nodiscard]] bool Alive() const noexcept final {
    return submits < reject_from;
  }
  void Submit(yaclib::Job& job) noexcept final {
    long k = submits++;
    if (k >= reject_from) {
      ++drops;
      job.Drop();
      return;
    }
    ++calls;
    auto* prev = current;
    current = this;
    job.Call();
    current = prev;
  }
  // counted like a reference-counted executor: every reference the library takes must come back (C03)
  void IncRef() noexcept final {
    ++refs;
  }
  void DecRef() noexcept final {
    --refs;
  }
  std::size_t GetRef() noexcept final {
    return static_cast<std::size_t>(refs + 1);
  }
  void Reset(long rej) {
    submits = calls = drops = 0;
    refs = 0;
    reject_from = rej;
  }
  long submits = 0, calls = 0, drops = 0, reject_from = 9, refs = 0;
  const char* name = "";
  static inline RecExec* current = nullptr;
};

RecExec g_e1, g_e2;

struct Tracker {  // capture of every functor: counts live instances
  static inline long live = 0;
  Tracker() {
    ++live;
  }
  Tracker(const Tracker&) {
    ++live;
  }
  Tracker(Tracker&&) noexcept {
    ++live;
  }
  ~Tracker() {
    --live;
  }
};

// the value type of every pipeline: an int that counts how often the LIBRARY copies it (a copy of a value that owns heap
// memory is an allocation; moves are free)
struct HV {
  int v = 0;
  static inline long copies = 0;
  HV() = default;
  explicit HV(int x) : v{x} {
  }
  HV(const HV& o) : v{o.v} {
    ++copies;
  }
  HV(HV&& o) noexcept : v{o.v} {
  }
  HV& operator=(const HV& o) {
    v = o.v;
    ++copies;
    return *this;
  }
  HV& operator=(HV&& o) noexcept {
    v = o.v;
    return *this;
  }
};

struct Run {
  int hop[16] = {};  // input value seen by a void callback, for the no-argument callback behind it
  int invoked[16];
  const char* ran[16];
  int n_invoked = 0;
  yaclib::Promise<HV> pending[8];
  int pending_val[8];
  int n_pending = 0;
  yaclib::SharedFuture<HV> cache;  // a ready SharedFuture with one more holder than the pipeline
  yaclib::SharedPromise<HV> spending[8];
  int spending_val[8];
  int n_spending = 0;
  void Note(int idx) {
    if (n_invoked < 16) {
      invoked[n_invoked] = idx;
      ran[n_invoked] = RecExec::current != nullptr ? RecExec::current->name : "-";
      ++n_invoked;
    }
  }
};

Run* g_run = nullptr;

enum class Beh {
  val, thr, res_val, res_err, res_exc, fut_ready, fut_pending, fut_err, shared_ready, shared_pending, task_make, task_sched,
  task_contract, task_sched_then, shared_cached_exc, throw_re, task_sched_stopped, void_hop, void_throw
};

Beh ParseBeh(const std::string& s) {
  static const char* names[] = {"val", "throw", "res_val", "res_err", "res_exc", "fut_ready", "fut_pending", "fut_err",
                                "shared_ready", "shared_pending", "task_make", "task_sched", "task_contract",
                                "task_sched_then", "shared_cached_exc", "throw_re", "task_sched_stopped", "void_hop", "void_throw"};
  for (int i = 0; i != 19; ++i) {
    if (s == names[i]) {
      return static_cast<Beh>(i);
    }
  }
  std::fprintf(stderr, "bad behaviour %s\n", s.c_str());
  std::exit(2);
}

int RetClass(Beh b) {  // 0 int, 1 Result, 2 Future, 3 SharedFuture, 4 Task, 5 void (+ a no-argument step behind it)
  switch (b) {
    case Beh::void_hop:
    case Beh::void_throw: return 5;
    case Beh::val:
    case Beh::thr:
    case Beh::throw_re: return 0;
    case Beh::res_val:
    case Beh::res_err:
    case Beh::res_exc: return 1;
    case Beh::fut_ready:
    case Beh::fut_pending:
    case Beh::fut_err: return 2;
    case Beh::shared_ready:
    case Beh::shared_pending:
    case Beh::shared_cached_exc: return 3;
    default: return 4;
  }
}

template <int RC>
auto Produce(Beh b, int n) {
  if constexpr (RC == 5) {
    if (b == Beh::void_throw) {
      throw TE{5};
    }
    return;
  } else if constexpr (RC == 0) {
    if (b == Beh::thr) {
      throw TE{1};
    }
    if (b == Beh::throw_re) {
      // what Result::Ok() throws for a Result in the Error state
      (void)Result<HV>{yaclib::StopTag{}}.Ok();
    }
    return HV{n + 1};
  } else if constexpr (RC == 1) {
    if (b == Beh::res_val) {
      return Result<HV>{HV{n + 2}};
    }
    if (b == Beh::res_err) {
      return Result<HV>{yaclib::StopTag{}};
    }
    return Result<HV>{std::make_exception_ptr(TE{2})};
  } else if constexpr (RC == 2) {
    if (b == Beh::fut_ready) {
      return yaclib::MakeFuture<HV>(HV{n + 3});
    }
    if (b == Beh::fut_err) {
      return yaclib::MakeFuture<HV>(yaclib::StopTag{});
    }
    auto [f, p] = yaclib::MakeContract<HV>();
    g_run->pending[g_run->n_pending] = std::move(p);
    g_run->pending_val[g_run->n_pending++] = n + 4;
    return std::move(f);
  } else if constexpr (RC == 3) {
    if (b == Beh::shared_cached_exc) {
      if (!g_run->cache.Valid()) {
        auto [cf, cp] = yaclib::MakeSharedContract<HV>();
        std::move(cp).Set(std::make_exception_ptr(TE{2}));
        g_run->cache = std::move(cf);
      }
      return yaclib::SharedFuture<HV>{g_run->cache};
    }
    auto [f, p] = yaclib::MakeSharedContract<HV>();
    if (b == Beh::shared_ready) {
      std::move(p).Set(n + 5);
    } else {
      g_run->spending[g_run->n_spending] = std::move(p);
      g_run->spending_val[g_run->n_spending++] = n + 6;
    }
    return std::move(f);
  } else {
    if (b == Beh::task_make) {
      return yaclib::MakeTask<HV>(HV{n + 7});
    }
    if (b == Beh::task_sched) {
      return yaclib::Schedule([n] {
        return HV{n + 8};
      });
    }
    if (b == Beh::task_sched_stopped) {
      // the head of the returned Task sits on an executor that refuses work: it must be cancelled, not run
      return yaclib::Schedule(yaclib::MakeInline(yaclib::StopTag{}), [n] {
        return HV{n + 12};
      });
    }
    if (b == Beh::task_contract) {
      return yaclib::LazyContract<HV>([n](yaclib::Promise<HV> p) {
        std::move(p).Set(n + 9);
      });
    }
    return yaclib::Schedule([n] {
             return HV{n + 10};
           })
      .ThenInline([](HV x) {
        return HV{x.v + 1};
      });
  }
}

template <char A, int RC>
struct Fn {
  int idx;
  Beh beh;
  Tracker t;
  using Ret = decltype(Produce<RC>(Beh::val, 0));

  template <char B = A, std::enable_if_t<B == 'V', int> = 0>
  Ret operator()(HV v) {
    g_run->Note(idx);
    g_run->hop[idx & 15] = v.v;
    return Produce<RC>(beh, v.v);
  }
  template <char B = A, std::enable_if_t<B == 'E', int> = 0>
  Ret operator()(yaclib::StopError) {
    g_run->Note(idx);
    return Produce<RC>(beh, 0);
  }
  template <char B = A, std::enable_if_t<B == 'X', int> = 0>
  Ret operator()(std::exception_ptr) {
    g_run->Note(idx);
    return Produce<RC>(beh, 0);
  }
  // a SharedFuture hands its continuations a const reference to the Result it keeps
  template <char B = A, std::enable_if_t<B == 'R', int> = 0>
  Ret operator()(const Result<HV>& r) {
    g_run->Note(idx);
    int n = r.State() == yaclib::ResultState::Value ? r.Value().v : 0;
    g_run->hop[idx & 15] = n;
    return Produce<RC>(beh, n);
  }
  template <char B = A, std::enable_if_t<B == 'R', int> = 0>
  Ret operator()(Result<HV>&& r) {
    g_run->Note(idx);
    int n = r.State() == yaclib::ResultState::Value ? std::move(r).Value().v : 0;
    g_run->hop[idx & 15] = n;
    return Produce<RC>(beh, n);
  }
};

// the no-argument callback behind a void step: back to the value type
struct Second {
  int idx;
  Tracker t;
  HV operator()() {
    return HV{g_run->hop[idx & 15] + 13};
  }
};
template <int RC, typename F>
auto Hop(F&& f, int idx) {
  if constexpr (RC == 5) {
    return std::forward<F>(f).ThenInline(Second{idx, {}});
  } else {
    return std::forward<F>(f);
  }
}

using Holder = std::variant<Future<HV>, FutureOn<HV>>;

RecExec& Exec(const std::string& att) {
  return att == "e1" ? g_e1 : g_e2;
}

template <char A, int RC>
void AttachEager(Holder& h, const std::string& att, int idx, Beh beh) {
  Fn<A, RC> fn{idx, beh, {}};
  if (att == "inline") {
    if (auto* f = std::get_if<Future<HV>>(&h)) {
      h = Holder{std::in_place_index<0>, Hop<RC>(std::move(*f).ThenInline(std::move(fn)), idx)};
    } else {
      h = Holder{std::in_place_index<1>, Hop<RC>(std::move(std::get<1>(h)).ThenInline(std::move(fn)), idx)};
    }
  } else if (att == "inh") {
    h = Holder{std::in_place_index<1>, Hop<RC>(std::move(std::get<1>(h)).Then(std::move(fn)), idx)};
  } else {
    if (auto* f = std::get_if<Future<HV>>(&h)) {
      h = Holder{std::in_place_index<1>, Hop<RC>(std::move(*f).Then(Exec(att), std::move(fn)), idx)};
    } else {
      h = Holder{std::in_place_index<1>, Hop<RC>(std::move(std::get<1>(h)).Then(Exec(att), std::move(fn)), idx)};
    }
  }
}

// first step of a pipeline whose source is a SharedFuture
template <char A, int RC>
void AttachShared(const yaclib::SharedFuture<HV>& sf, Holder& h, const std::string& att, int idx, Beh beh) {
  Fn<A, RC> fn{idx, beh, {}};
  if (att == "inline") {
    h = Holder{std::in_place_index<0>, Hop<RC>(sf.ThenInline(std::move(fn)), idx)};
  } else {
    h = Holder{std::in_place_index<1>, Hop<RC>(sf.Then(Exec(att), std::move(fn)), idx)};
  }
}

template <char A, int RC>
void AttachLazy(Task<HV>& t, const std::string& att, int idx, Beh beh) {
  Fn<A, RC> fn{idx, beh, {}};
  if (att == "inline") {
    t = Hop<RC>(std::move(t).ThenInline(std::move(fn)), idx);
  } else if (att == "inh") {
    t = Hop<RC>(std::move(t).Then(std::move(fn)), idx);
  } else {
    t = Hop<RC>(std::move(t).Then(Exec(att), std::move(fn)), idx);
  }
}

template <typename H, typename F>
void Dispatch(char a, int rc, F&& f) {
#define VRT_CASE(AA, RR)                                                                                               \
  if (a == AA && rc == RR) {                                                                                           \
    return f(std::integral_constant<char, AA>{}, std::integral_constant<int, RR>{});                                  \
  }
  VRT_CASE('V', 0) VRT_CASE('V', 1) VRT_CASE('V', 2) VRT_CASE('V', 3) VRT_CASE('V', 4)
  VRT_CASE('E', 0) VRT_CASE('E', 1) VRT_CASE('E', 2) VRT_CASE('E', 3) VRT_CASE('E', 4)
  VRT_CASE('X', 0) VRT_CASE('X', 1) VRT_CASE('X', 2) VRT_CASE('X', 3) VRT_CASE('X', 4)
  VRT_CASE('R', 0) VRT_CASE('R', 1) VRT_CASE('R', 2) VRT_CASE('R', 3) VRT_CASE('R', 4)
  VRT_CASE('V', 5) VRT_CASE('R', 5)
#undef VRT_CASE
  std::fprintf(stderr, "bad step %c %d\n", a, rc);
  std::exit(2);
}

struct Step {
  std::string att;
  char arg;
  Beh beh;
};

struct Program {
  std::string mode, src, start;
  long rej1 = 9, rej2 = 9;
  std::vector<Step> steps;
};

std::vector<std::string> Split(const std::string& s, char sep) {
  std::vector<std::string> r;
  std::string cur;
  for (char c : s) {
    if (c == sep) {
      r.push_back(cur);
      cur.clear();
    } else {
      cur += c;
    }
  }
  r.push_back(cur);
  return r;
}

Program Parse(const std::string& line) {
  Program p;
  for (auto& kv : Split(line, ';')) {
    auto eq = kv.find('=');
    if (eq == std::string::npos) {
      continue;
    }
    auto k = kv.substr(0, eq);
    auto v = kv.substr(eq + 1);
    if (k == "mode") {
      p.mode = v;
    } else if (k == "src") {
      p.src = v;
    } else if (k == "start") {
      p.start = v;
    } else if (k == "rej") {
      for (auto& e : Split(v, ',')) {
        auto c = e.find(':');
        long n = std::atol(e.substr(c + 1).c_str());
        (e.substr(0, c) == "e1" ? p.rej1 : p.rej2) = n;
      }
    } else if (k == "steps" && !v.empty()) {
      for (auto& s : Split(v, ',')) {
        auto parts = Split(s, ':');
        p.steps.push_back(Step{parts[0], parts[1][0], ParseBeh(parts[2])});
      }
    }
  }
  return p;
}

void FulfilPending(Run& run) {
  // fulfil inner promises in creation order until none is left (fulfilling may create more)
  int i = 0, j = 0;
  while (i < run.n_pending || j < run.n_spending) {
    if (i < run.n_pending) {
      std::move(run.pending[i]).Set(HV{run.pending_val[i]});
      ++i;
    }
    if (j < run.n_spending) {
      std::move(run.spending[j]).Set(HV{run.spending_val[j]});
      ++j;
    }
  }
}

std::string DescR(const Result<HV>& r) {
  switch (r.State()) {
    case yaclib::ResultState::Value: return "v" + std::to_string(std::as_const(r).Value().v);
    case yaclib::ResultState::Error: return "stop";
    case yaclib::ResultState::Exception:
      if (!std::as_const(r).Exception()) {
        return "exc:null";
      }
      try {
        std::rethrow_exception(std::as_const(r).Exception());
      } catch (const TE& t) {
        return "exc:" + std::to_string(t.tag);
      } catch (const yaclib::ResultError<yaclib::StopError>&) {
        return "exc:4";
      } catch (...) {
        return "exc:?";
      }
    default: return "empty";
  }
}

std::string RunProgram(const Program& p) {
  Run run;
  g_run = &run;
  g_e1.Reset(p.rej1);
  g_e2.Reset(p.rej2);
  Tracker::live = 0;
  std::string final = "?";
  HV::copies = 0;
  auto stats0 = vrt::GetAllocStats();
  std::uint64_t build_news = 0;
  {
    if (p.mode == "eager") {
      Holder h{std::in_place_index<0>, Future<HV>{}};
      yaclib::Promise<HV> later;
      std::string later_kind;
      yaclib::SharedFuture<HV> shared_src;
      yaclib::SharedPromise<HV> shared_later;
      const auto& s = p.src;
      if (s.rfind("sready_", 0) == 0 || s.rfind("safter_", 0) == 0) {
        auto [sf, sp] = yaclib::MakeSharedContract<HV>();
        shared_src = std::move(sf);
        if (s == "sready_val") {
          std::move(sp).Set(HV{1});
        } else if (s == "sready_err") {
          std::move(sp).Set(yaclib::StopTag{});
        } else if (s == "sready_exc") {
          std::move(sp).Set(std::make_exception_ptr(TE{3}));
        } else {
          shared_later = std::move(sp);
          later_kind = s;
        }
      } else if (s == "ready_val") {
        h = Holder{std::in_place_index<0>, yaclib::MakeFuture<HV>(HV{1})};
      } else if (s == "ready_err") {
        h = Holder{std::in_place_index<0>, yaclib::MakeFuture<HV>(yaclib::StopTag{})};
      } else if (s == "ready_exc") {
        h = Holder{std::in_place_index<0>, yaclib::MakeFuture<HV>(std::make_exception_ptr(TE{3}))};
      } else if (s == "before_val" || s == "after_val" || s == "after_err" || s == "after_exc") {
        auto [f, pr] = yaclib::MakeContract<HV>();
        h = Holder{std::in_place_index<0>, std::move(f)};
        if (s == "before_val") {
          std::move(pr).Set(HV{1});
        } else {
          later = std::move(pr);
          later_kind = s;
        }
      } else if (s == "on_after_val") {
        auto [f, pr] = yaclib::MakeContractOn<HV>(g_e1);
        h = Holder{std::in_place_index<1>, std::move(f)};
        later = std::move(pr);
        later_kind = "after_val";
      } else if (s == "run_val") {
        h = Holder{std::in_place_index<1>, yaclib::Run(g_e1, [t = Tracker{}] {
                     g_run->Note(0);
                     return HV{1};
                   })};
      } else if (s == "run_throw") {
        h = Holder{std::in_place_index<1>, yaclib::Run(g_e1, [t = Tracker{}]() -> HV {
                     g_run->Note(0);
                     throw TE{1};
                   })};
      } else if (s == "acontract_val") {
        h = Holder{std::in_place_index<0>, yaclib::AsyncContract<HV>([t = Tracker{}](yaclib::Promise<HV> pr) {
                     g_run->Note(0);
                     std::move(pr).Set(HV{1});
                   })};
      } else {
        return "final=badsrc";
      }
      int idx = 0;
      for (auto& st : p.steps) {
        ++idx;
        Dispatch<Holder>(st.arg, RetClass(st.beh), [&](auto a, auto rc) {
          if (idx == 1 && shared_src.Valid()) {
            AttachShared<decltype(a)::value, decltype(rc)::value>(shared_src, h, st.att, idx, st.beh);
          } else {
            AttachEager<decltype(a)::value, decltype(rc)::value>(h, st.att, idx, st.beh);
          }
        });
      }
      build_news = vrt::GetAllocStats().news - stats0.news;
      if (shared_later.Valid()) {
        if (later_kind == "safter_val") {
          std::move(shared_later).Set(HV{1});
        } else {
          std::move(shared_later).Set(std::make_exception_ptr(TE{3}));
        }
      }
      if (later.Valid()) {
        if (later_kind == "after_val") {
          std::move(later).Set(HV{1});
        } else if (later_kind == "after_err") {
          std::move(later).Set(yaclib::StopTag{});
        } else {
          std::move(later).Set(std::make_exception_ptr(TE{3}));
        }
      }
      FulfilPending(run);
      if (shared_src.Valid() && p.steps.empty()) {
        final = shared_src.Ready() ? DescR(shared_src.Touch()) : std::string("not_ready");
      } else
      std::visit(
        [&](auto& f) {
          if (!f.Valid()) {
            final = "invalid";
          } else if (!f.Ready()) {
            final = "not_ready";
            // keep it alive until the end of the scope: dropping it is legal
          } else {
            final = DescR(std::move(f).Get());
          }
        },
        h);
    } else {
      Task<HV> t;
      const auto& s = p.src;
      if (s == "task_val") {
        t = yaclib::MakeTask<HV>(HV{1});
      } else if (s == "task_err") {
        t = yaclib::MakeTask<HV>(yaclib::StopTag{});
      } else if (s == "task_exc") {
        t = yaclib::MakeTask<HV>(std::make_exception_ptr(TE{3}));
      } else if (s == "sched_val") {
        t = yaclib::Schedule(g_e1, [tr = Tracker{}] {
          g_run->Note(0);
          return HV{1};
        });
      } else if (s == "sched_throw") {
        t = yaclib::Schedule(g_e1, [tr = Tracker{}]() -> HV {
          g_run->Note(0);
          throw TE{1};
        });
      } else if (s == "lcontract_val") {
        t = yaclib::LazyContract<HV>([tr = Tracker{}](yaclib::Promise<HV> pr) {
          g_run->Note(0);
          std::move(pr).Set(HV{1});
        });
      } else {
        return "final=badsrc";
      }
      int idx = 0;
      for (auto& st : p.steps) {
        ++idx;
        Dispatch<Task<HV>>(st.arg, RetClass(st.beh), [&](auto a, auto rc) {
          AttachLazy<decltype(a)::value, decltype(rc)::value>(t, st.att, idx, st.beh);
        });
      }
      build_news = vrt::GetAllocStats().news - stats0.news;
      int before_start = run.n_invoked;
      long sub_before = g_e1.submits + g_e2.submits;
      if (before_start != 0 || sub_before != 0) {
        final = "ran_before_start";
      } else if (p.start == "to_future" || p.start == "to_future_e2") {
        std::variant<Future<HV>, FutureOn<HV>> f{std::in_place_index<0>, Future<HV>{}};
        if (p.start == "to_future") {
          f = std::variant<Future<HV>, FutureOn<HV>>{std::in_place_index<0>, std::move(t).ToFuture()};
        } else {
          f = std::variant<Future<HV>, FutureOn<HV>>{std::in_place_index<1>, std::move(t).ToFuture(g_e2)};
        }
        FulfilPending(run);
        std::visit(
          [&](auto& ff) {
            final = ff.Ready() ? DescR(std::move(ff).Get()) : std::string("not_ready");
          },
          f);
      } else if (p.start == "get") {
        // Task::Get blocks when something is pending: start it through ToFuture and fulfil first
        auto f = std::move(t).ToFuture();
        FulfilPending(run);
        final = f.Ready() ? DescR(std::move(f).Get()) : std::string("not_ready");
      } else if (p.start == "detach") {
        std::move(t).Detach();
        FulfilPending(run);
        final = "detached";
      } else if (p.start == "detach_e2") {
        std::move(t).Detach(g_e2);
        FulfilPending(run);
        final = "detached";
      } else {  // drop
        {
          auto dropped = std::move(t);
        }
        FulfilPending(run);
        final = "detached";
      }
    }
  }
  std::string cache = "-";
  if (run.cache.Valid()) {
    cache = DescR(std::as_const(run.cache).Get());
    run.cache = {};
  }
  auto stats1 = vrt::GetAllocStats();
  std::ostringstream os;
  os << "final=" << final << ";invoked=";
  for (int i = 0; i != run.n_invoked; ++i) {
    os << (i != 0 ? "," : "") << run.invoked[i];
  }
  os << ";ran=";
  for (int i = 0; i != run.n_invoked; ++i) {
    os << (i != 0 ? "," : "") << run.ran[i];
  }
  os << ";sub=" << g_e1.submits << "," << g_e2.submits << ";calls=" << g_e1.calls << "," << g_e2.calls
     << ";drops=" << g_e1.drops << "," << g_e2.drops << ";allocs=" << (stats1.news - stats0.news)
     << ";build_allocs=" << build_news
     << ";leak=" << (static_cast<long>(stats1.news - stats0.news) - static_cast<long>(stats1.deletes - stats0.deletes))
     << ";flive=" << Tracker::live << ";cache=" << cache << ";copies=" << HV::copies
     << ";erefs=" << g_e1.refs << "," << g_e2.refs;
  g_run = nullptr;
  return os.str();
}

int PipelineMain(int /*argc*/, char** /*argv*/) {
  g_e1.name = "e1";
  g_e2.name = "e2";
  std::vector<std::string> lines;
  std::string l;
  while (std::getline(std::cin, l)) {
    if (!l.empty()) {
      lines.push_back(l);
    }
  }
  auto* progress = static_cast<volatile long*>(
    mmap(nullptr, sizeof(long), PROT_READ | PROT_WRITE, MAP_SHARED | MAP_ANONYMOUS, -1, 0));
  long i = 0;
  const long n = static_cast<long>(lines.size());
  while (i < n) {
    *progress = i;
    std::fflush(stdout);
    pid_t pid = fork();
    if (pid == 0) {
      std::signal(SIGSEGV, SIG_DFL);
      std::signal(SIGABRT, SIG_DFL);
      std::signal(SIGBUS, SIG_DFL);
      std::set_terminate([] {
        _exit(99);
      });
      alarm(120);
      std::setvbuf(stdout, nullptr, _IOLBF, 0);
      for (long k = i; k < n; ++k) {
        *progress = k;
        auto prog = Parse(lines[static_cast<std::size_t>(k)]);
        auto res = RunProgram(prog);
        std::printf("%ld %s\n", k, res.c_str());
      }
      std::fflush(stdout);
      _exit(0);
    }
    int status = 0;
    waitpid(pid, &status, 0);
    if (WIFEXITED(status) && WEXITSTATUS(status) == 0) {
      break;
    }
    long at = *progress;
    std::printf("%ld final=CRASH:%d\n", at, WIFSIGNALED(status) ? WTERMSIG(status) : 1000 + WEXITSTATUS(status));
    i = at + 1;
  }
  std::fflush(stdout);
  return 0;
}

vrt::CommandRegistrar g_reg{"pipeline", &PipelineMain};

}  // namespace
