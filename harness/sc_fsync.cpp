// Scenario "fs": k fibers run short programs over one yaclib_std lock of a given type, a condition variable,
// sleeps, joins and a thread-local pointer (C18).  Every injection point of the fault layer is a scheduling point.
//   lt = mutex | timed | recursive | recursive_timed | shared | shared_timed
//   progs = per-fiber operation strings separated by '.', e.g. "lu.tu.fu"
//     l lock  u unlock  t try_lock  f try_lock_for(1ms)  s lock_shared  r unlock_shared  y try_lock_shared
//     g try_lock_shared_for(1ms)  w cv.wait_for(1ms)  n notify_one  N notify_all  z sleep_for(1ms)  j spawn+join  x TLS check
//     W cv.wait(predicate)  F predicate = true + notify_all
// Operations a fiber may not legally perform in its current state (unlock of a lock it does not hold, re-locking a
// non-recursive lock it owns, ...) are skipped.  Observations: {"k":"b","v":"<op>"} before and {"k":"e","v":"<op>:<result>"}
// after every API call.
#include "common.hpp"

#include <chrono>
#include <yaclib_std/condition_variable>
#include <yaclib_std/mutex>
#include <yaclib_std/shared_mutex>
#include <yaclib_std/thread>
#include <yaclib_std/thread_local>

namespace {

using namespace std::chrono_literals;

static YACLIB_THREAD_LOCAL_PTR(int) tls_ptr;

struct Locks {
  yaclib_std::mutex m;
  yaclib_std::timed_mutex tm;
  yaclib_std::recursive_mutex rm;
  yaclib_std::recursive_timed_mutex rtm;
  yaclib_std::shared_mutex sm;
  yaclib_std::shared_timed_mutex stm;
  yaclib_std::mutex cm;
  yaclib_std::condition_variable cv;
  bool flag = false;  // the predicate of W, set by F under cm
};

struct Held {
  int excl = 0;
  int shared = 0;
};

template <typename L>
void RunOps(vrt::Ctx&, const std::string& me, const std::string& prog, L& lock, Locks& ls, bool recursive, int* tls_marker) {
  Held h;
  auto B = [&](char op) {
    vrt::Obs("b", std::string(1, op));
  };
  auto E = [&](char op, const std::string& res) {
    vrt::Obs("e", std::string(1, op) + ":" + res);
  };
  for (char op : prog) {
    switch (op) {
      case 'l':
        if (h.shared != 0 || (h.excl != 0 && !recursive)) {
          break;
        }
        B(op);
        lock.lock();
        ++h.excl;
        E(op, "1");
        break;
      case 'u':
        if (h.excl == 0) {
          break;
        }
        B(op);
        lock.unlock();
        --h.excl;
        E(op, "1");
        break;
      case 't':
        if (h.shared != 0 || (h.excl != 0 && !recursive)) {
          break;
        }
        B(op);
        if (lock.try_lock()) {
          ++h.excl;
          E(op, "1");
        } else {
          E(op, "0");
        }
        break;
      case 'f':
        if constexpr (requires { lock.try_lock_for(1ms); }) {
          if (h.shared != 0 || (h.excl != 0 && !recursive)) {
            break;
          }
          B(op);
          if (lock.try_lock_for(1ms)) {
            ++h.excl;
            E(op, "1");
          } else {
            E(op, "0");
          }
        }
        break;
      case 's':
        if constexpr (requires { lock.lock_shared(); }) {
          if (h.shared != 0 || h.excl != 0) {
            break;
          }
          B(op);
          lock.lock_shared();
          ++h.shared;
          E(op, "1");
        }
        break;
      case 'r':
        if constexpr (requires { lock.unlock_shared(); }) {
          if (h.shared == 0) {
            break;
          }
          B(op);
          lock.unlock_shared();
          --h.shared;
          E(op, "1");
        }
        break;
      case 'y':
        if constexpr (requires { lock.try_lock_shared(); }) {
          if (h.shared != 0 || h.excl != 0) {
            break;
          }
          B(op);
          if (lock.try_lock_shared()) {
            ++h.shared;
            E(op, "1");
          } else {
            E(op, "0");
          }
        }
        break;
      case 'g':
        if constexpr (requires { lock.try_lock_shared_for(1ms); }) {
          if (h.shared != 0 || h.excl != 0) {
            break;
          }
          B(op);
          if (lock.try_lock_shared_for(1ms)) {
            ++h.shared;
            E(op, "1");
          } else {
            E(op, "0");
          }
        }
        break;
      case 'w': {
        std::unique_lock guard{ls.cm};
        B(op);
        auto st = ls.cv.wait_for(guard, 1ms);
        E(op, st == std::cv_status::timeout ? "timeout" : "no_timeout");
        break;
      }
      case 'W': {  // untimed wait with a predicate: never blocks forever when some fiber performs F
        std::unique_lock guard{ls.cm};
        B(op);
        ls.cv.wait(guard, [&] {
          return ls.flag;
        });
        E(op, "1");
        break;
      }
      case 'F': {  // make the predicate true and wake everybody
        std::unique_lock guard{ls.cm};
        B(op);
        ls.flag = true;
        ls.cv.notify_all();
        E(op, "1");
        break;
      }
      case 'n': {
        std::unique_lock guard{ls.cm};
        B(op);
        ls.cv.notify_one();
        E(op, "1");
        break;
      }
      case 'N': {
        std::unique_lock guard{ls.cm};
        B(op);
        ls.cv.notify_all();
        E(op, "1");
        break;
      }
      case 'z':
        B(op);
        yaclib_std::this_thread::sleep_for(1ms);
        E(op, "1");
        break;
      case 'j': {
        B(op);
        yaclib_std::thread child([me] {
          vrt::NameSelf(me + "c");
          yaclib_std::this_thread::yield();
          vrt::Obs("child_fin", me);
        });
        child.join();
        E(op, "1");
        break;
      }
      case 'x': {
        B(op);
        tls_ptr = tls_marker;
        yaclib_std::this_thread::yield();
        int* got = tls_ptr.Get();
        E(op, got == tls_marker ? "ok" : "bad");
        break;
      }
      default:
        break;
    }
  }
  // release whatever is still held so that the others can finish
  while (h.excl != 0) {
    vrt::Obs("b", "u");
    lock.unlock();
    --h.excl;
    vrt::Obs("e", "u:1");
  }
  if constexpr (requires { lock.unlock_shared(); }) {
    while (h.shared != 0) {
      vrt::Obs("b", "r");
      lock.unlock_shared();
      --h.shared;
      vrt::Obs("e", "r:1");
    }
  }
}

VRT_SCENARIO(fs, "fibers running lock / condvar / sleep / join / TLS programs on the yaclib_std primitives") {
  ctx.EnableTimeChoice();
  ctx.EnableAnonYield();
  const std::string lt = ctx.Param("lt", "mutex");
  const std::string progs = ctx.Param("progs", "lu.lu");
  std::vector<std::string> ps;
  std::string cur;
  for (char c : progs) {
    if (c == '.') {
      ps.push_back(cur);
      cur.clear();
    } else {
      cur += c;
    }
  }
  ps.push_back(cur);
  Locks ls;
  std::vector<int> markers(ps.size());
  for (std::size_t i = 0; i != ps.size(); ++i) {
    const std::string name = "F" + std::to_string(i + 1);
    ctx.Spawn(name, [&, i, name] {
      if (lt == "mutex") {
        RunOps(ctx, name, ps[i], ls.m, ls, false, &markers[i]);
      } else if (lt == "timed") {
        RunOps(ctx, name, ps[i], ls.tm, ls, false, &markers[i]);
      } else if (lt == "recursive") {
        RunOps(ctx, name, ps[i], ls.rm, ls, true, &markers[i]);
      } else if (lt == "recursive_timed") {
        RunOps(ctx, name, ps[i], ls.rtm, ls, true, &markers[i]);
      } else if (lt == "shared") {
        RunOps(ctx, name, ps[i], ls.sm, ls, false, &markers[i]);
      } else {
        RunOps(ctx, name, ps[i], ls.stm, ls, false, &markers[i]);
      }
    });
  }
  ctx.JoinAll();
}

}  // namespace
