// Command "repro": runs client programs under the FIBER backend's OWN seeded random scheduler (no controller choices,
// observation hooks only) and writes the normalised decision trace (property C17):
//   R <max> <value>                 random draw
//   P <where> <n> <ids...> <chosen> random pick from a fiber list (ids normalised to first appearance)
//   S <id> <time_hi> <time_lo>      the scheduler resumes fiber <id>, virtual time split in 30-bit halves
//   I <count>                       the injector yields (injected count since the program began)
//   B <prog> <randcount> <injstate> a program begins (the point a run can be restored at)
//   X <prog> <result...>            a program ended with these results
// usage: vrt repro --seed S --freq F --width W [--sleep NS] --progs a,b,c [--twice] [--keep-sched] [--restore <prog> <randcount> <injstate>] [--out FILE]
#include "common.hpp"

#include <yaclib/async/contract.hpp>
#include <yaclib/async/run.hpp>
#include <yaclib/async/wait_for.hpp>
#include <yaclib/async/when_all.hpp>
#include <yaclib/coro/await.hpp>
#include <yaclib/coro/future.hpp>
#include <yaclib/coro/mutex.hpp>
#include <yaclib/coro/on.hpp>
#include <yaclib/exe/strand.hpp>
#include <yaclib/exe/submit.hpp>
#include <yaclib/fault/config.hpp>
#include <yaclib/fault/inject.hpp>
#include <yaclib/fault/verif.hpp>
#include <yaclib/runtime/fair_thread_pool.hpp>

#include <chrono>
#include <cstdio>
#include <cstring>
#include <map>
#include <string>
#include <vector>
#include <yaclib_std/atomic>
#include <yaclib_std/thread>

namespace {

using namespace std::chrono_literals;

FILE* g_out = nullptr;
std::map<std::uint64_t, int> g_ids;
bool g_recording = false;
std::uint64_t g_inject_base = 0;

int Norm(std::uint64_t id) {
  auto it = g_ids.find(id);
  if (it == g_ids.end()) {
    it = g_ids.emplace(id, static_cast<int>(g_ids.size()) + 1).first;
  }
  return it->second;
}

void OnRand(std::uint64_t max, std::uint64_t v) {
  if (g_recording) {
    std::fprintf(g_out, "R %llu %llu\n", static_cast<unsigned long long>(max), static_cast<unsigned long long>(v));
  }
}
void OnPick(int where, const std::uint64_t* ids, int n, std::uint64_t chosen) {
  if (!g_recording) {
    return;
  }
  std::fprintf(g_out, "P %d %d", where, n);
  for (int i = 0; i != n; ++i) {
    std::fprintf(g_out, " %d", Norm(ids[i]));
  }
  std::fprintf(g_out, " %d\n", Norm(chosen));
}
std::uint64_t g_time_base = 0;  // virtual time when the program began (the scheduler may be older than the program)
void OnResume(std::uint64_t id, std::uint64_t time) {
  time -= g_time_base;
  if (g_recording) {
    std::fprintf(g_out, "S %d %llu %llu\n", Norm(id), static_cast<unsigned long long>(time >> 30),
                 static_cast<unsigned long long>(time & ((1ULL << 30) - 1)));
  }
}
// debugging aid (environment VRT_REPRO_OPS): every yaclib_std operation with the value it finds, as "O <kind> <value>"
void OnOp(const yaclib::verif::Op& op) {
  if (g_recording) {
    const std::uint64_t v = op.peek != nullptr ? op.peek(op.obj) : 0;
    // small values verbatim, anything that may be an address as "p"
    if (v < 4096) {
      std::fprintf(g_out, "O %d %llu\n", static_cast<int>(op.kind), static_cast<unsigned long long>(v));
    } else {
      std::fprintf(g_out, "O %d p\n", static_cast<int>(op.kind));
    }
  }
}
void OnInject(std::uint64_t count) {
  if (g_recording) {
    std::fprintf(g_out, "I %llu\n", static_cast<unsigned long long>(count - g_inject_base));
  }
}

// ---------------------------------------------------------------- client programs
std::string ProgPool() {
  yaclib::FairThreadPool tp{3};
  yaclib_std::atomic<int> counter{0};
  std::vector<int> order;
  std::vector<yaclib::Future<int>> fs;
  for (int i = 0; i != 12; ++i) {
    fs.push_back(yaclib::Run(tp, [&, i] {
                   counter.fetch_add(1, std::memory_order_relaxed);
                   order.push_back(i);
                   return i;
                 }).On(nullptr));
  }
  auto all = yaclib::WhenAll(fs.begin(), fs.size());
  auto r = std::move(all).Get();
  tp.Stop();
  tp.Wait();
  std::string s = "n=" + std::to_string(counter.load()) + " order=";
  for (int x : order) {
    s += std::to_string(x) + ".";
  }
  return s;
}

std::string ProgStrand() {
  yaclib::FairThreadPool tp{2};
  auto strand = yaclib::MakeStrand(yaclib::IExecutorPtr{yaclib::NoRefTag{}, &tp});
  std::vector<int> order;
  std::vector<yaclib_std::thread> ts;
  for (int t = 0; t != 3; ++t) {
    ts.emplace_back([&, t] {
      for (int j = 0; j != 4; ++j) {
        yaclib::Submit(*strand, [&order, t, j] {
          order.push_back(10 * t + j);
        });
      }
    });
  }
  for (auto& t : ts) {
    t.join();
  }
  tp.SoftStop();
  tp.Stop();
  tp.Wait();
  std::string s = "order=";
  for (int x : order) {
    s += std::to_string(x) + ".";
  }
  return s;
}

// several fibers sleeping until exactly the same virtual time: whoever orders them must not use anything but the
// order in which they went to sleep
std::string ProgTie() {
  yaclib_std::atomic<int> cell{0};
  std::string order;
  const auto deadline = yaclib_std::chrono::steady_clock::now() + std::chrono::microseconds(50);
  std::vector<yaclib_std::thread> ts;
  for (int t = 0; t != 4; ++t) {
    ts.emplace_back([&, t] {
      yaclib_std::this_thread::sleep_until(deadline);
      order += static_cast<char>('A' + t);
      for (int k = 0; k != 4; ++k) {
        cell.store(cell.load(std::memory_order_relaxed) * 3 + t, std::memory_order_relaxed);
      }
    });
  }
  for (auto& t : ts) {
    t.join();
  }
  return "order=" + order + " cell=" + std::to_string(cell.load());
}

std::string ProgTimed() {
  std::vector<yaclib::Promise<int>> ps;
  std::vector<yaclib::Future<int>> fs;
  for (int i = 0; i != 3; ++i) {
    auto [f, p] = yaclib::MakeContract<int>();
    fs.push_back(std::move(f));
    ps.push_back(std::move(p));
  }
  std::vector<yaclib_std::thread> ts;
  for (int i = 0; i != 3; ++i) {
    ts.emplace_back([&, i] {
      yaclib_std::this_thread::sleep_for(std::chrono::microseconds(40 * (i + 1)));
      std::move(ps[static_cast<std::size_t>(i)]).Set(i);
    });
  }
  std::string s;
  for (int round = 0; round != 4; ++round) {
    bool ok = yaclib::WaitFor(std::chrono::microseconds(30), fs.begin(), fs.end());
    s += ok ? "1" : "0";
    for (auto& f : fs) {
      s += f.Ready() ? "r" : "-";
    }
    s += ",";
  }
  yaclib::Wait(fs.begin(), fs.end());
  for (auto& t : ts) {
    t.join();
  }
  return s;
}

yaclib::Future<int> CoroWorker(yaclib::FairThreadPool& tp, yaclib::Mutex<>& m, int& shared, std::vector<int>& order, int id) {
  co_await On(tp);
  for (int k = 0; k != 3; ++k) {
    auto g = co_await m.Guard();
    shared += 1;
    order.push_back(id);
  }
  co_return id;
}

std::string ProgCoro() {
  yaclib::FairThreadPool tp{3};
  yaclib::Mutex<> m;
  int shared = 0;
  std::vector<int> order;
  std::vector<yaclib::Future<int>> fs;
  for (int i = 0; i != 4; ++i) {
    fs.push_back(CoroWorker(tp, m, shared, order, i));
  }
  yaclib::Wait(fs.begin(), fs.end());
  tp.Stop();
  tp.Wait();
  std::string s = "shared=" + std::to_string(shared) + " order=";
  for (int x : order) {
    s += std::to_string(x);
  }
  return s;
}

// best-effort single weak CAS attempts by several threads: the pattern of spurious failures is part of the result
std::string ProgCas() {
  yaclib_std::atomic<int> cell{0};
  std::vector<std::string> outs(3);
  std::vector<yaclib_std::thread> ts;
  for (int t = 0; t != 3; ++t) {
    ts.emplace_back([&, t] {
      for (int j = 0; j != 8; ++j) {
        int expected = cell.load(std::memory_order_relaxed);
        const bool ok = cell.compare_exchange_weak(expected, expected + 1, std::memory_order_acq_rel, std::memory_order_relaxed);
        outs[static_cast<std::size_t>(t)] += ok ? "1" : "0";
      }
    });
  }
  for (auto& t : ts) {
    t.join();
  }
  // a last, unretried attempt right before the program ends
  int expected = cell.load(std::memory_order_relaxed);
  const bool last = cell.compare_exchange_weak(expected, expected + 1, std::memory_order_acq_rel, std::memory_order_relaxed);
  return "cell=" + std::to_string(cell.load()) + " " + outs[0] + "." + outs[1] + "." + outs[2] + " last=" + (last ? "1" : "0");
}

std::string RunProg(const std::string& name) {
  if (name.rfind("cas", 0) == 0) {
    return ProgCas();
  }
  if (name == "pool") {
    return ProgPool();
  }
  if (name == "strand") {
    return ProgStrand();
  }
  if (name == "timed") {
    return ProgTimed();
  }
  if (name == "tie") {
    return ProgTie();
  }
  return ProgCoro();
}

// Each program runs under a fresh scheduler in its own root fiber; the (random-count, injector-state) pair is taken
// OUTSIDE the scheduler right before the root fiber is created -- the point a run is restored at.
yaclib::fault::Scheduler* g_kept = nullptr;  // --keep-sched: one scheduler for the whole process, as a client would have

void RunAll(const std::vector<std::string>& progs, const std::string& only) {
  for (auto& p : progs) {
    if (!only.empty() && p != only) {
      continue;
    }
    std::fprintf(g_out, "B %s %llu %u\n", p.c_str(), static_cast<unsigned long long>(yaclib::fiber::GetFaultRandomCount()),
                 yaclib::fiber::GetInjectorState());
    g_inject_base = yaclib::GetInjectedCount();
    g_recording = true;
    std::string res;
    if (g_kept != nullptr) {
      // virtual time keeps running from program to program and from run to run: only differences may matter
      g_time_base = g_kept->GetTimeNs();
      yaclib_std::thread root([&] {
        res = RunProg(p);
      });
      root.join();
    } else {
      g_time_base = 0;
      yaclib::fault::Scheduler scheduler;
      yaclib::fault::Scheduler::Set(&scheduler);
      yaclib_std::thread root([&] {
        res = RunProg(p);
      });
      root.join();
      yaclib::fault::Scheduler::Set(nullptr);
    }
    g_recording = false;
    std::fprintf(g_out, "X %s %s\n", p.c_str(), res.c_str());
  }
}

int ReproMain(int argc, char** argv) {
  std::uint32_t seed = 1, freq = 4, width = 10, sleep = 200;
  std::vector<std::string> progs{"pool"};
  bool twice = false;
  bool keep_sched = false;
  std::string restore_prog;
  std::uint64_t restore_count = 0;
  std::uint32_t restore_state = 0;
  g_out = stdout;
  for (int i = 0; i < argc; ++i) {
    std::string a = argv[i];
    if (a == "--seed") {
      seed = static_cast<std::uint32_t>(std::atol(argv[++i]));
    } else if (a == "--freq") {
      freq = static_cast<std::uint32_t>(std::atol(argv[++i]));
    } else if (a == "--width") {
      width = static_cast<std::uint32_t>(std::atol(argv[++i]));
    } else if (a == "--sleep") {
      sleep = static_cast<std::uint32_t>(std::atol(argv[++i]));
    } else if (a == "--progs") {
      progs.clear();
      std::string cur;
      for (char c : std::string(argv[++i]) + ",") {
        if (c == ',') {
          if (!cur.empty()) {
            progs.push_back(cur);
          }
          cur.clear();
        } else {
          cur += c;
        }
      }
    } else if (a == "--twice") {
      twice = true;
    } else if (a == "--keep-sched") {
      keep_sched = true;
    } else if (a == "--restore") {
      restore_prog = argv[++i];
      restore_count = std::strtoull(argv[++i], nullptr, 10);
      restore_state = static_cast<std::uint32_t>(std::atol(argv[++i]));
    } else if (a == "--out") {
      g_out = std::fopen(argv[++i], "w");
    }
  }
  // a lock-free push compares pointers: whether the allocator hands a freed address out again depends on the heap's
  // history, which is not part of (program, seed, configuration) -- so no address is ever reused here
  vrt::SetNoReuseHeap(true);
  auto& h = yaclib::verif::GetHooks();
  h = yaclib::verif::Hooks{};
  h.on_rand = &OnRand;
  h.on_pick = &OnPick;
  h.on_resume = &OnResume;
  h.on_inject = &OnInject;
  if (std::getenv("VRT_REPRO_OPS") != nullptr) {
    h.begin_op = &OnOp;
  }
  yaclib::SetFaultFrequency(freq);
  yaclib::SetFaultSleepTime(sleep);
  yaclib::fiber::SetFaultRandomListPick(width);
  yaclib::fiber::SetFaultTickLength(10);
  yaclib::fiber::SetStackSize(32);
  yaclib::SetAtomicFailFrequency(7);
  int runs = twice ? 2 : 1;
  yaclib::fault::Scheduler kept;
  if (keep_sched) {
    g_kept = &kept;
    yaclib::fault::Scheduler::Set(&kept);
  }
  for (int r = 0; r != runs; ++r) {
    g_ids.clear();
    // the second in-process run allocates downwards: a decision that depends on the ORDER of two addresses flips,
    // while still no address is ever handed out twice
    vrt::SetNoReuseHeap(true, r % 2 == 1);
    yaclib::SetSeed(seed);
    yaclib::fiber::SetInjectorState(0);
    if (!restore_prog.empty()) {
      yaclib::fiber::ForwardToFaultRandomCount(restore_count);
      yaclib::fiber::SetInjectorState(restore_state);
    }
    std::fprintf(g_out, "RUN %d seed=%u freq=%u width=%u\n", r, seed, freq, width);
    RunAll(progs, restore_prog);
  }
  if (keep_sched) {
    yaclib::fault::Scheduler::Set(nullptr);
    g_kept = nullptr;
  }
  if (g_out != stdout) {
    std::fclose(g_out);
  }
  return 0;
}

vrt::CommandRegistrar g_reg{"repro", &ReproMain};

}  // namespace
