// Command "atomic": executes operation sequences enumerated by Atomic.tla on yaclib_std::atomic<T> in both
// fault-injection backends (FIBER re-implementation, THREAD wrapper over std::atomic) and on std::atomic<T>
// itself (property C19).  Input, one sequence per line:
//   <type> <backend> <init> op:arg:exp:spur;op:arg:exp:spur;...        (values in hex, '-' = none)
// Output per line:  <index> ret:val:exp;ret:val:exp;...
#include "vrt.hpp"

#include <atomic>  // the wrapper headers expect std::memory_order to be declared already

#include <yaclib/fault/detail/atomic.hpp>
#include <yaclib/fault/detail/atomic_flag.hpp>
#include <yaclib/fault/detail/fiber/atomic.hpp>
#include <yaclib/fault/detail/fiber/atomic_flag.hpp>
#include <yaclib_std/atomic>
#include <yaclib/fault/verif.hpp>

#include <cinttypes>
#include <cstdio>
#include <cstring>
#include <iostream>
#include <sstream>
#include <string>
#include <vector>

namespace {

int g_force_spurious = 0;
int g_weak_consulted = 0;

int WeakHook() {
  ++g_weak_consulted;
  return g_force_spurious;
}
bool InjectHook() {
  return true;
}

int g_arr[4096];

bool g_bits = false;  // floating types: the words are bit patterns (types b32 / b64), not small integers

template <typename T>
struct Conv {
  static T From(std::uint64_t w) {
    if constexpr (std::is_same_v<T, bool>) {
      return w != 0;
    } else if constexpr (std::is_pointer_v<T>) {
      return &g_arr[w];
    } else if constexpr (std::is_floating_point_v<T>) {
      if (g_bits) {
        T v;
        if constexpr (sizeof(T) == 4) {
          const auto u = static_cast<std::uint32_t>(w);
          std::memcpy(&v, &u, sizeof v);
        } else {
          std::memcpy(&v, &w, sizeof v);
        }
        return v;
      }
      return static_cast<T>(static_cast<std::int64_t>(w));
    } else {
      return static_cast<T>(static_cast<std::make_unsigned_t<T>>(w));
    }
  }
  static std::uint64_t To(T v) {
    if constexpr (std::is_same_v<T, bool>) {
      return v ? 1 : 0;
    } else if constexpr (std::is_pointer_v<T>) {
      return static_cast<std::uint64_t>(v - &g_arr[0]);
    } else if constexpr (std::is_floating_point_v<T>) {
      if (g_bits) {
        if constexpr (sizeof(T) == 4) {
          std::uint32_t u = 0;
          std::memcpy(&u, &v, sizeof u);
          return u;
        } else {
          std::uint64_t u = 0;
          std::memcpy(&u, &v, sizeof u);
          return u;
        }
      }
      return static_cast<std::uint64_t>(static_cast<std::int64_t>(v));
    } else {
      return static_cast<std::uint64_t>(static_cast<std::make_unsigned_t<T>>(v));
    }
  }
  // second operand of arithmetic
  static auto Delta(std::uint64_t w) {
    if constexpr (std::is_pointer_v<T>) {
      return static_cast<std::ptrdiff_t>(w);
    } else {
      return From(w);
    }
  }
};

struct OpIn {
  std::string op;
  std::uint64_t arg = 0, exp = 0;
  bool spur = false;
};

std::string Hex(std::uint64_t v) {
  char buf[32];
  std::snprintf(buf, sizeof buf, "%" PRIx64, v);
  return buf;
}

template <typename T, typename A>
std::string RunSeq(std::uint64_t init, const std::vector<OpIn>& ops) {
  A a{Conv<T>::From(init)};
  std::string out;
  constexpr auto sc = std::memory_order_seq_cst;
  for (auto& o : ops) {
    std::string ret = "-", exp = "-";
    using C = Conv<T>;
    if (o.op == "fence") {
      yaclib_std::atomic_thread_fence(sc);
    } else if (o.op == "load") {
      ret = Hex(C::To(a.load(sc)));
    } else if (o.op == "conv") {
      T v = a;
      ret = Hex(C::To(v));
    } else if (o.op == "store") {
      a.store(C::From(o.arg), sc);
    } else if (o.op == "xchg") {
      ret = Hex(C::To(a.exchange(C::From(o.arg), sc)));
    } else if (o.op == "assign") {
      // the fault wrappers hide AtomicBase::operator=(T) behind the implicitly deleted copy assignment of the derived
      // classes: `a = v` does not compile for them (API gap, reported as "unsupported", not a semantic mismatch)
      if constexpr (requires(A& x, T y) { x = y; }) {
        T v = (a = C::From(o.arg));
        ret = Hex(C::To(v));
      } else {
        a.store(C::From(o.arg), sc);
        ret = "unsupported";
      }
    } else if (o.op == "cas_strong" || o.op == "cas_weak") {
      T e = C::From(o.exp);
      const bool strong = o.op == "cas_strong";
      // the strong form must ignore the fault layer's "fail spuriously" answer: it is asked to fail every time
      g_force_spurious = (strong || o.spur) ? 1 : 0;
      g_weak_consulted = 0;
      // the three call forms (success + failure order, one order, defaulted order) rotate over position and operands
      const auto form = (static_cast<std::uint64_t>(&o - ops.data()) + o.arg + o.exp) % 3;
      bool ok = false;
      if (form == 0) {
        ok = strong ? a.compare_exchange_strong(e, C::From(o.arg), sc, sc) : a.compare_exchange_weak(e, C::From(o.arg), sc, sc);
      } else if (form == 1) {
        ok = strong ? a.compare_exchange_strong(e, C::From(o.arg), sc) : a.compare_exchange_weak(e, C::From(o.arg), sc);
      } else {
        ok = strong ? a.compare_exchange_strong(e, C::From(o.arg)) : a.compare_exchange_weak(e, C::From(o.arg));
      }
      g_force_spurious = 0;
      ret = ok ? "true" : "false";
      exp = Hex(C::To(e));
    } else {
      if constexpr (!std::is_same_v<T, bool>) {
        if (o.op == "fadd") {
          ret = Hex(C::To(a.fetch_add(C::Delta(o.arg), sc)));
        } else if (o.op == "fsub") {
          ret = Hex(C::To(a.fetch_sub(C::Delta(o.arg), sc)));
        } else if (o.op == "add_assign") {
          ret = Hex(C::To(a += C::Delta(o.arg)));
        } else if (o.op == "sub_assign") {
          ret = Hex(C::To(a -= C::Delta(o.arg)));
        } else if constexpr (!std::is_floating_point_v<T>) {
          if (o.op == "pre_inc") {
            ret = Hex(C::To(++a));
          } else if (o.op == "post_inc") {
            ret = Hex(C::To(a++));
          } else if (o.op == "pre_dec") {
            ret = Hex(C::To(--a));
          } else if (o.op == "post_dec") {
            ret = Hex(C::To(a--));
          } else if constexpr (std::is_integral_v<T>) {
            if (o.op == "fand") {
              ret = Hex(C::To(a.fetch_and(C::From(o.arg), sc)));
            } else if (o.op == "for") {
              ret = Hex(C::To(a.fetch_or(C::From(o.arg), sc)));
            } else if (o.op == "fxor") {
              ret = Hex(C::To(a.fetch_xor(C::From(o.arg), sc)));
            } else if (o.op == "and_assign") {
              ret = Hex(C::To(a &= C::From(o.arg)));
            } else if (o.op == "or_assign") {
              ret = Hex(C::To(a |= C::From(o.arg)));
            } else if (o.op == "xor_assign") {
              ret = Hex(C::To(a ^= C::From(o.arg)));
            } else {
              ret = "badop";
            }
          } else {
            ret = "badop";
          }
        } else {
          ret = "badop";
        }
      } else {
        ret = "badop";
      }
    }
    std::uint64_t now = C::To(a.load(sc));
    if (!out.empty()) {
      out += ";";
    }
    out += ret + ":" + Hex(now) + ":" + exp;
  }
  return out;
}

// atomic_flag: test_and_set / clear, fences in between; the current value is read by a test_and_set that is undone
template <typename A, bool StdFence>
std::string RunFlag(const std::vector<OpIn>& ops) {
  A a;
  a.clear();
  std::string out;
  for (auto& o : ops) {
    std::string ret = "-";
    if (o.op == "tas") {
      ret = a.test_and_set() ? "1" : "0";
    } else if (o.op == "clear") {
      a.clear();
    } else if (o.op == "fence") {
      if constexpr (StdFence) {
        std::atomic_thread_fence(std::memory_order_seq_cst);
        std::atomic_signal_fence(std::memory_order_seq_cst);
      } else {
        yaclib_std::atomic_thread_fence(std::memory_order_seq_cst);
        yaclib_std::atomic_signal_fence(std::memory_order_seq_cst);
      }
    } else {
      ret = "badop";
    }
    const bool cur = a.test_and_set();
    if (!cur) {
      a.clear();
    }
    if (!out.empty()) {
      out += ";";
    }
    out += ret + ":" + (cur ? "1" : "0") + ":-";
  }
  return out;
}

template <typename T>
std::string RunBackend(const std::string& backend, std::uint64_t init, const std::vector<OpIn>& ops) {
  if (backend == "fiber") {
    return RunSeq<T, yaclib::detail::Atomic<yaclib::detail::fiber::Atomic<T>, T>>(init, ops);
  }
  if (backend == "thread") {
    return RunSeq<T, yaclib::detail::Atomic<std::atomic<T>, T>>(init, ops);
  }
  return RunSeq<T, std::atomic<T>>(init, ops);
}

int AtomicMain(int, char**) {
  auto& h = yaclib::verif::GetHooks();
  h = yaclib::verif::Hooks{};
  h.weak_fail = &WeakHook;
  h.inject = &InjectHook;
  std::string line;
  long idx = 0;
  while (std::getline(std::cin, line)) {
    if (line.empty()) {
      continue;
    }
    std::istringstream is(line);
    std::string type, backend, init_s, ops_s;
    is >> type >> backend >> init_s >> ops_s;
    std::uint64_t init = std::strtoull(init_s.c_str(), nullptr, 16);
    std::vector<OpIn> ops;
    std::string cur;
    std::istringstream os(ops_s);
    while (std::getline(os, cur, ';')) {
      OpIn o;
      std::istringstream fs(cur);
      std::string f;
      int k = 0;
      while (std::getline(fs, f, ':')) {
        if (k == 0) {
          o.op = f;
        } else if (k == 1 && f != "-") {
          o.arg = std::strtoull(f.c_str(), nullptr, 16);
        } else if (k == 2 && f != "-") {
          o.exp = std::strtoull(f.c_str(), nullptr, 16);
        } else if (k == 3) {
          o.spur = f == "1";
        }
        ++k;
      }
      ops.push_back(o);
    }
    std::string res;
#define VRT_T(name, T)                                                                                                 \
  if (type == name) {                                                                                                  \
    res = RunBackend<T>(backend, init, ops);                                                                           \
  }
    VRT_T("i8", std::int8_t)
    VRT_T("u8", std::uint8_t)
    VRT_T("i16", std::int16_t)
    VRT_T("u16", std::uint16_t)
    VRT_T("i32", std::int32_t)
    VRT_T("u32", std::uint32_t)
    VRT_T("i64", std::int64_t)
    VRT_T("u64", std::uint64_t)
    VRT_T("bool", bool)
    if (type == "flag") {
      res = backend == "fiber"    ? RunFlag<yaclib::detail::AtomicFlag<yaclib::detail::fiber::AtomicFlag>, false>(ops)
            : backend == "thread" ? RunFlag<yaclib::detail::AtomicFlag<std::atomic_flag>, true>(ops)
                                  : RunFlag<std::atomic_flag, true>(ops);
    }
    VRT_T("ptr", int*)
    VRT_T("f32", float)
    VRT_T("f64", double)
    g_bits = true;
    VRT_T("b32", float)
    VRT_T("b64", double)
    g_bits = false;
#undef VRT_T
    std::printf("%ld %s\n", idx, res.c_str());
    ++idx;
  }
  return 0;
}

vrt::CommandRegistrar g_reg{"atomic", &AtomicMain};

}  // namespace
